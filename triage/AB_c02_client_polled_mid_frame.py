"""Defect AB (C02/C13): client.__next__ re-enters its framing engine when NO input is available ( recv gave None ) while a frame is half
parsed: the engine detects "no progress", is discarded, and the rest of the frame is parsed as a new header.  Polling next( cli ) between two
chunks of one frame - e.g. an await_response( timeout=... ) that expires mid-frame, followed by another - destroys the session.
A stub server sends a 28-byte Register reply as 10 + 18 bytes.   exit 1 on the pinned tree, 0 after the fix."""
import sys, socket, threading, time
from cpppo.server.enip import client

reply = bytes( bytearray( [ 0x65,0x00, 0x04,0x00, 0x78,0x56,0x34,0x12, 0,0,0,0, 0x30,0,0,0,0,0,0,0, 0,0,0,0, 0x01,0x00, 0x00,0x00 ] ))
lsn = socket.socket(); lsn.setsockopt( socket.SOL_SOCKET, socket.SO_REUSEADDR, 1 ); lsn.bind(( 'localhost', 44901 )); lsn.listen( 1 )
go = threading.Event()
def serve():
    c, _ = lsn.accept()
    c.recv( 1024 )
    c.sendall( reply[:10] ); go.wait(); c.sendall( reply[10:] ); time.sleep( 1 ); c.close()
t = threading.Thread( target=serve ); t.daemon = True; t.start()

cli = client.client( host='localhost', port=44901, timeout=2.0 )
out = []
with cli:
    cli.register()
    time.sleep( 0.3 )
    for step in ( 'after chunk 1', 'again, nothing new', 'after chunk 2' ):
        if step == 'after chunk 2':
            go.set(); time.sleep( 0.3 )
        try:
            r = next( cli )
            out.append( None if r is None else 'session 0x%x' % r.enip.session_handle )
        except Exception as exc:
            out.append( '%s: %s' % ( type( exc ).__name__, str( exc )[:60] ))
        print( '%-20s -> %s' % ( step, out[-1] ))
    cli.engine = None		# (leave the with block quietly)
want = [ None, None, 'session 0x12345678' ]
print( 'expected %r' % want )
sys.exit( 0 if out == want else 1 )
