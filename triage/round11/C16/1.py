"""A key made of ONE component behind leading dot(s) ( '.c', or anything that reduces to that, eg. 'x...c' ) is resolved
as ( 'c', 'c' ): lookup / in / pop / del address 'c.c' instead of 'c', and assignment silently creates the level c.c.
The class doc says "leading '.' ignored"; '.a.b' (two components) works, and dotdict_test sets d['.c'] = 2 but only
checks hasattr( d, 'c' )."""
import sys
from cpppo.dotdict import dotdict

bad = []
def expect( what, got, exp ):
    if got != exp:
        bad.append( "%-28s observed %r, expected %r" % ( what, got, exp ))
def attempt( f ):
    try:
        return f()
    except Exception as exc:
        return "%s(%s)" % ( type( exc ).__name__, exc )

d = dotdict( c=1 )
expect( "d['.c']",		attempt( lambda: d['.c'] ),		1 )
expect( "'.c' in d",		attempt( lambda: '.c' in d ),		True )
expect( "d['x...c'] (past root)", attempt( lambda: d['x...c'] ),	1 )
expect( "d['c.x..'] (control)", attempt( lambda: d['c.x..'] ),		1 )
expect( "d.pop( '.c', 'dflt' )",attempt( lambda: dotdict( c=1 ).pop( '.c', 'dflt' )), 1 )

e = dotdict()
e['.c'] = 2
expect( "items after e['.c'] = 2",	attempt( lambda: sorted( e.items() )), [ ('c', 2) ] )
f = dotdict()
f['.a.b'] = 2 # two components: fine
expect( "items after f['.a.b'] = 2",	attempt( lambda: sorted( f.items() )), [ ('a.b', 2) ] )

if bad:
    print( "dotdict: single component behind a leading '.':" )
    print( "\n".join( "  " + b for b in bad ))
    sys.exit( 1 )
print( "OK" )
