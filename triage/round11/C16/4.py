"""Key iteration lists elements of lists of mappings as name[i].leaf, and lookup of such a key evaluates 'name[i]' as a
Python expression.  A level name that is not a Python identifier ( 'my-tag', '1x', 'in', 'None', 'a b' -- all accepted as
keys, and usual as tag names ) therefore yields listed keys that do not look up ( KeyError ), and 'k in d' is False for
a k that list( d ) contains."""
import sys, warnings
from cpppo.dotdict import dotdict
warnings.simplefilter( 'ignore' )

bad = []
for name in ( 'tag', 'my-tag', '1x', 'in', 'None', 'a b', 'x:y' ):
    d = dotdict()
    d[name] = [ dotdict( v=1 ), dotdict( v=2 ) ]
    for k,v in d.items():
        try:
            got = d[k]
        except Exception as exc:
            got = "%s(%s)" % ( type( exc ).__name__, exc )
        if got != v or k not in d:
            bad.append( "level %-10r listed key %-14r value %r; lookup observed %r, %r in d: %r; expected %r, True" % (
                name, k, v, got, k, k in d, v ))
if bad:
    print( "dotdict: listed keys that do not look up:" )
    print( "\n".join( "  " + b for b in bad ))
    sys.exit( 1 )
print( "OK" )
