"""An element of a list of mappings exists for lookup and membership ( 'l[0]' in d, d['l[0]'] ), and can be assigned by
that key ( d['l[0]'] = ... ), but pop and del by the same key treat 'l[0]' as a literal top-level name:
pop( 'l[0]', default ) returns the default although the path exists, pop( 'l[0]' ) / del d['l[0]'] raise KeyError
( del even with the misleading text "partial key" ).  pop / del of a leaf BELOW the element ( 'l[0].x' ) work."""
import sys
from cpppo.dotdict import dotdict

def attempt( f ):
    try:
        return f()
    except Exception as exc:
        return "%s(%s)" % ( type( exc ).__name__, exc )
bad = []
def expect( what, got, exp ):
    if got != exp:
        bad.append( "%-40s observed %r, expected %r" % ( what, got, exp ))

def mk():
    d = dotdict()
    d.l = [ dotdict( x=1 ), 5, dotdict() ]
    return d
d = mk()
expect( "(control) 'l[1]' in d, d['l[1]']",	( 'l[1]' in d, d['l[1]'] ),			( True, 5 ))
expect( "(control) d.pop( 'l[0].x', 'dflt' )",	attempt( lambda: mk().pop( 'l[0].x', 'dflt' )),	1 )
expect( "d.pop( 'l[1]', 'dflt' )",		attempt( lambda: mk().pop( 'l[1]', 'dflt' )),	5 )
expect( "d.pop( 'l[1]' )",			attempt( lambda: mk().pop( 'l[1]' )),		5 )
def dele( key ):
    d = mk()
    del d[key]
    return d.l
expect( "del d['l[1]']",			attempt( lambda: dele( 'l[1]' )),		[ dotdict( x=1 ), dotdict() ] )
expect( "del d['l[2]'] (an empty level)",	attempt( lambda: dele( 'l[2]' )),		[ dotdict( x=1 ), 5 ] )
if bad:
    print( "dotdict: pop / del of an indexed element disagree with lookup:" )
    print( "\n".join( "  " + b for b in bad ))
    sys.exit( 1 )
print( "OK" )
