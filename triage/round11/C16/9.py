"""Plain dicts inside an assigned LIST are not made levels ( only a dict assigned directly is converted ).  The result is
half a level: lookup and membership address below it ( 'l[0].x' in d, d['l[0].x'] == 1 ) because __getitem__ descends
through anything subscriptable, but key iteration does not list 'l[0].x', assignment below it is refused
( KeyError 'cannot set "y" in "l[0]"' ) and dotted keys inside it are not levels.  Either such dicts become levels when the
list is assigned ( "plain dictionaries assigned into the tree become addressable levels" ), or lookup must not see them."""
import sys
from cpppo.dotdict import dotdict

def attempt( f ):
    try:
        return f()
    except Exception as exc:
        return "%s(%s)" % ( type( exc ).__name__, exc )

d = dotdict()
d.l = [ { 'x': 1 }, { 'y.z': 2 } ]
looked = attempt( lambda: d['l[0].x'] )
isin = 'l[0].x' in d
keys = sorted( d.keys() )
assigned = attempt( lambda: d.__setitem__( 'l[0].w', 3 ))
nested = attempt( lambda: d['l[1].y.z'] )
consistent_levels = ( looked == 1 and isin and 'l[0].x' in keys and assigned is None and nested == 2 )
consistent_opaque = ( looked != 1 and not isin and keys == ['l'] )
if not ( consistent_levels or consistent_opaque ):
    print( "dotdict: plain dicts in an assigned list are half levels:" )
    print( "  d.l = [ {'x': 1}, {'y.z': 2} ]" )
    print( "  observed: d['l[0].x'] -> %r, 'l[0].x' in d -> %r, keys() -> %r, d['l[0].w'] = 3 -> %r, d['l[1].y.z'] -> %r" % (
        looked, isin, keys, assigned, nested ))
    print( "  expected: 1, True, ['l[0].w', 'l[0].x', 'l[1].y.z'], None, 2  ( levels )  -- or the list opaque to all of them" )
    sys.exit( 1 )
print( "OK" )
