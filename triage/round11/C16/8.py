"""Iteration "does not ignore empty key layers" ( dotdict_test ): an empty level is listed as a leaf ( 'n', {} ), so is an
empty list.  But an empty level that is an element of a list of mappings is dropped, and a list holding only empty levels
disappears from keys() / items() altogether although 'l' in d and 'l[0]' in d are True."""
import sys
from cpppo.dotdict import dotdict

bad = []
d = dotdict()
d.n = dotdict()
d.l = [ dotdict() ]
d.m = [ dotdict( x=1 ), dotdict() ]
keys = sorted( d.keys() )
for k in ( 'l', 'l[0]', 'm[1]', 'n' ):
    if k not in d:
        bad.append( "(control) %r in d observed False" % k )
if 'n' not in keys:
    bad.append( "(control) empty level 'n' not listed: %r" % keys )
if not any( k.startswith( 'l' ) for k in keys ):
    bad.append( "d.l = [ dotdict() ]: keys() observed %r; expected a key for the level l ( 'l' or 'l[0]' ), as for the empty level 'n'" % keys )
if not any( k.startswith( 'm[1]' ) for k in keys ):
    bad.append( "d.m = [ dotdict( x=1 ), dotdict() ]: keys() observed %r; expected 'm[1]' listed like any other empty level" % keys )
if bad:
    print( "dotdict: empty levels inside lists are not iterated:" )
    print( "\n".join( "  " + b for b in bad ))
    sys.exit( 1 )
print( "OK" )
