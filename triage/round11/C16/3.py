"""apidict ( the dotdict with locking ) is not closed under the operations of the tree: wherever dotdict_base builds a new
object of `self.__class__` / `type( self )` it passes the content as FIRST argument, which apidict takes for its timeout.
 - assigning a plain dict at the top level of an apidict ( item, attribute, set, setdefault, update, constructor keyword )
   raises AssertionError instead of becoming an addressable level ( it works one level down, where levels are dotdicts );
 - copy.copy / copy.deepcopy of an apidict raise AssertionError;
 - the documented copy form apidict( other ) shares every level below the first with the original."""
import sys, copy
from cpppo.dotdict import dotdict, apidict_threading

def attempt( f ):
    try:
        return f()
    except BaseException as exc:
        return "%s(%s)" % ( type( exc ).__name__, exc )

bad = []
def expect( what, got, exp ):
    if got != exp:
        bad.append( "%-44s observed %r, expected %r" % ( what, got, exp ))

def assign():
    a = apidict_threading( 0.01 )
    a['lvl'] = { 'x': 1 }
    return a['lvl.x'], sorted( a.keys() )
expect( "a['lvl'] = {'x': 1}; a['lvl.x'], keys", attempt( assign ), ( 1, ['lvl.x'] ))

def assign_below():
    a = apidict_threading( 0.01 )
    a['top.lvl'] = { 'x': 1 }
    return a['top.lvl.x']
expect( "(control) a['top.lvl'] = {'x': 1}", attempt( assign_below ), 1 )

def ctor():
    return sorted( apidict_threading( 0.01, { 'lvl': { 'x': 1 }} ).items() )
expect( "apidict( tmo, {'lvl': {'x': 1}} ).items()", attempt( ctor ), [ ('lvl.x', 1) ] )

def cp( how ):
    a = apidict_threading( 0.01 )
    a['p.q.r'] = 1
    c = how( a )
    c['p.q.r'] = 2
    c['p.s'] = 3
    return type( c ).__name__, sorted( a.items() ), sorted( c.items() )
exp = ( 'apidict_threading', [ ('p.q.r', 1) ], [ ('p.q.r', 2), ('p.s', 3) ] )
expect( "copy.copy( apidict )",		attempt( lambda: cp( copy.copy )),		exp )
expect( "copy.deepcopy( apidict )",	attempt( lambda: cp( copy.deepcopy )),		exp )
expect( "apidict( other apidict )",	attempt( lambda: cp( apidict_threading )),	exp )

def cp_list():
    a = apidict_threading( 0.01 )
    a['l'] = [ dotdict( x=1 ) ]
    return sorted( apidict_threading( a ).items() )
expect( "apidict( other ) holding a list of mappings", attempt( cp_list ), [ ('l[0].x', 1) ] )

# the names of apidict's own slots are accepted as keys but shadowed in attribute form
def slot():
    a = apidict_threading( 0.01 )
    a['_tmo'] = 5
    return a['_tmo'], a._tmo
got = attempt( slot )
if got != ( 5, 5 ) and not str( got ).startswith( 'KeyError' ):
    bad.append( "%-44s observed %r, expected (5, 5) ( or the key refused like the other reserved names )" % ( "a['_tmo'] = 5; a['_tmo'], a._tmo", got ))

if bad:
    print( "apidict: plain dicts at the top level, and copies:" )
    print( "\n".join( "  " + b for b in bad ))
    sys.exit( 1 )
print( "OK" )
