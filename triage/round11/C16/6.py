"""Pickling ( what multiprocessing does with every dotdict that crosses a manager proxy, eg. the value of apidict_proxy.get )
serialises a dict subclass through its items(), which dotdict overrides to yield full-depth keys; unpickling then assigns
them one by one.  For a tree holding a list of mappings the keys are 'l[0].x', whose assignment requires the list to exist
already: pickle.loads raises NameError, so such a tree cannot be copied through pickle ( or any copy protocol falling back
to __reduce_ex__ ).  Trees without lists round-trip."""
import sys, pickle
from cpppo.dotdict import dotdict

def attempt( f ):
    try:
        return f()
    except Exception as exc:
        return "%s(%s)" % ( type( exc ).__name__, exc )
bad = []
plain = dotdict()
plain['a.b'] = 1
got = attempt( lambda: sorted( pickle.loads( pickle.dumps( plain )).items() ))
if got != [ ('a.b', 1) ]:
    bad.append( "(control) tree without lists: observed %r, expected %r" % ( got, [ ('a.b', 1) ] ))

d = dotdict()
d['a.b'] = 1
d.l = [ dotdict( x=1 ), dotdict( x=2 ) ]
exp = sorted( d.items() )
for proto in range( 2, pickle.HIGHEST_PROTOCOL + 1 ):
    got = attempt( lambda: sorted( pickle.loads( pickle.dumps( d, proto )).items() ))
    if got != exp:
        bad.append( "protocol %d, tree with a list of mappings: observed %r, expected %r" % ( proto, got, exp ))
if bad:
    print( "dotdict: pickle round trip:" )
    print( "\n".join( "  " + b for b in bad ))
    sys.exit( 1 )
print( "OK" )
