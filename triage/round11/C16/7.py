"""Keys that contain a '[' but do not END in ']' ( 'a[1]x', 'x[' ) are accepted by assignment and stored literally, are
listed by iteration, but lookup evaluates anything containing '[' as an expression: the stored value cannot be looked
up and 'k in d' is False ( pop, which takes the name literally, still finds it ).  Either assignment should refuse such a
key or lookup / membership / del should find it."""
import sys
from cpppo.dotdict import dotdict

def attempt( f ):
    try:
        return f()
    except Exception as exc:
        return "%s(%s)" % ( type( exc ).__name__, exc )
bad = []
for key in ( 'a[1]x', 'x[', 'lvl.a[1]x' ):
    d = dotdict()
    stored = attempt( lambda: d.__setitem__( key, 1 ))
    if stored is not None:
        continue # refused: consistent
    listed = list( d.keys() )
    got = attempt( lambda: d[key] )
    isin = attempt( lambda: key in d )
    if got != 1 or isin is not True:
        bad.append( "d[%r] = 1 accepted, keys() == %r; lookup observed %r, %r in d observed %r; expected 1, True ( or the assignment refused )" % (
            key, listed, got, key, isin ))
if bad:
    print( "dotdict: keys with a '[' that is not an index:" )
    print( "\n".join( "  " + b for b in bad ))
    sys.exit( 1 )
print( "OK" )
