"""'..' directly behind an indexed segment whose index expression contains a '.' ( 'l[b.c]..e' ): the back-tracking of
_resolve cuts at the last '.' of the text in front of the '..', which lies INSIDE the brackets, leaving 'l[b.e' and a
KeyError "unbalance brackets".  With a plain index ( 'l[0]..e' ) or one more component ( 'l[b.c].x..x' ) it works."""
import sys
from cpppo.dotdict import dotdict

def attempt( f ):
    try:
        return f()
    except Exception as exc:
        return "%s(%s)" % ( type( exc ).__name__, exc )

d = dotdict()
d['b.c'] = 0
d.l = [ dotdict( x=1 ) ]
d.e = 7

bad = []
for key,exp in [
        ( 'l[0]..e',		7 ),	# control
        ( 'l[b.c].x',		1 ),	# control
        ( 'l[b.c].x..x',	1 ),	# control
        ( 'l[b.c]..e',		7 ),	# parent of l[...] is the root
        ( 'l[b.c]..l[b.c].x',	1 ),
]:
    got = attempt( lambda: d[key] )
    if got != exp:
        bad.append( "d[%r]: observed %r, expected %r" % ( key, got, exp ))
    got = attempt( lambda: key in d )
    if got is not True:
        bad.append( "%r in d: observed %r, expected True" % ( key, got ))
if bad:
    print( "dotdict: '..' behind an index expression containing '.':" )
    print( "\n".join( "  " + b for b in bad ))
    sys.exit( 1 )
print( "OK" )
