"""SSTRING: the .length only limits what the text may consume; a text that ends before its .length octets
were seen ( end of input, or an enclosing limit such as the size of a Write Tag's data ) is accepted as a
complete SSTRING.  ( The same was repaired for STRING in 6db9b7e; SSTRING was left. )"""
import sys, os
sys.path.insert( 0, os.path.dirname( os.path.abspath( __file__ )))
from common import parse
from cpppo.server.enip import parser

bad			= []

# 1. input ends inside the text
m			= parser.SSTRING( terminal=True )
data,source,exc		= parse( m, [ b'\x05ab' ] )
if exc is None and m.terminal:
    bad.append( "SSTRING over 05 'ab' <end>: observed complete, .length %r .string %r; expected not complete ( 3 octets missing )" % (
        data.SSTRING.length, data.SSTRING.string ))

# 2. an enclosing limit cuts the second element of typed SSTRING data in half
m			= parser.typed_data( terminal=True, tag_type=parser.SSTRING.tag_type, limit=5 )
data,source,exc		= parse( m, [ b'\x02ab\x03abc' + b'XYZ' ] )
if exc is None and m.terminal:
    bad.append( "typed_data( SSTRING, limit=5 ) over 02 'ab' 03 'abc': observed complete with data %r; expected failure ( 2nd element cut after 1 of 3 octets )" % (
        data.typed_data.data, ))

# 3. the same through the CPF identity item: item .length ends inside the product name
ident			= ( b'\x01\x00' + b'\x00\x02\xaf\x12\x0a\x00\x00\x01' + b'\0'*8
                            + b'\x01\x00\x0e\x00\x36\x00\x14\x0b\x60\x31\x1a\x06\x6c\x00' + b'\x07Product' )
m			= parser.identity_object( terminal=True, limit=len( ident ) - 4 )
data,source,exc		= parse( m, [ ident + b'\x03' ] )
if exc is None and m.terminal:
    bad.append( "identity_object limited 4 octets short of its product name: observed complete with product_name %r; expected failure" % (
        data.identity_object.product_name, ))

if bad:
    print( "\n".join( bad ))
    sys.exit( 1 )
print( "OK" )
