"""EPATH: a symbolic segment ( or a port segment's link address ) whose own length reaches beyond the
EPATH .size is cut at the .size boundary and accepted: the path completes with a truncated name, and the
rest of the name is left to the enclosing grammar as if it were the next field."""
import sys, os
sys.path.insert( 0, os.path.dirname( os.path.abspath( __file__ )))
from common import parse
from cpppo.server.enip import parser

bad			= []
cases			= [
    ( "symbolic, length 5 in a 2-word path",	b'\x02' + b'\x91\x05abcde\x00',		'symbolic' ),
    ( "symbolic, length 3 in a 2-word path",	b'\x02' + b'\x91\x03abc\x00',		'symbolic' ),
    ( "link address, length 5 in a 2-word path",	b'\x02' + b'\x11\x05abcde\x00',	'link' ),
]
for what,octets,key in cases:
    m			= parser.EPATH( terminal=True )
    data,source,exc	= parse( m, [ octets + b'\x01\x02' ] )
    if exc is None and m.terminal:
        bad.append( "%s: observed complete after %d octets with %s %r, next symbol %r; expected failure ( the segment does not fit its path )" % (
            what, source.sent, key, data.EPATH.segment[0][key], source.peek() ))

# Through a request: Read Tag with a tag name cut by the path size is served as a request for another tag
from cpppo.server.enip import logix
octets			= b'\x4c' + b'\x02' + b'\x91\x05SCADA\x00' + b'\x01\x00'
data,source,exc		= parse( logix.Logix.parser, [ octets ] )
if exc is None and 'read_tag' in data and 'path' in data:
    bad.append( "Read Tag, path size 2 words, symbolic length 5 'SCADA': observed request for %r with elements %r; expected failure" % (
        data.path.segment[0].symbolic, data.read_tag.get( 'elements' )))

if bad:
    print( "\n".join( bad ))
    sys.exit( 1 )
print( "OK" )
