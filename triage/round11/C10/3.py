"""unconnected_send.is_uerr takes its 4 look-ahead symbols with next( source ) wherever the item's
declared .length is 4..6: (a) when the input arrives in chained blocks and a block ends inside these 4
octets, StopIteration escapes the predicate and the parse fails, although the same octets in one block
parse; (b) when an enclosing limit ends inside the 4 octets, the decision is taken on octets beyond that
limit: the outcome for one and the same limited region depends on what follows it."""
import struct, sys, os
sys.path.insert( 0, os.path.dirname( os.path.abspath( __file__ )))
from common import parse
from cpppo.server.enip import parser

def cpf( payload ):
    return ( struct.pack( '<H', 2 ) + struct.pack( '<HH', 0x0000, 0 )
             + struct.pack( '<HH', 0x00b2, len( payload )) + payload )

bad			= []
# (a) chained blocks
for payload in ( b'\xd2\x00\x05\x00', b'\xd2\x00\x15\x00' ):
    whole		= cpf( payload )
    m			= parser.CPF( terminal=True )
    data,source,exc	= parse( m, [ whole ] )
    ref			= ( exc is None and m.terminal, dict( data ))
    for cut in range( len( whole ) - 3, len( whole )):
        m		= parser.CPF( terminal=True )
        data,source,exc	= parse( m, [ whole[:cut], whole[cut:] ] )
        got		= ( exc is None and m.terminal, dict( data ))
        if got != ref:
            bad.append( "payload %r: one block: complete=%r; blocks of %d + %d octets: complete=%r, exception %r; expected the same result" % (
                payload, ref[0], cut, len( whole ) - cut, got[0], exc ))

# (b) enclosing limit ends 2 octets into the item's 4 octets
results			= {}
for beyond in ( b'\x05\x00', b'\x15\x00' ):
    whole		= cpf( b'\xd2\x00' + beyond )
    m			= parser.CPF( terminal=True, limit=len( whole ) - 2 )
    data,source,exc	= parse( m, [ whole ] )
    results[beyond]	= ( exc is None and m.terminal, source.sent )
if len( set( results.values() )) != 1:
    bad.append( "CPF limited to end after 'd2 00' of a 4-octet item: ( complete, consumed ) by the octets BEYOND the limit: %r; expected the same outcome" % (
        results, ))

if bad:
    print( "\n".join( bad ))
    sys.exit( 1 )
print( "OK" )
