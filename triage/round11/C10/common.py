import cpppo
from cpppo import automata

def parse( machine, blocks, data=None ):
    """Run machine over the blocks ( chained one after the other whenever the machine starves ).
    Returns data, source, exception"""
    data		= cpppo.dotdict() if data is None else data
    blocks		= list( blocks )
    source		= automata.chainable( blocks.pop( 0 ))
    exc			= None
    try:
        with machine:
            starved	= 0
            for m,s in machine.run( source=source, data=data ):
                if s is None and source.peek() is None:
                    if blocks:
                        source.chain( blocks.pop( 0 ))
                        starved = 0
                    else:
                        starved += 1
                        if starved > 10:
                            break
    except Exception as e:
        exc		= e
    return data, source, exc
