"""The client's --route-path documents "0/false to specify no/empty route_path", and -S|--simple asks for
no route path and no send path.  Both together (or '[]', 'false') spell the same thing -- a bare request --
and a simple (-S) simulator must accept it.  client.main hands the TEXT '0' down to unconnected_send, which
takes any non-empty text for "a route path was supplied" and fails its send_path assertion before it has
parsed the text ( get_attribute.main parses the text first, and works )."""
import logging, socket, sys, threading, time

from cpppo.dotdict import dotdict, apidict
from cpppo.server.enip import client
from cpppo.server.enip import main as enip_main_module

logging.basicConfig( level=logging.CRITICAL )

def free_port():
    s = socket.socket(); s.bind( ( '127.0.0.1', 0 )); p = s.getsockname()[1]; s.close(); return p

def main():
    port			= free_port()
    address			= "127.0.0.1:%d" % port
    control			= apidict( timeout=1.0 )
    control['done']		= False
    server			= threading.Thread(
        target=enip_main_module.main,
        kwargs=dict( argv=[ '-a', address, '--no-udp', '-S', 'T=INT[4]' ], server=dotdict( control=control )))
    server.daemon		= True
    server.start()
    for _ in range( 300 ):
        try:
            socket.create_connection( ( '127.0.0.1', port ), timeout=.2 ).close()
            break
        except Exception:
            time.sleep( .1 )
    problems			= []
    try:
        n			= 0
        for argv in ( [ '-S' ], [ '--route-path', '0', '--send-path', '@6/1' ], [ '-S', '--route-path', '0' ],
                      [ '-S', '--route-path', 'false' ], [ '-S', '--route-path', '[]' ] ):
            n		       += 1
            try:
                result		= client.main( argv=[ '-a', address, '-t', '2' ] + argv + [ 'T[0]=%d' % n ] )
            except Exception as exc:
                result		= "raised %s: %s" % ( type( exc ).__name__, exc )
            stored		= enip_main_module.tags['T'].attribute[0]
            print( "client %-28s --> %r; T[0] == %r" % ( ' '.join( argv ), result, stored ))
            if result != 0 or stored != n:
                problems.append( "observed: client %s --> %r, T[0] == %r; expected: 0 (a request without route path, accepted by the simple simulator), T[0] == %d" % (
                    ' '.join( argv ), result, stored, n ))
    finally:
        control['done']		= True
        server.join( 5 )
    if problems:
        print( "\n".join( problems ))
        return 1
    print( "OK" )
    return 0

sys.exit( main() )
