"""client.main, get_attribute.main and poll.main document for --send-path: "Specify an empty string '' for
no Send Path".  --route-path 0 --send-path '' therefore spells a bare request (no Unconnected Send 0x52
encapsulation), exactly what -S sends.  The empty string is taken for "not given" and the default send path
@6/1 is used: the request goes out in an Unconnected Send with an empty route path."""
import logging, socket, sys, threading, time

from cpppo.dotdict import dotdict, apidict
from cpppo.server.enip import client, logix
from cpppo.server.enip import main as enip_main_module

logging.basicConfig( level=logging.CRITICAL )

seen				= []
def process( addr, data, **kwds ):
    """The simulator's EtherNet/IP request processor; remember what each SendRRData request carried."""
    if data.get( 'request.enip.command' ) == 0x6f:
        raw			= bytes( data.request.enip.input )
        seen.append( raw[16:] )			# behind interface handle, timeout, CPF count, NULL address item, data item header
    return logix.process( addr, data=data, **kwds )

def free_port():
    s = socket.socket(); s.bind( ( '127.0.0.1', 0 )); p = s.getsockname()[1]; s.close(); return p

def main():
    port			= free_port()
    address			= "127.0.0.1:%d" % port
    control			= apidict( timeout=1.0 )
    control['done']		= False
    server			= threading.Thread(
        target=enip_main_module.main,
        kwargs=dict( argv=[ '-a', address, '--no-udp', 'T=INT[4]' ], server=dotdict( control=control ),
                     enip_process=process ))
    server.daemon		= True
    server.start()
    for _ in range( 300 ):
        try:
            socket.create_connection( ( '127.0.0.1', port ), timeout=.2 ).close()
            break
        except Exception:
            time.sleep( .1 )
    problems			= []
    try:
        for argv,wrapped in ( ( [],						True ),
                              ( [ '-S' ],					False ),
                              ( [ '--route-path', '0', '--send-path', '' ],	False )):
            del seen[:]
            result		= client.main( argv=[ '-a', address, '-t', '2' ] + argv + [ 'T[0]' ] )
            print( "client %-32s --> %r; the simulator received the unconnected data item: %r" % (
                ' '.join( repr( a ) if not a else a for a in argv ), result, seen ))
            # Unconnected Send: service 0x52, path of 2 words @6/1; a bare Read Tag begins with 0x4c
            is_wrapped		= bool( seen ) and seen[-1][:6] == b'\x52\x02\x20\x06\x24\x01'
            if is_wrapped != wrapped:
                problems.append( "observed: client %r sent %s; expected: %s" % (
                    argv, "an Unconnected Send (0x52) via send path @6/1" if is_wrapped else "a bare request",
                    "an Unconnected Send (0x52) encapsulation" if wrapped else "a bare request: no send path, no route path" ))
    finally:
        control['done']		= True
        server.join( 5 )
    if problems:
        print( "\n".join( problems ))
        return 1
    print( "OK" )
    return 0

sys.exit( main() )
