"""A gateway simulator configured with the route path 1/0 and the Route table { "2/5": <target> } must
refuse a request whose route path is neither absent, nor 1/0, nor begins with the hop port 2 / link 5.
A request whose first hop is port 2 with the link ADDRESS (text) "5" -- wire 12 01 '5' 00, a different
link kind than the numeric link 5 the table entry "2/5" spells -- is forwarded through that entry and
executed by the target."""
import os, socket, struct, subprocess, sys, time

PY				= sys.executable
ENV				= dict( os.environ )

SIM				= r'''
import sys
from cpppo.server.enip import ucmm, device
from cpppo.server.enip.main import main
class UCMM( ucmm.UCMM ):
    route_path			= device.parse_route_path( sys.argv[1] ) if sys.argv[1] != 'any' else None
    route			= eval( sys.argv[2] )
sys.exit( main( argv=sys.argv[3:], UCMM_class=UCMM ))
'''

def free_port():
    s = socket.socket(); s.bind( ( '127.0.0.1', 0 )); p = s.getsockname()[1]; s.close(); return p

def start( port, route_path, route, *args ):
    p = subprocess.Popen( [ PY, '-c', SIM, route_path, repr( route ), '-a', '127.0.0.1:%d' % port, '--no-udp' ] + list( args ),
                          env=ENV, stdout=subprocess.DEVNULL, stderr=subprocess.DEVNULL )
    for _ in range( 300 ):
        try:
            socket.create_connection( ( '127.0.0.1', port ), timeout=.2 ).close()
            return p
        except Exception:
            time.sleep( .1 )
    p.kill()
    raise Exception( "no simulator on port %d" % port )

def enip( command, payload, session=0 ):
    return struct.pack( '<HHII8sI', command, len( payload ), session, 0, b'defect_1', 0 ) + payload

def recv_frame( s ):
    buf = b''
    while len( buf ) < 24 or len( buf ) < 24 + struct.unpack( '<H', buf[2:4] )[0]:
        d = s.recv( 4096 )
        if not d:
            break
        buf += d
    return buf

def transact( port, cip, rp ):
    """Unconnected Send of cip via raw route path octets rp; returns ( enip status, CIP reply octets )"""
    s = socket.create_connection( ( '127.0.0.1', port ), timeout=10 )
    try:
        s.sendall( enip( 0x65, struct.pack( '<HH', 1, 0 )))
        session = struct.unpack( '<I', recv_frame( s )[4:8] )[0]
        us = ( b'\x52\x02\x20\x06\x24\x01' + struct.pack( '<BBH', 5, 157, len( cip )) + cip
               + ( b'\0' if len( cip ) % 2 else b'' ) + struct.pack( 'BB', len( rp ) // 2, 0 ) + rp )
        s.sendall( enip( 0x6f, struct.pack( '<IHHHHHH', 0, 8, 2, 0, 0, 0xb2, len( us )) + us, session=session ))
        r = recv_frame( s )
        if len( r ) < 24:
            return None, b''
        return struct.unpack( '<I', r[8:12] )[0], r[24+16:]
    finally:
        s.close()

def write_T( v ):
    return b'\x4d\x02\x91\x01T\x00' + struct.pack( '<HHh', 0xc3, 1, v )
read_T = b'\x4c\x02\x91\x01T\x00\x01\x00'

def main():
    tp,gp = free_port(),free_port()
    tgt = start( tp, 'any', {}, 'T=INT[1]' )
    gw = None
    try:
        gw = start( gp, '1/0', { "2/5": "127.0.0.1:%d" % tp }, 'G=INT[1]' )
        def T():
            sts,cip = transact( tp, read_T, b'' )
            return struct.unpack( '<h', cip[6:8] )[0]
        problems = []
        # sanity: numeric 2/5 is routed, 2/6 is neither configured nor routed: refused
        sts,cip = transact( gp, write_T( 11 ), b'\x02\x05' )
        print( "hop 2/5 (numeric link)   : enip status %r, reply %r; target T == %d" % ( sts, cip, T() ))
        assert sts == 0 and T() == 11, "set-up failure: numeric hop 2/5 not routed"
        sts,cip = transact( gp, write_T( 12 ), b'\x02\x06' )
        print( "hop 2/6 (numeric link)   : enip status %r, reply %r; target T == %d" % ( sts, cip, T() ))
        assert sts and T() == 11, "set-up failure: hop 2/6 not refused"
        # the link ADDRESS "5" is not the numeric link 5
        sts,cip = transact( gp, write_T( 13 ), b'\x12\x01\x35\x00' )
        print( "hop 2/'5' (link address) : enip status %r, reply %r; target T == %d" % ( sts, cip, T() ))
        if sts == 0 or T() != 11:
            problems.append( "observed: route path [port 2, link address '5'] forwarded through Route '2/5' (enip status %r, target T == %d); "
                             "expected: refused with an error status (it is neither the configured 1/0 nor the numeric hop 2/5), T == 11" % ( sts, T() ))
        if problems:
            print( "\n".join( problems ))
            return 1
        print( "OK" )
        return 0
    finally:
        tgt.kill()
        if gw:
            gw.kill()

sys.exit( main() )
