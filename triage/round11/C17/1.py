"""render() in a zone whose abbreviation / offset is numeric and negative, without sub-seconds (what
.local does), yields a text that timestamp() ACCEPTS and maps to an instant hours away: the '-' of
' -03' / '-0600' is translated to a blank and the digits are taken as the fraction of the second."""
import sys, warnings
warnings.simplefilter( 'ignore' )
from cpppo.history.times import timestamp

t				= 1399326141.0			# 2014-05-05 21:42:21 UTC
bad				= []
for zone,kwds in [
        ( 'America/Sao_Paulo',	dict( ms=False )),			# '2014-05-05 18:42:21 -03'
        ( 'Etc/GMT+5',		dict( ms=False )),			# '2014-05-05 16:42:21 -05'
        ( 'America/Edmonton',	dict( ms=False, tzdetail=False )),	# '2014-05-05 15:42:21-0600'
        ( 'MST',		dict( ms=False, tzdetail=False )),	# '2014-05-05 14:42:21-0700'
]:
    text			= timestamp( t ).render( zone, **kwds )
    try:
        back			= timestamp( text ).value
    except ValueError:
        continue							# refusing the text is acceptable
    if abs( back - t ) >= 1.0:
        bad.append( "render( %r, %r ) == %r parses back %+.3fs away (observed %.3f, expected %.3f or a refusal)" % (
            zone, kwds, text, back - t, back, t ))
for b in bad:
    print( b )
sys.exit( 1 if bad else 0 )
