"""Instants exactly one millisecond apart ( distinct, ordered millisecond renderings ) compare '<' or '=='
depending on floating point noise: value + 0.001 < other.value sits on a knife edge.  The class promises
that comparison is 'always equivalent to lexicographically, in UTC to 3 decimal places'."""
import sys, warnings
warnings.simplefilter( 'ignore' )
from cpppo.history.times import timestamp

less = equal = 0
sample				= []
for k in range( 1000 ):
    a				= timestamp( '2014-05-05 21:42:21.%03d' % k )
    b				= timestamp( '2014-05-05 21:42:%02d.%03d' % ( 21 + ( k + 1 ) // 1000, ( k + 1 ) % 1000 ))
    assert str( a ) < str( b )
    if a < b and b > a and a != b:
        less		       += 1
    else:
        equal		       += 1
        if len( sample ) < 3:
            sample.append( "%s == %s is %s, < is %s" % ( a, b, a == b, a < b ))
if less and equal:
    print( "of 1000 pairs of instants 1ms apart (renderings differ and are ordered) %d compare '<' and %d compare '=='; eg. %s"
           % ( less, equal, "; ".join( sample )))
    print( "expected: one answer for all of them ( '<', as the renderings order them )" )
    sys.exit( 1 )
sys.exit( 0 )
