"""With tzlocal >= 5 and no TZ variable, timestamp.LOC is a plain zoneinfo.ZoneInfo ( TZ_wrapper only
wraps the TZ-variable path in pytz.timezone ): it has neither .localize nor .zone, so the .local setter
refuses every text without a zone, and render( timestamp.LOC, tzdetail=True ) raises AttributeError."""
import os, sys, warnings
warnings.simplefilter( 'ignore' )
os.environ.pop( 'TZ', None )
from cpppo.history.times import timestamp

bad				= []
ts				= timestamp( 1399326141.0 )
text				= ts.render( timestamp.LOC, ms=False, tzdetail=False )[:19]	# local wall-clock, no zone
try:
    ts2				= timestamp( 0 )
    ts2.local			= text
    if abs( ts2.value - ts.value ) > 3600:
        bad.append( ".local = %r gives %r, expected %r" % ( text, ts2.value, ts.value ))
except Exception as exc:
    bad.append( "timestamp.LOC is %r; .local = %r is refused: %r" % ( timestamp.LOC, text, exc.args[-1] ))
try:
    ts.render( timestamp.LOC, tzdetail=True )
except AttributeError as exc:
    bad.append( "render( timestamp.LOC, tzdetail=True ) raises %r" % ( exc, ))
for b in bad:
    print( b )
sys.exit( 1 if bad else 0 )
