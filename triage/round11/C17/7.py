"""Instants before the year 1000: strftime( '%Y' ) does not zero-fill on glibc, so the rendering of
0999-12-31 is '999-12-31 ...', which sorts AFTER '1000-01-01 ...' while the timestamps compare '<'."""
import sys, warnings
warnings.simplefilter( 'ignore' )
from cpppo.history.times import timestamp
a				= timestamp( '0999-12-31 23:59:59.000' )
b				= timestamp( '1000-01-01 00:00:00.000' )
if ( a < b ) != ( str( a ) < str( b )):
    print( "a < b is %s but str( a ) < str( b ) is %s: %r vs %r (expected a 4-digit year, '0999-12-31 23:59:59.000')" % (
        a < b, str( a ) < str( b ), str( a ), str( b )))
    sys.exit( 1 )
sys.exit( 0 )
