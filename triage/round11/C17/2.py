"""No instant rendered in a zone whose NAME contains '-' ( Africa/Porto-Novo, America/Port-au-Prince,
America/Blanc-Sablon, Asia/Ust-Nera, Etc/GMT-3 ... ) can be parsed: datetime_from_string translates ':-.'
to blanks over the whole text, zone name included, so the zone is looked up as 'Novo', 'Prince', '3'."""
import sys, warnings
warnings.simplefilter( 'ignore' )
from cpppo.history.times import timestamp

t				= 1399326141.25			# far from any transition of these zones
bad				= []
for zone in ( 'Europe/Berlin', 'Africa/Porto-Novo', 'America/Port-au-Prince', 'America/Blanc-Sablon',
              'Asia/Ust-Nera', 'Etc/GMT-3' ):
    text			= timestamp( t ).render( zone, tzdetail=True )
    try:
        back			= timestamp( text ).value
        if abs( back - t ) > 0.0005:
            bad.append( "%r parses back as %.3f, expected %.3f" % ( text, back, t ))
    except ValueError as exc:
        bad.append( "%r (unambiguous wall-clock time) is refused: %s" % ( text, exc.args[-1] ))
    # the same happens for the zone given separately
    try:
        timestamp.datetime_from_string( '2014-05-05 12:00:00 ' + zone )
    except ValueError as exc:
        bad.append( "'2014-05-05 12:00:00 %s' is refused: %s" % ( zone, exc.args[-1] ))
for b in bad:
    print( b )
sys.exit( 1 if bad else 0 )
