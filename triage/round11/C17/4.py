"""parse_seconds looks for 'HHH:MM[:SS]' with an unanchored re.search: a sign, a malformed part or any
other text around the first 'digits:2 digits' is ignored and a DIFFERENT duration is returned."""
import sys, warnings
warnings.simplefilter( 'ignore' )
from cpppo.history.times import parse_seconds

bad				= []
for text,expect in [ ( '1:30', 5400.0 ), ( '1:30:05.5', 5405.5 ), ( '-90', -90.0 ),
                     ( '-1:30', -5400.0 ),		# observed +5400.0: sign dropped
                     ( '1:2:03', None ),		# observed 7380.0 ( '2:03' taken as h:mm )
                     ( '1:30:5', None ),		# observed 5400.0 ( ':5' dropped )
                     ( '1:30:05:07', None ),		# observed 5405.0
                     ( 'x1:30y', None ) ]:		# observed 5400.0
    try:
        got			= parse_seconds( text )
    except Exception:
        got			= None
    if got != expect:
        bad.append( "parse_seconds( %r ) == %r, expected %s" % ( text, got, "a refusal" if expect is None else expect ))
for b in bad:
    print( b )
sys.exit( 1 if bad else 0 )
