"""A seconds fraction of more than 6 digits in a duration text is not scaled: '{:0<6}' only pads, so the
digits are taken as a count of microseconds: '0.1234567s' is 1.234567 s, '1.0000005s' is 1.000005 s."""
import sys, warnings
warnings.simplefilter( 'ignore' )
from cpppo.history.times import duration, parse_seconds

bad				= []
for text,expect in [ ( '0.123456s', 0.123456 ), ( '0.1234567s', 0.1234567 ), ( '1.0000005s', 1.0000005 ),
                     ( '2m0.5000000s', 120.5 ), ( '0.0000001s', 0.0000001 ) ]:
    try:
        got			= duration( text ).seconds
        assert got == parse_seconds( text )
    except RuntimeError:
        continue				# refusing the excess digits would be acceptable
    if abs( got - expect ) > 1e-6:		# one microsecond of rounding is fine
        bad.append( "duration( %r ) is %r seconds, expected %r (or a refusal)" % ( text, got, expect ))
for b in bad:
    print( b )
sys.exit( 1 if bad else 0 )
