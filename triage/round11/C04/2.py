"""UNCHANGED code: connector.validate computes the element count it reports for a Write Tag Fragmented as
`request.write_frag.elements - off`, where `off` is the BYTE offset of the fragment: a number of elements
minus a number of bytes.  The summary line ( printing=True / log ) therefore names an element range that
has nothing to do with what was sent: for the second and third tile of T[0-9] written as DINTs in tiles of
4 it prints T[0 - -7] and T[0 - -23] ( negative last index ), for a read it prints as many elements as
came back.

Expected: the range printed for a fragment spans as many elements as the fragment carries values ( or, at
least, the elements that remain from its offset on ) - never an empty / negative range.
"""
import sys, threading, time, re, io, contextlib
import cpppo
from cpppo.server import enip
from cpppo.server.enip import client
from cpppo.server.enip.main import main as enip_main

svraddr = ('localhost', 44895)
control = cpppo.apidict( enip.timeout, {'done': False} )
def server():
    enip_main( argv=[ '--address', '%s:%d' % svraddr, 'T=DINT[10]' ], server={'control': control} )
thr = threading.Thread( target=server ); thr.daemon = True; thr.start()
time.sleep( 1 )
out = io.StringIO()
try:
    with client.connector( host=svraddr[0], port=svraddr[1], timeout=5 ) as conn:
        tiles = [ "T[0-9]+0=(DINT)1,2,3,4", "T[0-9]+16=(DINT)5,6,7,8", "T[0-9]+32=(DINT)9,10" ]
        with contextlib.redirect_stdout( out ):
            res = list( conn.operate( client.parse_operations( tiles ), printing=True ))
        assert all( r[5] for r in res ), "writes refused"
finally:
    control.done = True
problems = []
for line,r in zip( out.getvalue().splitlines(), res ):
    m = re.search( r"T(?:\[\d+\])?\[\s*(-?\d+)-(-?\d+)\s*\]\+\s*(\d+) <= (\[[^\]]*\])", line )
    assert m, "unrecognized line %r" % line
    first,last,off,vals = int( m.group( 1 )), int( m.group( 2 )), int( m.group( 3 )), eval( m.group( 4 ))
    remaining = 10 - off // 4 # elements of the announced range from this fragment on
    if last - first + 1 not in ( len( vals ), remaining ):
        problems.append( "%r names %d elements; the fragment carries %d values, %d elements remain from its offset" % (
            line.strip(), last - first + 1, len( vals ), remaining ))
if problems:
    print( "OBSERVED: " + "\n          ".join( problems ))
    print( "EXPECTED: each line names as many elements as values were written ( or as remain from the offset on )" )
    sys.exit( 1 )
print( "OK" )
