"""UNCHANGED code: a Read Tag Fragmented (service 0x52) sent as a plain ("simple", un-routed) request is
taken for an Unconnected Send (also 0x52) by the server's CPF / unconnected_send parser: it is not
answered by the Logix object at all.  With byte offset 0 the session is ended with EtherNet/IP status
0x08; with a non-zero offset (read as the 'length' of an embedded message) the server waits for octets
that never come.  Read Tag, Write Tag and Write Tag Fragmented work on the same session set-up, so on a
--simple simulator a range larger than one reply can be written, but never be read back completely.

Expected: the fragments 0x06 ... 0x00 whose concatenation is the requested range, as on a routing server.
"""
import sys, threading, time
import cpppo
from cpppo.server import enip
from cpppo.server.enip import client, logix
from cpppo.server.enip.main import main as enip_main

svraddr = ('localhost', 44893)
control = cpppo.apidict( enip.timeout, {'done': False} )
def server():
    enip_main( argv=[ '-S', '--address', '%s:%d' % svraddr, 'T=DINT[10]' ], server={'control': control} )
thr = threading.Thread( target=server ); thr.daemon = True; thr.start()
time.sleep( 1 )
logix.Logix.MAX_BYTES = 16 # 4 DINTs per reply: T[0-9] takes 3 fragments

simple = dict( route_path=False, send_path='' )
problems = []
try:
    with client.connector( host=svraddr[0], port=svraddr[1], timeout=5 ) as conn:
        # Fill the tag with Write Tag Fragmented tiles: works
        tiles = [ "T[0-9]+0=(DINT)1,2,3,4", "T[0-9]+16=(DINT)5,6,7,8", "T[0-9]+32=(DINT)9,10" ]
        res = list( conn.operate( client.parse_operations( tiles, **simple ), validating=True ))
        assert all( r[5] for r in res ), "writes refused: %r" % ( [ r[4] for r in res ], )
    got = []; off = 0; statuses = []
    while len( statuses ) < 10:
        try:
            with client.connector( host=svraddr[0], port=svraddr[1], timeout=3 ) as conn:
                (idx,dsc,req,rpy,sts,val), = conn.operate(
                    client.parse_operations( [ "T[0-9]+%d" % off ], **simple ), validating=True )
        except Exception as exc:
            problems.append( "Read Tag Fragmented T[0-9]+%d: %r" % ( off, exc ))
            break
        statuses.append( sts )
        if val is None:
            problems.append( "Read Tag Fragmented T[0-9]+%d refused: %r" % ( off, sts ))
            break
        got += list( val ); off += 4 * len( val )
        if sts == 0:
            break
    if not problems and got != list( range( 1, 11 )):
        problems.append( "fragments %r gave %r" % ( statuses, got ))
finally:
    control.done = True
if problems:
    print( "OBSERVED: " + "; ".join( problems ))
    print( "EXPECTED: statuses [6, 6, 0] and data [1..10] from a --simple server, as from a routing one" )
    sys.exit( 1 )
print( "OK", statuses, got )
