#!/usr/bin/env python
"""C02 defect 1: a TCP session that ends INSIDE a frame leaves its Forward Open connections behind.

When a session ends between frames, enip_srv_tcp hands the (empty) request to the request processor,
and the Connection Manager purges every Forward Open established via that peer.  When the session
ends inside a frame (EOF after a partial header), the framing machine raises, and enip_srv_tcp's outer
handler closes the socket WITHOUT telling the request processor: the Connection Manager keeps the
peer's connections ( keyed by peer ip, port, O->T connection ID ) for ever -- they are inherited by
whoever connects next from that address, and accumulate.

Expected: an unfinished frame has no effect; the session's state is released exactly as on a clean EOF.
"""
from __future__ import print_function

import socket
import sys
import threading
import time

import cpppo
from cpppo.server.enip import client, device
from cpppo.server.enip import main as enip_main

PORT				= 44848


def simulator():
    control			= cpppo.apidict( timeout=2.0 )
    control['latency']		= 0.05
    server			= cpppo.dotdict( control=control )
    thread			= threading.Thread(
        target=enip_main.main,
        kwargs=dict( argv=[ '-a', 'localhost:%d' % PORT, '--no-udp', 'TAG=DINT[4]' ], server=server ))
    thread.daemon		= True
    thread.start()
    for _ in range( 200 ):
        try:
            socket.create_connection( ('localhost', PORT), timeout=.5 ).close()
            return thread,control
        except Exception:
            time.sleep( .05 )
    raise RuntimeError( "simulator did not start" )


def forwards_of( peer ):
    CM				= device.lookup( class_id=0x06, instance_id=1 )
    return [ k for k in CM.forwards if k[:2] == peer[:2] ]


def session( partial ):
    """Register, Forward Open, then end the session: between frames, or after a partial header."""
    conn			= client.implicit( host='localhost', port=PORT, timeout=3, connection_path='1/0' )
    sock			= conn.conn
    peer			= sock.getsockname()
    opened			= forwards_of( peer )
    assert len( opened ) == 1, "expected one Forward Open for %r, found %r" % ( peer, opened )
    if partial:
        sock.sendall( b'\x6f\x00\x10\x00\x01\x02\x03\x04\x00\x00' )	# 10 of the 24 header bytes
    sock.shutdown( socket.SHUT_WR )
    # wait for the server to drop the connection
    sock.settimeout( 3 )
    try:
        while sock.recv( 4096 ):
            pass
    except socket.error:
        pass
    time.sleep( .25 )
    sock.close()
    conn.conn			= None
    return peer,forwards_of( peer )


if __name__ == "__main__":
    thread,control		= simulator()
    try:
        peer_c,left_c		= session( partial=False )
        peer_p,left_p		= session( partial=True )
    finally:
        control['done']		= True
        thread.join( 5 )
    print( "session ended between frames: Forward Opens left for %r: %r" % ( peer_c, left_c ))
    print( "session ended inside a frame: Forward Opens left for %r: %r" % ( peer_p, left_p ))
    if left_c == [] and left_p != []:
        print( "CONTRADICTION: expected no connection left behind by a session that ended inside a frame (as after a clean EOF); observed %r" % ( left_p, ))
        sys.exit( 1 )
    assert left_c == [], "even the clean session left connections behind: %r" % ( left_c, )
    print( "OK" )
    sys.exit( 0 )
