"""C06 defect 2: a supported, successful request whose encapsulation header carries a non-zero status field is answered
with the complete successful payload AND the request's status copied into the reply header ( the response starts as a
structural copy of the request and nothing resets .status on the SendRRData / List* paths ), after which the server ends
the session: the pipelined request behind it is never answered.  Expected: either a plain successful reply ( status 0,
session goes on ) or a refusal without payload -- not a success payload marked as an encapsulation failure."""
import sys, time, socket, struct, threading, logging
import cpppo
from cpppo.server.enip import main as enip_main

PORT = 44818
def start( argv ):
    ctl = cpppo.apidict( timeout=1.0 )
    ctl['done'] = False; ctl['disable'] = False; ctl['latency'] = 0.05
    t = threading.Thread( target=enip_main.main, kwargs=dict(
        argv=['--no-config','-a','127.0.0.1:%d' % PORT] + argv, server=cpppo.dotdict( control=ctl )))
    t.daemon = True
    t.start()
    for _ in range( 200 ):
        try:
            socket.create_connection( ('127.0.0.1',PORT), timeout=.2 ).close()
            return ctl
        except Exception:
            time.sleep( .05 )
    raise RuntimeError( "simulator did not start" )


def hdr( cmd, payload=b'', session=0, status=0, ctx=b'' ):
    return struct.pack( '<HHII8sI', cmd, len( payload ), session, status, ctx.ljust( 8, b'\0' ), 0 ) + payload

def rrdata( cip, session, ctx, status=0 ):
    cpf = struct.pack( '<IHH', 0, 5, 2 ) + struct.pack( '<HH', 0, 0 ) + struct.pack( '<HH', 0xb2, len( cip )) + cip
    return hdr( 0x6f, cpf, session=session, ctx=ctx, status=status )

def readtag( name ):
    n = name.encode()
    seg = b'\x91' + bytes( bytearray( [len( n )] )) + n + ( b'\0' if len( n ) % 2 else b'' )
    return b'\x4c' + bytes( bytearray( [len( seg ) // 2] )) + seg + struct.pack( '<H', 1 )

def frames( sock, timeout ):
    buf,eof = b'',False
    sock.settimeout( timeout )
    while True:
        try:
            d = sock.recv( 65536 )
        except socket.timeout:
            break
        except socket.error:
            eof = True; break
        if not d:
            eof = True; break
        buf += d
    out = []
    while len( buf ) >= 24:
        cmd,ln,ses,sts,ctx,opt = struct.unpack( '<HHII8sI', buf[:24] )
        if len( buf ) < 24 + ln:
            break
        out.append( dict( command=cmd, status=sts, session=ses, context=ctx.rstrip( b'\0' ), payload=buf[24:24+ln] ))
        buf = buf[24+ln:]
    return out,eof

def session():
    s = socket.create_connection( ('127.0.0.1',PORT) )
    s.sendall( hdr( 0x65, struct.pack( '<HH', 1, 0 ), ctx=b'reg' ))
    f,_ = frames( s, 1.0 )
    assert f and f[0]['session'], "no Register reply"
    return s,f[0]['session']

start( ['SCADA=INT[10]'] )
logging.getLogger().setLevel( logging.CRITICAL )
bad = 0

s,ses = session()
s.sendall( rrdata( readtag( 'SCADA' ), ses, b'first', status=3 ) + rrdata( readtag( 'SCADA' ), ses, b'second' ))
f,eof = frames( s, 1.0 )
s.close()
print( "observed: %r, connection %s" % ( [ (hex( x['command'] ),x['status'],x['context'],len( x['payload'] )) for x in f ], "closed" if eof else "open" ))
first = f[0] if f else None
contradiction = first is not None and first['status'] != 0 and len( first['payload'] ) > 0 and first['payload'][-8:-4] == b'\xcc\x00\x00\x00'
print( "expected: a reply whose encapsulation status agrees with its content ( status 0 with the Read Tag reply 0xCC status 0, "
       "then the reply to b'second'; or a non-zero status without a success payload )" )
sys.exit( 1 if contradiction else 0 )
