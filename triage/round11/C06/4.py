"""C06 remark 4 ( Register Session ): UCMM.request draws session handles until the handle is "not in sessions", but
UCMM.sessions is keyed by peer ADDRESS ( sessions[addr] = session ), so the test never finds a handle that is in use:
two live sessions can be given the same handle.  Shown by letting the random source repeat itself.  Expected: the
second Register skips the handle in use ( test `session in sessions.values()` )."""
import sys, time, socket, struct, threading, logging
import cpppo
from cpppo.server.enip import main as enip_main

PORT = 44818
def start( argv ):
    ctl = cpppo.apidict( timeout=1.0 )
    ctl['done'] = False; ctl['disable'] = False; ctl['latency'] = 0.05
    t = threading.Thread( target=enip_main.main, kwargs=dict(
        argv=['--no-config','-a','127.0.0.1:%d' % PORT] + argv, server=cpppo.dotdict( control=ctl )))
    t.daemon = True
    t.start()
    for _ in range( 200 ):
        try:
            socket.create_connection( ('127.0.0.1',PORT), timeout=.2 ).close()
            return ctl
        except Exception:
            time.sleep( .05 )
    raise RuntimeError( "simulator did not start" )


def hdr( cmd, payload=b'', session=0, status=0, ctx=b'' ):
    return struct.pack( '<HHII8sI', cmd, len( payload ), session, status, ctx.ljust( 8, b'\0' ), 0 ) + payload

def rrdata( cip, session, ctx, status=0 ):
    cpf = struct.pack( '<IHH', 0, 5, 2 ) + struct.pack( '<HH', 0, 0 ) + struct.pack( '<HH', 0xb2, len( cip )) + cip
    return hdr( 0x6f, cpf, session=session, ctx=ctx, status=status )

def readtag( name ):
    n = name.encode()
    seg = b'\x91' + bytes( bytearray( [len( n )] )) + n + ( b'\0' if len( n ) % 2 else b'' )
    return b'\x4c' + bytes( bytearray( [len( seg ) // 2] )) + seg + struct.pack( '<H', 1 )

def frames( sock, timeout ):
    buf,eof = b'',False
    sock.settimeout( timeout )
    while True:
        try:
            d = sock.recv( 65536 )
        except socket.timeout:
            break
        except socket.error:
            eof = True; break
        if not d:
            eof = True; break
        buf += d
    out = []
    while len( buf ) >= 24:
        cmd,ln,ses,sts,ctx,opt = struct.unpack( '<HHII8sI', buf[:24] )
        if len( buf ) < 24 + ln:
            break
        out.append( dict( command=cmd, status=sts, session=ses, context=ctx.rstrip( b'\0' ), payload=buf[24:24+ln] ))
        buf = buf[24+ln:]
    return out,eof

def session():
    s = socket.create_connection( ('127.0.0.1',PORT) )
    s.sendall( hdr( 0x65, struct.pack( '<HH', 1, 0 ), ctx=b'reg' ))
    f,_ = frames( s, 1.0 )
    assert f and f[0]['session'], "no Register reply"
    return s,f[0]['session']

start( ['SCADA=INT[10]'] )
logging.getLogger().setLevel( logging.CRITICAL )
bad = 0

from cpppo.server.enip import ucmm
class rnd( object ):
    draws = [ 0x1234, 0x1234, 0x5678 ]
    def randint( self, lo, hi ):
        return self.draws.pop( 0 ) if self.draws else 0x9abc
ucmm.random = rnd()
s1,h1 = session()
s2,h2 = session()
print( "observed: first session 0x%x, second session 0x%x ( both open ); expected: different handles ( 0x1234, 0x5678 )" % ( h1, h2 ))
s1.close(); s2.close()
sys.exit( 1 if h1 == h2 else 0 )
