"""C06 defect 1: a complete encapsulation frame whose command the simulator does not support ( or whose command
specific data it cannot parse ) is not answered at all: the connection is just dropped.  Expected: one reply frame
with the request's context and a non-zero encapsulation status."""
import sys, time, socket, struct, threading, logging
import cpppo
from cpppo.server.enip import main as enip_main

PORT = 44818
def start( argv ):
    ctl = cpppo.apidict( timeout=1.0 )
    ctl['done'] = False; ctl['disable'] = False; ctl['latency'] = 0.05
    t = threading.Thread( target=enip_main.main, kwargs=dict(
        argv=['--no-config','-a','127.0.0.1:%d' % PORT] + argv, server=cpppo.dotdict( control=ctl )))
    t.daemon = True
    t.start()
    for _ in range( 200 ):
        try:
            socket.create_connection( ('127.0.0.1',PORT), timeout=.2 ).close()
            return ctl
        except Exception:
            time.sleep( .05 )
    raise RuntimeError( "simulator did not start" )


def hdr( cmd, payload=b'', session=0, status=0, ctx=b'' ):
    return struct.pack( '<HHII8sI', cmd, len( payload ), session, status, ctx.ljust( 8, b'\0' ), 0 ) + payload

def rrdata( cip, session, ctx, status=0 ):
    cpf = struct.pack( '<IHH', 0, 5, 2 ) + struct.pack( '<HH', 0, 0 ) + struct.pack( '<HH', 0xb2, len( cip )) + cip
    return hdr( 0x6f, cpf, session=session, ctx=ctx, status=status )

def readtag( name ):
    n = name.encode()
    seg = b'\x91' + bytes( bytearray( [len( n )] )) + n + ( b'\0' if len( n ) % 2 else b'' )
    return b'\x4c' + bytes( bytearray( [len( seg ) // 2] )) + seg + struct.pack( '<H', 1 )

def frames( sock, timeout ):
    buf,eof = b'',False
    sock.settimeout( timeout )
    while True:
        try:
            d = sock.recv( 65536 )
        except socket.timeout:
            break
        except socket.error:
            eof = True; break
        if not d:
            eof = True; break
        buf += d
    out = []
    while len( buf ) >= 24:
        cmd,ln,ses,sts,ctx,opt = struct.unpack( '<HHII8sI', buf[:24] )
        if len( buf ) < 24 + ln:
            break
        out.append( dict( command=cmd, status=sts, session=ses, context=ctx.rstrip( b'\0' ), payload=buf[24:24+ln] ))
        buf = buf[24+ln:]
    return out,eof

def session():
    s = socket.create_connection( ('127.0.0.1',PORT) )
    s.sendall( hdr( 0x65, struct.pack( '<HH', 1, 0 ), ctx=b'reg' ))
    f,_ = frames( s, 1.0 )
    assert f and f[0]['session'], "no Register reply"
    return s,f[0]['session']

start( ['SCADA=INT[10]'] )
logging.getLogger().setLevel( logging.CRITICAL )
bad = 0

for name,blob in [
        ( "unknown command 0x0072, no data",       lambda ses: hdr( 0x72, b'', session=ses, ctx=b'unk' )),
        ( "unknown command 0x0072, 4 octets data",  lambda ses: hdr( 0x72, b'abcd', session=ses, ctx=b'unk' )),
        ( "Register Session with 2 octets of data", lambda ses: hdr( 0x65, struct.pack( '<H', 1 ), session=ses, ctx=b'unk' )),
]:
    s,ses = session()
    s.sendall( blob( ses ))
    f,eof = frames( s, 1.0 )
    s.close()
    ok = len( f ) == 1 and f[0]['status'] != 0 and f[0]['context'] == b'unk'
    print( "%-45s observed: %d reply frame(s) %r, connection %s; expected: 1 frame, non-zero status, context b'unk' -- %s" % (
        name, len( f ), [ (hex( x['command'] ),x['status'],x['context']) for x in f ], "closed" if eof else "open",
        "ok" if ok else "CONTRADICTION" ))
    bad += not ok
sys.exit( 1 if bad else 0 )
