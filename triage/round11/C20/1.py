"""tnetstrings: the container entry points dump_list / dump_dict / parse_list / parse_dict ( and parse / dump when called with
encoding=None, which parse's docstring explicitly allows: "If no encoding supplied, all character data in payload is returned
as bytes" ) raise TypeError as soon as one text ( '$' ) element is involved, because their default encoding=None is handed
straight to str.encode / bytes.decode.  dump / parse of the very same containers work ( default 'utf-8' ).
Expected: the helpers agree with dump / parse ( or at least return the raw bytes, as documented ).  Observed: TypeError."""
import sys
from cpppo.server import tnetstrings as T

value		= [ 1, b'raw', 'text π' ]
table		= { 'k': 'text π', 'n': [ 'x' ] }
enc_list	= T.dump( value )
enc_dict	= T.dump( table )
assert T.parse( enc_list ) == ( value, b'' ) and T.parse( enc_dict ) == ( table, b'' )
pay_list	= T.parse_payload( enc_list )[0]
pay_dict	= T.parse_payload( enc_dict )[0]

def attempt( what, func, *args, **kwds ):
    try:
        return what, func( *args, **kwds ), None
    except Exception as exc:
        return what, None, exc

raw		= lambda v: v.encode( 'utf-8' ) if type( v ) is str else [ raw( i ) for i in v ] if type( v ) is list else v
cases		= [
    attempt( "dump_list( %r )" % ( value, ),	T.dump_list, value ) + ( ( enc_list, ), ),
    attempt( "dump_dict( %r )" % ( table, ),	T.dump_dict, table ) + ( ( enc_dict, ), ),
    attempt( "parse_list( %r )" % ( pay_list, ),	T.parse_list, pay_list ) + ( ( value, raw( value )), ),
    attempt( "parse_dict( %r )" % ( pay_dict, ),	T.parse_dict, pay_dict ) + ( ( table, dict( ( k, raw( v )) for k,v in table.items() )), ),
    attempt( "parse( %r, encoding=None )" % ( enc_list, ), T.parse, enc_list, encoding=None ) + ( ( ( value, b'' ), ( raw( value ), b'' )), ),
]
bad		= 0
for what, got, exc, accepted in cases:
    if exc is not None or got not in accepted:
        bad    += 1
        print( "%s: observed %s, expected %s" % (
            what, "%s: %s" % ( type( exc ).__name__, exc ) if exc is not None else repr( got ),
            " or ".join( repr( a ) for a in accepted )))
print( "%d of %d entry points disagree with dump / parse" % ( bad, len( cases )))
sys.exit( 1 if bad else 0 )
