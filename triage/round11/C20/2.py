"""tnetraw.tnet_from ( the "simplest possible" streaming tnetstring parser, same interface as tnet.tnet_from ) never returns
when the peer closes the connection in the middle of a payload: the harvest loop adds the b'' of EOF to the payload, resets
c to None and calls recv again, for ever ( a busy loop; the 'c == b"": return' test behind the loop shows what was intended ).
tnet.tnet_from ( the state machine based parser ) ends cleanly on the same input.
Expected: the generator ends ( EOF ) after the complete messages.  Observed: it spins until killed."""
import socket, sys, threading, time
from cpppo.server import tnet, tnetraw

def collect( module, stream, result ):
    a, b	= socket.socketpair()
    a.sendall( stream )
    a.shutdown( socket.SHUT_WR )		# EOF after a truncated message
    try:
        for msg in module.tnet_from( b, ( 'local', 0 )):
            result.append( msg )
        result.append( '<ended>' )
    except Exception as exc:
        result.append( '<%s: %s>' % ( type( exc ).__name__, exc ))

stream		= b'3:abc,' + b'5:de'		# one whole message, then 2 of 5 payload bytes and EOF
bad		= 0
for module in ( tnet, tnetraw ):
    result	= []
    t		= threading.Thread( target=collect, args=( module, stream, result ))
    t.daemon	= True
    t.start()
    t.join( 5.0 )
    ok		= result == [ b'abc', '<ended>' ]
    print( "%-8s tnet_from( %r + EOF ): %r%s  (expected [b'abc', '<ended>'])" % (
        module.__name__.split( '.' )[-1], stream, result, " -- still running after 5s" if t.is_alive() else "" ))
    bad	       += 0 if ok else 1
sys.stdout.flush()
import os
os._exit( 1 if bad else 0 )			# the spinning thread cannot be joined
