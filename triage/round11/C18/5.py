"""C18 defect 5: logger( path, bufsize=logger.LINE_BUF ) -- "If playback may catch up to the current time, it
is critical to set line buffering" -- does not line-buffer under Python 3: the file is opened in binary mode
( 'ab+' ), where buffering=1 is not supported ( RuntimeWarning, default block buffer used ).  Records written
by a live logger are invisible to a replay of the same history until ~8k have accumulated or the logger closes."""
import os, sys, shutil, tempfile, warnings
import cpppo
from cpppo.history import files as hf, times as ht
from cpppo.history import loader, logger, timestamp

class Clock( object ):
    def __init__( self, t ):
        self.t = t
    def __call__( self ):
        return self.t
clock = Clock( 1000000000.0 )
hf.timer = ht.timer = clock

T = 1500000000.0
records = [ ( T + 0.0, { 40001: 0 } ), ( T + 1.0, { 40001: 1 } ), ( T + 2.0, { 40001: 2 } ) ]
d = tempfile.mkdtemp( prefix='c18_defect5_' )
try:
    path = os.path.join( d, 'h.hst' )
    warnings.simplefilter( 'ignore' )
    l = logger( path, bufsize=logger.LINE_BUF )
    for ts,data in records:
        l.write( data, now=ts )
    # The logger is still open (live).  Replay what it has logged so far.
    basis = clock.t
    ld = loader( path, historical=T + 0.5, basis=basis, factor=1.0 )
    events = []
    for off in ( 0.0, 1.0, 2.0, 3.0, 4.0 ):
        clock.t = basis + off
        cur,evs = ld.load()
        events += [ round( e['timestamp'].value - T, 3 ) for e in evs ]
    size = os.path.getsize( path )
    l.close()
    expect = [ round( ts - T, 3 ) for ts,data in records ]
    print( "line-buffered logger wrote %d records; file size while open: %d bytes; replay delivered %r (state %s)" % (
        len( records ), size, events, ld.statename[ld.state] ))
    if events != expect:
        print( "CONTRADICTION: expected %r to be delivered from a line-buffered live history" % ( expect, ))
        sys.exit( 1 )
    print( "OK" )
finally:
    shutil.rmtree( d )
