"""C18 defect 3: strictly increasing timestamps that are exactly ONE millisecond apart across a file switch.

timestamp.__gt__ is `self.value - 0.001 > rhs.value`: for two instants logged as ...03.013 and ...03.014 the
outcome depends on floating point noise, and about every second pair compares as NOT greater.  When the
loader is still 'strict' (the older file held one record / one timestamp), reader.open rejects the newer file
("first timestamp not strictly after the position") and the history is reported exhausted: all the newer
records are lost, although their timestamps differ from the position in the logged text."""
import os, sys, shutil, tempfile
import cpppo
from cpppo.history import files as hf, times as ht
from cpppo.history import loader, logger, timestamp

class Clock( object ):
    def __init__( self, t ):
        self.t = t
    def __call__( self ):
        return self.t
clock = Clock( 1000000000.0 )
hf.timer = ht.timer = clock

T = 1500000000.0
lost = []
for ms in range( 10, 30 ):
    t0 = T + 3 + ms / 1000.0
    t1 = T + 3 + ( ms + 1 ) / 1000.0
    files = [	# oldest first
        ( '.0', [ ( t0, { 40001: 1 } ) ] ),
        ( '',   [ ( t1, { 40001: 2, 40002: 22 } ), ( t1 + 1.0, { 40001: 3 } ) ] ),
    ]
    d = tempfile.mkdtemp( prefix='c18_defect3_' )
    try:
        path = os.path.join( d, 'h.hst' )
        for ext,recs in files:
            with logger( path + ext ) as l:
                for ts,data in recs:
                    l.write( data, now=ts )
        texts = [ open( path + ext ).readline().split( '\t' )[0] for ext,recs in files ]
        assert texts[0] < texts[1], "logged texts should differ: %r" % ( texts, )
        records = [ r for ext,recs in files for r in recs ]
        basis = clock.t
        ld = loader( path, historical=T + 2.0, basis=basis, factor=1.0 )
        events = []
        for off in ( 0.0, 1.5, 2.5, 3.5, 10.0, 11.0 ):
            clock.t = basis + off
            cur,evs = ld.load()
            events += [ str( e['timestamp'] ) for e in evs ]
        if len( events ) != len( records ):
            lost.append( ( texts, events ) )
    finally:
        shutil.rmtree( d )
for texts,events in lost:
    print( "older file holds one record at %s, newer file starts at %s: delivered only %r" % ( texts[0], texts[1], events ))
if lost:
    print( "CONTRADICTION: in %d of 20 histories whose files are 1ms apart, the newer file (2 records) was never replayed" % len( lost ))
    sys.exit( 1 )
print( "OK" )
