"""C18 defect 4: plain and compressed copy of one file present together, the compressed one still being
written (reader.open's docstring: "blah.hst.1  # < being compressed; may disappear momentarily ... If a
duplicate file (eg. blah.hst.1 and blah.hst.1.gz) is detected, the earlier (uncompressed) is preferred,
addressing potential issues with using a file currently being compressed").

On a file switch (after=True) the LAST acceptable candidate in natural order wins, which is the '.gz' copy;
when its stream ends prematurely the file is abandoned and the rest of its records -- all present in the
complete plain copy next to it -- are lost."""
import os, sys, shutil, tempfile, gzip, io, random
import cpppo
from cpppo.history import files as hf, times as ht
from cpppo.history import loader, logger, timestamp

class Clock( object ):
    def __init__( self, t ):
        self.t = t
    def __call__( self ):
        return self.t
clock = Clock( 1000000000.0 )
hf.timer = ht.timer = clock

T = 1500000000.0
rnd = random.Random( 1 )
files = [	# oldest first
    ( '.1', [ ( T + 0.0, { 40001: 0, 40002: 0 } ), ( T + 1.0, { 40001: 1 } ) ] ),
    ( '.0', [ ( T + 2.0 + i * 0.01, { 40001: rnd.randint( 0, 65535 ), 40002: rnd.randint( 0, 65535 ) } ) for i in range( 500 ) ] ),
    ( '',   [ ( T + 10.0, { 40001: 10 } ), ( T + 11.0, { 40001: 11 } ) ] ),
]
d = tempfile.mkdtemp( prefix='c18_defect4_' )
try:
    path = os.path.join( d, 'h.hst' )
    for ext,recs in files:
        with logger( path + ext ) as l:
            for ts,data in recs:
                l.write( data, now=ts )
    # h.hst.0 is being compressed: h.hst.0.gz holds the first half of the compressed stream so far
    buf = io.BytesIO()
    with gzip.GzipFile( fileobj=buf, mode='wb' ) as gz:
        with open( path + '.0', 'rb' ) as f:
            gz.write( f.read() )
    with open( path + '.0.gz', 'wb' ) as f:
        f.write( buf.getvalue()[:len( buf.getvalue() ) // 2] )

    records = [ r for ext,recs in files for r in recs ]
    last = {}
    for ts,data in records:
        last.update( data )
    basis = clock.t
    ld = loader( path, historical=T + 0.5, basis=basis, factor=1.0 )
    events = []
    for off in ( 0.0, 1.0, 20.0, 21.0, 22.0 ):
        clock.t = basis + off
        cur,evs = ld.load()
        events += [ round( e['timestamp'].value - T, 3 ) for e in evs ]
    expect = [ round( ts - T, 3 ) for ts,data in records ]
    print( "files: %s" % sorted( os.listdir( d )))
    print( "state %s; %d records logged, %d delivered" % ( ld.statename[ld.state], len( expect ), len( events )))
    if events != expect:
        missing = [ t for t in expect if t not in events ]
        print( "CONTRADICTION: %d records of h.hst.0 (T+%.3f .. T+%.3f) were never delivered, though the complete plain file is there" % (
            len( missing ), missing[0], missing[-1] ))
        sys.exit( 1 )
    print( "OK" )
finally:
    shutil.rmtree( d )
