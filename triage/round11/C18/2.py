"""C18 defect 2: a file whose records all carry ONE timestamp (eg. a single record), followed by a file whose
first record has that same timestamp (rotation within one millisecond), ends the replay: the loader never
releases 'strict', reader.open then demands a first timestamp strictly greater than the position, finds no
file, and reports the history exhausted.  Every record of the newer file(s) is lost."""
import os, sys, shutil, tempfile
import cpppo
from cpppo.history import files as hf, times as ht
from cpppo.history import loader, logger, timestamp

class Clock( object ):
    def __init__( self, t ):
        self.t = t
    def __call__( self ):
        return self.t
clock = Clock( 1000000000.0 )
hf.timer = ht.timer = clock

T = 1500000000.0
files = [	# oldest first
    ( '.0', [ ( T + 3.0, { 40001: 3 } ) ] ),
    ( '',   [ ( T + 3.0, { 40001: 3, 40002: 33 } ), ( T + 4.0, { 40001: 4 } ), ( T + 5.0, { 40002: 55 } ) ] ),
]
d = tempfile.mkdtemp( prefix='c18_defect2_' )
try:
    path = os.path.join( d, 'h.hst' )
    for ext,recs in files:
        with logger( path + ext ) as l:
            for ts,data in recs:
                l.write( data, now=ts )
    records = [ r for ext,recs in files for r in recs ]
    last = {}
    for ts,data in records:
        last.update( data )
    basis = clock.t
    ld = loader( path, historical=T + 2.0, basis=basis, factor=1.0 )
    events = []
    for off in ( 0.0, 1.5, 2.5, 3.5, 10.0, 11.0, 12.0 ):
        clock.t = basis + off
        cur,evs = ld.load()
        events += [ ( round( e['timestamp'].value - T, 3 ), dict( ( int( r ), v ) for r,v in e['values'].items() )) for e in evs ]
    expect = [ ( round( ts - T, 3 ), data ) for ts,data in records ]
    final = dict( ( r, tv[1] ) for r,tv in ld.values.items() )
    print( "state %s; events delivered: %r" % ( ld.statename[ld.state], events ))
    print( "          events logged:    %r" % ( expect, ))
    print( "final register map %r; last values logged %r" % ( final, last ))
    if events != expect or final != last:
        print( "CONTRADICTION: %d of %d logged records were never delivered" % ( len( expect ) - len( events ), len( expect )))
        sys.exit( 1 )
    print( "OK" )
finally:
    shutil.rmtree( d )
