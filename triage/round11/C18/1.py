"""C18 defect 1: with look-ahead, records whose time has come are not applied to loader.values (nor is
loader.until advanced) as long as the NEXT record of the file is still beyond clock + look-ahead.

load()'s docstring: "Load values up to the current historical timestamp ... into self.values".  A history
with a gap longer than the look-ahead leaves the register map stale for the whole gap."""
import os, sys, shutil, tempfile
import cpppo
from cpppo.history import files as hf, times as ht
from cpppo.history import loader, logger, timestamp

class Clock( object ):
    def __init__( self, t ):
        self.t = t
    def __call__( self ):
        return self.t
clock = Clock( 1000000000.0 )
hf.timer = ht.timer = clock

T = 1500000000.0
records = [ ( T + 0, { 40001: 0 } ), ( T + 1, { 40001: 1 } ), ( T + 2, { 40001: 2 } ), ( T + 3, { 40001: 3 } ),
            ( T + 100, { 40001: 100 } ) ]
d = tempfile.mkdtemp( prefix='c18_defect1_' )
try:
    path = os.path.join( d, 'h.hst' )
    with logger( path ) as l:
        for ts,data in records:
            l.write( data, now=ts )
    basis = clock.t
    ld = loader( path, historical=T + 0.5, basis=basis, factor=1.0, lookahead=5.0 )
    bad = []
    for off in ( 0.0, 1.0, 3.0, 4.0, 50.0, 94.0 ):	# the record at T+100 comes within look-ahead at off 94.5
        clock.t = basis + off
        cur,evs = ld.load()
        now = T + 0.5 + off
        expect = max( data[40001] for ts,data in records if ts <= now )
        got = ld.values.get( 40001, (None,None) )[1]
        print( "load at historical T+%5.1f: %d events, values[40001] == %r (until %s), %d queued; last record logged at/before now: %r" % (
            now - T, len( evs ), got, ld.until, len( ld.future ), expect ))
        if got != expect:
            bad.append( ( now - T, got, expect ) )
    if bad:
        print( "CONTRADICTION: after load() at historical T+%.1f the register map holds %r; the record logged for %r has been due since (and sits in loader.future)" % bad[-1] )
        sys.exit( 1 )
    print( "OK" )
finally:
    shutil.rmtree( d )
