"""C18 defect 6 (minor): a corrupt initial frame is only recognized when replay starts AT/AFTER the first
record.  When the start point lies before the first record, the loader goes INITIAL -> AWAITING while it
waits, and when the (corrupt) initial frame finally arrives the test `self.state == self.INITIAL` no longer
holds: the record is treated as ordinary bad data and suppressed, and replay runs on without its initial frame,
although on_bad_iframe=FAIL (the default) asks for the replay to fail."""
import os, sys, shutil, tempfile
import cpppo
from cpppo.history import files as hf, times as ht
from cpppo.history import loader, logger, timestamp

class Clock( object ):
    def __init__( self, t ):
        self.t = t
    def __call__( self ):
        return self.t
clock = Clock( 1000000000.0 )
hf.timer = ht.timer = clock

T = 1500000000.0
outcome = {}
for start in ( T + 0.5, T - 0.5 ):
    d = tempfile.mkdtemp( prefix='c18_defect6_' )
    try:
        path = os.path.join( d, 'h.hst' )
        with logger( path ) as l:
            l._append( '%s\tnull\t{"40001": 1, "400\n' % timestamp( T ))	# truncated initial frame
            l.write( { 40001: 5 }, now=T + 1 )
            l.write( { 40002: 6 }, now=T + 2 )
        basis = clock.t
        ld = loader( path, historical=start, basis=basis, factor=1.0 )
        n = 0
        for off in ( 0.0, 1.0, 2.0, 3.0, 4.0 ):
            clock.t = basis + off
            cur,evs = ld.load()
            n += len( evs )
        outcome[start - T] = ( ld.statename[ld.state], n )
        print( "start T%+.1f: state %s, %d events" % ( start - T, ld.statename[ld.state], n ))
    finally:
        shutil.rmtree( d )
if outcome[0.5] != outcome[-0.5]:
    print( "CONTRADICTION: the same history with a corrupt initial frame FAILs when started after the frame's time, and replays when started before it" )
    sys.exit( 1 )
print( "OK" )
