"""UNCHANGED code ( connector level; weaker than 1.py, see the report ): every connector.pipeline / synchronous / operate
call numbers its requests from index 0 again, so the sender contexts b'0', b'1', ... are re-used by consecutive calls on one
connector.  A reply that arrives later than the time-out ends the first call with the "Communication ceased" error; a
caller that goes on with the same connector ( nothing in the connector forbids it: it is not closed or marked unusable, its
framing engine is idle, `with connector` succeeds ) then gets the LATE reply paired with the first request of the next
call - same context b'0', same service - and a value of another request is yielded with status 0.

Expected: the late reply is recognised as not belonging to the new request ( a context that is not re-used, eg. an index that
runs on over the life of the connector ), or the connector refuses further use after it has given up on a reply."""
from __future__ import print_function
import logging, socket, threading, time, sys, select
import cpppo
from cpppo.server import enip
from cpppo.server.enip import client
from cpppo.server.enip.main import main as enip_main

logging.basicConfig( level=logging.ERROR )
logging.getLogger().setLevel( logging.ERROR )
SP, RP = 25301, 25302

def start_server( port, tags ):
    control = cpppo.apidict( enip.timeout, { 'done': False } )
    kw = dict( argv=[ '--address', 'localhost:%d' % port ] + list( tags ), server={ 'control': control } )
    t = threading.Thread( target=enip_main, kwargs=kw ); t.daemon = True; t.start()
    for _ in range( 100 ):
        try:
            socket.create_connection( ('localhost', port), timeout=1 ).close()
            break
        except Exception:
            time.sleep( .1 )

class Relay( object ):
    """Forwards both ways; while .hold, keeps server->client data back 'til .release_at client sends have been seen."""
    def __init__( self, lport, target ):
        self.target = target
        self.lsock = socket.socket()
        self.lsock.setsockopt( socket.SOL_SOCKET, socket.SO_REUSEADDR, 1 )
        self.lsock.bind( ('127.0.0.1', lport) ); self.lsock.listen( 5 )
        self.hold = False; self.requests = 0; self.release_at = None
        t = threading.Thread( target=self.run ); t.daemon = True; t.start()
    def run( self ):
        while True:
            c,_ = self.lsock.accept()
            s = socket.create_connection( self.target )
            t = threading.Thread( target=self.pump, args=( c, s )); t.daemon = True; t.start()
    def pump( self, c, s ):
        held = b''
        socks = [c, s]
        try:
            while socks:
                r,_,_ = select.select( socks, [], [], .02 )
                for sock in r:
                    data = sock.recv( 65536 )
                    if sock is s:
                        if not data:
                            c.shutdown( socket.SHUT_WR ); socks.remove( s ); continue
                        held += data
                    else:
                        if not data:
                            s.shutdown( socket.SHUT_WR ); socks.remove( c ); continue
                        self.requests += 1
                        s.sendall( data )
                if self.hold and self.release_at is not None and self.requests >= self.release_at:
                    time.sleep( .1 )
                    self.hold = False
                if held and not self.hold:
                    c.sendall( held ); held = b''
        except Exception:
            pass
        finally:
            c.close(); s.close()

start_server( SP, [ 'X=DINT[4]', 'Y=DINT[4]' ] )
relay = Relay( RP, ('localhost', SP) )
with client.connector( 'localhost', SP, timeout=2.0 ) as conn:
    list( conn.pipeline( operations=client.parse_operations( ['X[0-3]=11,12,13,14', 'Y[0-3]=21,22,23,24'] ), timeout=2, depth=1 ))

conn = client.connector( 'localhost', RP, timeout=2.0 )
relay.hold = True
relay.release_at = relay.requests + 2
first = None
try:
    with conn:
        first = list( conn.pipeline( operations=client.parse_operations( [ 'X[0]' ] ), timeout=.5, depth=1 ))
except Exception as exc:
    first = exc
print( "1st call, X[0] ( reply held back beyond the time-out ): %s" % ( str( first ).splitlines()[0] ))
second = None
try:
    with conn:
        second = [ val for idx,dsc,req,rpy,sts,val in conn.pipeline(
            operations=client.parse_operations( [ 'Y[0]' ] ), timeout=2.0, depth=1 ) ]
except Exception as exc:
    second = exc
print( "2nd call, Y[0] ( == 21 ) on the same connector       : %r" % ( second, ))
if isinstance( second, list ) and second != [[21]]:
    print( "CONTRADICTION: Y[0] yielded %r, the late reply to X[0] of the previous call; expected an error, or [[21]]" % ( second, ))
    sys.exit( 1 )
sys.exit( 0 )
