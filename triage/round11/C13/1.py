"""UNCHANGED code: over an Implicit (connected, Forward Open) session - client.implicit, the gateway of proxy_connected - a
reply that is lost entirely makes connector.pipeline pair every later reply with the request before it: values that belong
to other requests are yielded (status 0) before the stream finally ends with the "Communication ceased" error.

Every request of such a session goes out with an empty sender context ( implicit.index_to_sender_context ), so harvest()
has only the service code left to compare.  The connected data item of each request / reply carries a sequence count
( CPF item 0xb1, connection_data.sequence: implicit.connected_send numbers the requests, the peer echoes the number ) which
identifies the request a reply belongs to - it is never looked at.

Here: five pipelined reads A[0]..A[4] ( values 10..14 ) through a relay that forwards everything except the one frame
that carries the reply to A[1]."""
from __future__ import print_function
import logging, socket, threading, time, sys, select, struct
import cpppo
from cpppo.server import enip
from cpppo.server.enip import client
from cpppo.server.enip.main import main as enip_main

logging.basicConfig( level=logging.ERROR )
logging.getLogger().setLevel( logging.ERROR )
SP, RP = 25201, 25202

def start_server( port, tags ):
    control = cpppo.apidict( enip.timeout, { 'done': False } )
    kw = dict( argv=[ '--address', 'localhost:%d' % port ] + list( tags ), server={ 'control': control } )
    t = threading.Thread( target=enip_main, kwargs=kw ); t.daemon = True; t.start()
    for _ in range( 100 ):
        try:
            socket.create_connection( ('localhost', port), timeout=1 ).close()
            break
        except Exception:
            time.sleep( .1 )

class Relay( object ):
    """Forwards both ways, frame by frame towards the client; drops the server->client frames whose number is in .drop"""
    def __init__( self, lport, target ):
        self.target = target
        self.lsock = socket.socket()
        self.lsock.setsockopt( socket.SOL_SOCKET, socket.SO_REUSEADDR, 1 )
        self.lsock.bind( ('127.0.0.1', lport) ); self.lsock.listen( 5 )
        self.drop = ()
        t = threading.Thread( target=self.run ); t.daemon = True; t.start()
    def run( self ):
        while True:
            c,_ = self.lsock.accept()
            s = socket.create_connection( self.target )
            t = threading.Thread( target=self.pump, args=( c, s )); t.daemon = True; t.start()
    def pump( self, c, s ):
        drop = self.drop
        buf = b''; frame = 0
        socks = [c, s]
        try:
            while socks:
                r,_,_ = select.select( socks, [], [], .05 )
                for sock in r:
                    data = sock.recv( 65536 )
                    if sock is s:
                        if not data:
                            c.shutdown( socket.SHUT_WR ); socks.remove( s ); continue
                        buf += data
                        while len( buf ) >= 24 and len( buf ) >= 24 + struct.unpack( '<H', buf[2:4] )[0]:
                            size = 24 + struct.unpack( '<H', buf[2:4] )[0]
                            if frame not in drop:
                                c.sendall( buf[:size] )
                            buf = buf[size:]; frame += 1
                    else:
                        if not data:
                            s.shutdown( socket.SHUT_WR ); socks.remove( c ); continue
                        s.sendall( data )
        except Exception:
            pass
        finally:
            c.close(); s.close()

start_server( SP, [ 'A=DINT[10]' ] )
relay = Relay( RP, ('localhost', SP) )
with client.connector( 'localhost', SP, timeout=2.0 ) as conn:
    list( conn.pipeline( operations=client.parse_operations( ['A[0-5]=10,11,12,13,14,15'] ), timeout=2, depth=1 ))

tags   = [ 'A[0]', 'A[1]', 'A[2]', 'A[3]', 'A[4]' ]
expect = [ [10], [11], [12], [13], [14] ]
relay.drop = ( 3, )		# server->client frames: 0 Register, 1 Forward Open, 2 reply A[0], 3 reply A[1], ...
res, err = [], None
conn = client.implicit( 'localhost', RP, timeout=2.0, connection_path=None )
try:
    with conn:
        for idx,dsc,req,rpy,sts,val in conn.pipeline( operations=client.parse_operations( tags ), timeout=1.0, depth=3 ):
            print( "%-24s status %r --> %r" % ( dsc, sts, val ))
            res.append( val )
except Exception as exc:
    err = exc
try:
    client.client.close( conn )	# just the socket; a Forward Close on this session would only wait for its time-out
except Exception:
    pass
print( "ended with: %s" % ( str( err ).splitlines()[0] if err else "no error" ))
wrong = [ (tags[i],v,expect[i]) for i,v in enumerate( res ) if v != expect[i] ]
if wrong:
    print( "CONTRADICTION: yielded values of other requests: %s" % ", ".join(
        "%s --> %r (is %r)" % w for w in wrong ))
    print( "expected: an error at the first reply that does not belong to its request (the connected sequence count tells), no wrong value" )
    sys.exit( 1 )
sys.exit( 0 )
