# -*- coding: utf-8 -*-
"""
regex_bytes: '.' / a negated class standing for ONE symbol is a one-byte wild-card, except that the bytes of the
expression's own multi-byte symbol ( and of symbols sharing its lead bytes ) are followed through the intermediate
states.  So whether a multi-byte input symbol counts as one symbol depends on its lead byte:

  regex_bytes( '[^é]é' ) accepts 'àé' ( à == c3 a0 shares the lead byte of é == c3 a9 ) but rejects 'жé' and '€é'
  regex_bytes( '[^é]{2}' ) takes 'àa' as two symbols, but accepts the single symbol 'ж' ( d0 b6 ) as a sentence of TWO
  regex_bytes( '.' ) on 'é' accepts after one byte and stores half a symbol ( b'\xc3' )

Expected ( "the same holds for machines over bytes, including symbols whose UTF-8 encoding takes several bytes" ):
every one of these inputs is a sequence of whole symbols, and acceptance / the stored prefix follow the symbols.
"""
from __future__ import print_function
import sys, os
sys.path.insert( 0, os.path.dirname( os.path.abspath( __file__ )))
from _common import run, cpppo

bad				= []
for rx,text,exp_text,exp_acc in [
        ( u'[^é]é',	u'àé',	u'àé',	True ),		# works: shares the lead byte
        ( u'[^é]é',	u'жé',	u'жé',	True ),
        ( u'[^é]é',	u'€é',	u'€é',	True ),
        ( u'.é',	u'жé',	u'жé',	True ),
        ( u'[^é]{2}',	u'àa',	u'àa',	True ),		# works
        ( u'[^é]{2}',	u'жa',	u'жa',	True ),
        ( u'[^é]{2}',	u'ж',	u'ж',	False ),	# one symbol is not a sentence of {2}
        ( u'.',		u'é',	u'é',	True ),
]:
    octets			= text.encode( 'utf-8' )
    expect			= exp_text.encode( 'utf-8' )
    accepted,sent,stored,nonterminal,other = run( cpppo.regex_bytes, rx, octets )
    if accepted != exp_acc or sent != len( expect ) or stored != expect or other is not None:
        bad.append( "regex_bytes( %r ) on %r == %r:\n  observed: terminal == %r, sent == %d, stored == %r, NonTerminal == %r %r\n"
                    "  expected: terminal == %r, sent == %d, stored == %r" % (
                        rx, text, octets, accepted, sent, stored, nonterminal, other or '', exp_acc, len( expect ), expect ))
for b in bad:
    print( b )
sys.exit( 1 if bad else 0 )
