# -*- coding: utf-8 -*-
"""
A regex machine with a restricting regex_alphabet= ( a container or predicate, as the string_base documentation
offers ) and a '.' / negated class in the expression: the wild-card transition is taken on a symbol the target state
then refuses to validate.  The dfa has already made the (terminal) target its current state, so the machine reports
terminal == True although the consumed prefix is not a sentence, and the run dies with an AssertionError
( "detected no progress before finding acceptable symbol" ) instead of ending cleanly / raising NonTerminal.

  regex( 'a.', regex_alphabet={'a','b'} ) on 'ac':  consumed 'a' -- not a sentence of 'a.' -- expected NonTerminal, not terminal
  regex( '.*', regex_alphabet={'a','b'} ) on 'abc': consumed 'ab' -- a sentence -- expected a clean accept, no AssertionError
"""
from __future__ import print_function
import sys, os
sys.path.insert( 0, os.path.dirname( os.path.abspath( __file__ )))
from _common import run, cpppo

bad				= []
for rx,inp,alpha,exp_acc,exp_sent in [
        ( 'a.',	'ac',	set( 'ab' ),			False,	1 ),
        ( 'a.',	'ac',	lambda c: c in 'ab',		False,	1 ),
        ( '.*',	'abc',	set( 'ab' ),			True,	2 ),
        ( 'a[^b]', 'ac', set( 'ab' ),			False,	1 ),
]:
    accepted,sent,stored,nonterminal,other = run( cpppo.regex, rx, inp, regex_alphabet=alpha )
    observed			= "terminal == %r, sent == %d, stored == %r, NonTerminal == %r, other exception == %r" % (
        accepted, sent, stored, nonterminal, other )
    expected			= "terminal == %r, sent == %d, NonTerminal == %r, no other exception" % (
        exp_acc, exp_sent, not exp_acc )
    if accepted != exp_acc or sent != exp_sent or nonterminal != ( not exp_acc ) or other is not None:
        bad.append( "regex( %r, regex_alphabet=<a,b only> ) on %r:\n  observed: %s\n  expected: %s" % (
            rx, inp, observed, expected ))
for b in bad:
    print( b )
sys.exit( 1 if bad else 0 )
