# -*- coding: utf-8 -*-
"""
Nested repetition with an open inner bound and a zero outer minimum: '(a{2,})*', '(a{2,})?', '(aa+)*', '((a+){2})*'.
The expression is handed to greenery.lego.parse, whose multiplier arithmetic ( greenery 2.1 multiplier.canmultiplyby:
inf * 0 is taken as inf ) folds {2,}*{0,} into {0,}: the machine is the one for 'a*' and accepts the single 'a'.

  regex( '(a{2,})*' ) on 'a' / 'ab':  observed terminal == True after 'a';  expected NonTerminal ( 'a' is no sentence )

The fault is in the third-party library, but cpppo's from_regex is where the expression becomes a machine; a guard
( compare lego.parse( rx ) against a parse with reduction disabled, or refuse such shapes ) would have to live there.
"""
from __future__ import print_function
import sys, os, re
sys.path.insert( 0, os.path.dirname( os.path.abspath( __file__ )))
from _common import run, cpppo

bad				= []
for rx in [ '(a{2,})*', '(a{2,})?', '(aa+)*', '((a+){2})*' ]:
    for inp in [ 'a', 'ab' ]:
        accepted,sent,stored,nonterminal,other = run( cpppo.regex, rx, inp )
        exp_acc			= re.fullmatch( rx, inp[:sent] ) is not None and sent > 0
        if accepted != exp_acc or nonterminal != ( not exp_acc ) or other is not None:
            bad.append( "regex( %r ) on %r:\n  observed: terminal == %r, sent == %d, stored == %r, NonTerminal == %r\n"
                        "  expected: terminal == %r ( %r is %sa sentence ), NonTerminal == %r" % (
                            rx, inp, accepted, sent, stored, nonterminal, exp_acc, inp[:sent], "" if exp_acc else "not ", not exp_acc ))
for b in bad:
    print( b )
sys.exit( 1 if bad else 0 )
