from __future__ import print_function
import logging
import cpppo
logging.disable( logging.CRITICAL )

def run( cls, rx, inp, **kwds ):
    """Run a fresh machine of class 'cls' for expression 'rx' over 'inp'; returns
    ( machine.terminal, source.sent, stored prefix, NonTerminal raised?, other exception or None )"""
    machine			= cls( name='m', context='m', initial=rx, terminal=True, **kwds )
    data			= cpppo.dotdict()
    source			= cpppo.chainable( inp )
    nonterminal,other		= False,None
    with machine:
        try:
            for cnt,(mch,sta) in enumerate( machine.run( source=source, data=data )):
                assert cnt < 1000, "runaway machine"
        except cpppo.NonTerminal:
            nonterminal		= True
        except Exception as exc:
            other		= exc
        accepted		= bool( machine.terminal )
    stored			= data.get( 'm.input' )
    if stored is not None:
        stored			= stored.tobytes() if stored.typecode in 'Bc' else stored.tounicode()
    return accepted, source.sent, stored, nonterminal, other
