# -*- coding: utf-8 -*-
"""
state.from_regex also takes a greenery.fsm ( its doc-string: "regex or greenery.fsm/lego machine" ), but recognises a
dead state only when it is a single state all of whose edges loop back onto itself.  An fsm that has not been through
fsm.reduce() may hold its oblivion in two states that point at each other; those are translated as live states, and
input that can no longer become a sentence is absorbed instead of rejected.

  fsm for 'a+' over {a,b} with the oblivion split in two ( 2 <-> 3 ), input 'aabab':
  observed: all 5 symbols consumed, NonTerminal;  expected: 'aa' consumed and accepted ( as the reduced fsm does )
"""
from __future__ import print_function
import sys, os
sys.path.insert( 0, os.path.dirname( os.path.abspath( __file__ )))
from _common import run, cpppo
import greenery.fsm

raw				= greenery.fsm.fsm(
    alphabet	= { 'a', 'b' },
    states	= { 0, 1, 2, 3 },
    initial	= 0,
    finals	= { 1 },
    map		= { 0: { 'a': 1, 'b': 2 }, 1: { 'a': 1, 'b': 2 }, 2: { 'a': 3, 'b': 3 }, 3: { 'a': 2, 'b': 2 }} )
bad				= []
results				= {}
for name,machine in ( ( 'raw', raw ), ( 'reduced', raw.reduce() )):
    results[name]		= run( cpppo.regex, machine, 'aabab' )
    accepted,sent,stored,nonterminal,other = results[name]
    if not accepted or sent != 2 or stored != 'aa' or nonterminal or other is not None:
        bad.append( "regex( <%s fsm of a+> ) on 'aabab':\n  observed: terminal == %r, sent == %d, stored == %r, NonTerminal == %r %r\n"
                    "  expected: terminal == True, sent == 2, stored == 'aa', NonTerminal == False" % (
                        name, accepted, sent, stored, nonterminal, other or '' ))
for b in bad:
    print( b )
sys.exit( 1 if bad else 0 )
