"""C07 defect 1 (unchanged code): a Forward Close ( service 0x4E, path @6/1, the Connection Manager ) is answered with
its regular reply ( 0xCE, status 0x00, serial numbers echoed ) when it is sent alone, but with 0xCE status 0x08
"Service not supported" when exactly the same request bytes travel as a member of a Multiple Service Packet: the
bundle parses every member with the parser of the bundle's target ( the Logix Message Router ), which does not know
the Connection Manager's services, whereas a lone request is parsed by the Object its own path names.
Exits 1 while the member reply differs from the lone reply."""
import sys, time, threading, socket, errno, struct
import cpppo
from cpppo import dotdict, apidict
from cpppo.server import enip
from cpppo.server.enip import client
from cpppo.server.enip.main import main as enip_main

ADDR				= ('localhost', 12409)

def start_server( tags ):
    kwds			= dotdict({
        'argv': [ '--address', '%s:%d' % ADDR ] + list( tags ),
        'server': { 'control': apidict( enip.timeout, { 'done': False } ) },
    })
    thr				= threading.Thread( target=enip_main, kwargs=kwds )
    thr.daemon			= True
    thr.start()

def connect():
    for _ in range( 100 ):
        try:
            return client.connector( host=ADDR[0], port=ADDR[1], timeout=10.0 )
        except socket.error as exc:
            if exc.errno != errno.ECONNREFUSED:
                raise
            time.sleep( .1 )
    raise AssertionError( "no server" )

def rawsend( conn, payload ):
    with conn:
        conn.unconnected_send( request=bytes( payload ), timeout=5.0 )
        rsp,ela			= client.await_response( conn, timeout=5.0 )
    assert rsp, "no response"
    return bytes( bytearray( rsp.enip.CIP.send_data.CPF.item[1].unconnected_send.request.input ))

def bundle( members ):
    off				= 2 + 2 * len( members )
    tbl				= b''
    for m in members:
        tbl		       += struct.pack( '<H', off )
        off		       += len( m )
    return b'\x0a\x02\x20\x02\x24\x01' + struct.pack( '<H', len( members )) + tbl + b''.join( members )

def unbundle( rpy ):
    assert rpy[:4] == b'\x8a\x00\x00\x00', "Multiple Service Packet refused: %r" % ( rpy, )
    body			= rpy[4:]
    n,				= struct.unpack( '<H', body[:2] )
    offs			= struct.unpack( '<%dH' % n, body[2:2+2*n] )
    return [ body[o:( offs[i+1] if i+1 < n else len( body ))] for i,o in enumerate( offs ) ]

def main():
    start_server([ 'A=DINT[4]' ])
    conn			= connect()
    read_A			= b'\x4c\x02\x91\x01A\x00\x01\x00'
    # Forward Close: priority/ticks, connection serial 1, O_vendor 2, O_serial 3, connection path 1/0/@2/1
    fwd_close			= b'\x4e\x02\x20\x06\x24\x01' + b'\x05\x9d' + struct.pack( '<HHI', 1, 2, 3 ) \
                                  + b'\x03\x00\x01\x00\x20\x02\x24\x01'
    members			= [ read_A, fwd_close, read_A ]
    single			= [ rawsend( conn, m ) for m in members ]
    bundled			= unbundle( rawsend( conn, bundle( members )))
    if single != bundled:
        print( "FAILED: member replies differ from the replies to the same requests sent alone" )
        for m,s,b in zip( members, single, bundled ):
            print( "  %s request %r\n      alone:   %r\n      bundled: %r" % ( "==" if s == b else "!=", m, s, b ))
        return 1
    print( "OK: same replies" )
    return 0

if __name__ == "__main__":
    sys.exit( main() )
