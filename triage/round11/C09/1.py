"""C09 defect 1 (unchanged code): two Tag names that resolve to the same symbol-table entry (they
differ only in case; tag lookup is case-insensitive) make logix.setup / setup_tag re-install the two
Attributes alternately at one address on EVERY request of EVERY session (setup_tag: "val['attribute']
is not attribute" -> replace).  A session that is between its own setup() and its lookup() while
another session's setup() is mid-way stores its write into the Attribute that is about to be replaced:
the write is acknowledged (status 0) and lost, although no other session writes the tag.

Session W is the only writer: it writes a fresh value to tag[0] and reads it back.  Session R only
reads.  Expected: every read-back returns the value just written.  Exit 1 on a lost write.
"""
from __future__ import print_function
import logging, sys, threading, time
import cpppo
from cpppo.server.enip import main as enip_main, client

PORT				= 44873
sys.setswitchinterval( 1e-5 )
logging.getLogger().setLevel( logging.ERROR )

control				= cpppo.dotdict( done=False, disable=False, latency=.1, timeout=1. )
server				= threading.Thread(
    target=enip_main.main,
    kwargs=dict( argv=[ '-a', 'localhost:%d' % PORT, '--no-udp', 'tag=DINT[4]', 'TAG=DINT[4]' ],
                 server=cpppo.dotdict( control=control )))
server.daemon			= True
server.start()

def connect():
    for _ in range( 100 ):
        try:
            return client.connector( host='localhost', port=PORT, timeout=5 )
        except Exception:
            time.sleep( .1 )
    raise RuntimeError( "no server" )

def one( conn, op ):
    for idx,dsc,op,rpy,sts,val in conn.synchronous( operations=client.parse_operations( [ op ] ), timeout=5 ):
        return sts,val

stop				= threading.Event()
def reader():
    with connect() as conn:
        while not stop.is_set():
            one( conn, 'tag[1-3]' )

lost				= []
n				= 0
try:
    with connect() as w:
        rds			= [ threading.Thread( target=reader ) for _ in range( 2 ) ]
        for t in rds:
            t.daemon		= True
            t.start()
        ended			= time.time() + 25
        while time.time() < ended and not lost and n < 3000:
            n		       += 1
            sts,_		= one( w, 'tag[0]=(DINT)%d' % n )
            assert not sts, "write refused: %r" % ( sts, )
            sts,val		= one( w, 'tag[0]' )
            if sts or val != [n]:
                lost.append( (n, sts, val) )
        stop.set()
        for t in rds:
            t.join( 5 )
finally:
    control['done']		= True

print( "%d acknowledged writes by the only writer; lost: %r" % ( n, lost ))
if lost:
    print( "OBSERVED: wrote tag[0]=%d (status 0), read back %r; EXPECTED: [%d]" % ( lost[0][0], lost[0][2], lost[0][0] ))
    sys.exit( 1 )
