"""C09 defect 2 (unchanged code): the error code of a Tag (tags.<tag>.error, what the web API's
api/tags/<tag>/error/<n> stores, checked by logix.setup -> setup_tag on every request: "If it's error
code doesn't match, change it") can be set but never cleared: setup_tag only copies a truthy error.
After error is set back to 0 every session keeps being refused.  Exit 1 while that is so.
"""
from __future__ import print_function
import logging, sys, threading, time
import cpppo
from cpppo.server.enip import main as enip_main, client

PORT				= 44874
logging.getLogger().setLevel( logging.CRITICAL )
control				= cpppo.dotdict( done=False, disable=False, latency=.1, timeout=1. )
server				= threading.Thread(
    target=enip_main.main,
    kwargs=dict( argv=[ '-a', 'localhost:%d' % PORT, '--no-udp', 'X=DINT[4]' ],
                 server=cpppo.dotdict( control=control )))
server.daemon			= True
server.start()

def connect():
    for _ in range( 100 ):
        try:
            return client.connector( host='localhost', port=PORT, timeout=5 )
        except Exception:
            time.sleep( .1 )
    raise RuntimeError( "no server" )

def one( conn, op ):
    for idx,dsc,op,rpy,sts,val in conn.synchronous( operations=client.parse_operations( [ op ] ), timeout=5 ):
        return sts,val
try:
    with connect() as c:
        before			= one( c, 'X[0-3]' )
        enip_main.tags['X'].error = 8
        during			= one( c, 'X[0-3]' )
        enip_main.tags['X'].error = 0
        after			= one( c, 'X[0-3]' )
finally:
    control['done']		= True
print( "error=0: %r; error=8: %r; error=0 again: %r" % ( before, during, after ))
assert not before[0] and during[0], "precondition: the error code is applied"
if after[0]:
    print( "OBSERVED: status %r after the Tag's error was reset to 0; EXPECTED: status 0 and the data" % ( after[0], ))
    sys.exit( 1 )
