"""C09 defect 3 (unchanged code): UCMM.request allocates the session handle of a Register Session
under UCMM.lock with "while not session or session in sessions" -- but the sessions table is keyed by
peer address, so the candidate handle is compared with addresses, never with the handles in use: two
live sessions can be given the same handle.  Made reproducible by re-seeding the random generator
before each registration.  Exit 1 if two simultaneously registered sessions share a handle.
"""
from __future__ import print_function
import logging, random, sys, threading, time
import cpppo
from cpppo.server.enip import main as enip_main, client

PORT				= 44875
logging.getLogger().setLevel( logging.CRITICAL )
control				= cpppo.dotdict( done=False, disable=False, latency=.1, timeout=1. )
server				= threading.Thread(
    target=enip_main.main,
    kwargs=dict( argv=[ '-a', 'localhost:%d' % PORT, '--no-udp', 'X=DINT[4]' ],
                 server=cpppo.dotdict( control=control )))
server.daemon			= True
server.start()

def connect():
    for _ in range( 100 ):
        try:
            random.seed( 7 )
            return client.connector( host='localhost', port=PORT, timeout=5 )
        except Exception:
            time.sleep( .1 )
    raise RuntimeError( "no server" )
try:
    a				= connect()
    b				= connect()
    ha,hb			= a.session, b.session
    a.close(); b.close()
finally:
    control['done']		= True
print( "session handles of two live sessions: %r, %r" % ( ha, hb ))
if ha == hb:
    print( "OBSERVED: both sessions registered with handle %r; EXPECTED: distinct handles" % ( ha, ))
    sys.exit( 1 )
