"""Defect AC (C05/C03): device.resolve stops walking the path as soon as class, instance and attribute are known - also when the next segment is
SYMBOLIC.  A request for the unknown tag A.foo is served from A (status 0, A[0]) instead of being refused; a write to A.foo changes A.
exit 1 on the pinned tree, 0 after the fix."""
import sys
import cpppo
from cpppo.server.enip import device, logix, parser
logix.setup_reset() if hasattr( logix, 'setup_reset' ) else None
Obj = logix.Logix( instance_id=1 )
att = device.Attribute( 'A', parser.INT, default=[ 11, 22, 33 ] )
Obj.attribute['1'] = att
device.redirect_tag( 'A', { 'class': Obj.class_id, 'instance': Obj.instance_id, 'attribute': 1 } )
bad = 0
for segs in ( [ {'symbolic': 'A'} ], [ {'symbolic': 'A'}, {'symbolic': 'foo'} ], [ {'symbolic': 'A'}, {'element': 1}, {'symbolic': 'foo'} ] ):
    try:
        r = device.resolve( { 'segment': [ cpppo.dotdict( s ) for s in segs ] }, attribute=True )
        what = 'resolves to %r' % ( r, )
        refused = False
    except AssertionError as exc:
        what = 'refused: %s' % str( exc )[:70]; refused = True
    unknown = any( s.get( 'symbolic' ) == 'foo' for s in segs )
    ok = refused == unknown
    print( '%-60r %s  %s' % ( segs, what, 'OK' if ok else 'WRONG' ))
    bad += not ok
sys.exit( 1 if bad else 0 )
