#!/usr/bin/env python
"""C07 / defect 1: a request whose *path* cannot be parsed is answered inside a Multiple Service
Packet, but kills the session when it is sent alone.

The same octets ( Read Tag, path size says 3 words but only one octet of it follows ) are sent to an
in-process simulator twice over one TCP session each:
  - as member #1 of a 3-member Multiple Service Packet,
  - alone ( plain SendRRData / Unconnected Send ), followed by a valid Read Tag on the same session.

Expected ( property C07 ): the individual reply equals the reply embedded in the bundle
( CC 00 05 01 00 00 ), and the request that follows is still served.
Observed: alone there is no CIP reply at all ( EtherNet/IP status 0x08 ) and the session is closed,
so the valid request queued behind it is lost.
"""
import sys, struct, threading, time, socket, logging
import cpppo
from cpppo import apidict
from cpppo.server import enip
from cpppo.server.enip import client
from cpppo.server.enip.main import main as enip_main

logging.disable( logging.CRITICAL )
PORT		= 44911

def start():
    ctl		= apidict( enip.timeout, { 'done': False } )
    thr		= threading.Thread( target=enip_main, kwargs=dict(
        argv=[ '--no-config', '-a', 'localhost:%d' % PORT, 'A=DINT[10]' ], server={ 'control': ctl } ))
    thr.daemon	= True
    thr.start()
    for _ in range( 100 ):
        try:
            socket.create_connection( ('localhost', PORT), timeout=1 ).close()
            break
        except Exception:
            time.sleep( .1 )
    return ctl,thr

def sym( name, elm=None ):
    b		= name.encode()
    p		= bytes( [0x91, len( b )] ) + b + ( b'\x00' if len( b ) % 2 else b'' )
    if elm is not None:
        p      += bytes( [0x28, elm] )
    return bytes( [len( p ) // 2] ) + p

def rd( path, n=1 ):
    return b'\x4c' + path + struct.pack( '<H', n )

def msp( reqs ):
    n		= len( reqs )
    offs,o	= [],2 + 2 * n
    for r in reqs:
        offs.append( o )
        o      += len( r )
    return ( b'\x0a\x02\x20\x02\x24\x01' + struct.pack( '<H', n )
             + b''.join( struct.pack( '<H', x ) for x in offs ) + b''.join( reqs ))

def members( rpy ):
    assert rpy[0] == 0x8a and rpy[2] == 0, "bundle refused: %r" % rpy
    body	= rpy[4:]
    n,		= struct.unpack_from( '<H', body )
    offs	= struct.unpack_from( '<%dH' % n, body, 2 ) + ( len( body ), )
    return [ bytes( body[offs[i]:offs[i+1]] ) for i in range( n ) ]

def transact( conn, raw ):
    """-> (EtherNet/IP status, CIP reply bytes or None), or None on EOF/timeout"""
    conn.unconnected_send( request=raw )
    rsp,ela	= client.await_response( conn, timeout=3 )
    if not rsp:
        return None
    try:
        rpy	= bytes( rsp.enip.CIP.send_data.CPF.item[1].unconnected_send.request.input )
    except Exception:
        rpy	= None
    return rsp.enip.status, rpy

BAD		= b'\x4c\x03\x91'	# Read Tag; path of 3 words announced, 1 octet present
GOOD		= rd( sym( 'A', 1 ))

ctl,thr		= start()
try:
    with client.connector( 'localhost', PORT, timeout=5 ) as conn:
        sts,rpy	= transact( conn, msp( [ GOOD, BAD, GOOD ] ))
        bundled	= members( rpy )
    with client.connector( 'localhost', PORT, timeout=5 ) as conn:
        alone	= transact( conn, BAD )
        try:
            after = transact( conn, GOOD )
        except Exception as exc:
            after = exc
finally:
    ctl['done']	= True
    thr.join( 3 )

print( "bundled  : member replies %s" % [ m.hex() for m in bundled ] )
print( "alone    : (enip status, CIP reply) = %r" % ( alone, ))
print( "after it : %r" % ( after, ))
ok		= ( alone is not None and alone[0] == 0 and alone[1] == bundled[1]
                    and isinstance( after, tuple ) and after[0] == 0 and after[1] == bundled[2] )
if not ok:
    print( "CONTRADICTION: expected the lone request to be answered %s like member #1 of the bundle, and the "
           "session to go on; observed %r, then %r" % ( bundled[1].hex(), alone, after ))
    sys.exit( 1 )
print( "OK: alone == bundled" )
