"""Defect AF (C16): dotdict.__setitem__ tests the key against __invalid_keys__ only for the LEAF store; an interior level is created with
setdefault( name, dotdict() ) unchecked.  d['keys.a'] = 1 succeeds: iteration lists 'keys.a', 'keys' in d is True, d.keys is the method.
exit 1 on the pinned tree, 0 after the fix."""
import sys
from cpppo.dotdict import dotdict
bad = 0
for key in ( 'keys.a', 'items.x.y', '__x.a', 'a.get.b' ):
    d = dotdict()
    try:
        d[key] = 1
        out = 'stored: %r' % sorted( dict.keys( d ))
        ok = False
    except KeyError as exc:
        out = 'refused'; ok = True
    print( '%-12s -> %-30s %s' % ( key, out, 'OK' if ok else 'WRONG: a reserved name became a level' ))
    bad += not ok
d = dotdict(); d['fine.a'] = 1
print( 'fine.a       -> %r' % sorted( d.keys() ))
bad += sorted( d.keys() ) != [ 'fine.a' ]
sys.exit( 1 if bad else 0 )
