"""C09 defect 1: a session queued on the gateway's shared route connection is failed (and dropped)
because ANOTHER session's request timed out on that connection.

A gateway simulator routes port/link 1/1 to a target simulator whose Tag takes 1.0s to read.  Two sessions
use the gateway at once:

  A  sends a routed Read Tag with an Unconnected Send time-out of 320ms  -> must fail (target too slow)
  B  sends a routed Read Tag with the default time-out of ~5s, 100ms later -> must succeed

In any sequential order of the two requests B's request succeeds ( run after A's failure it gets a fresh
connection to the target; run before A it simply takes 1s ).  Interleaved, B waits for the route connection
that A holds; A's time-out closes it; and B -- instead of opening a new one -- is answered with
EtherNet/IP status 0x65 and its session is terminated by the gateway.

Exits 1 ( printing observed-versus-expected ) while B is refused, 0 if B gets its data.
"""
from __future__ import print_function
import os, sys, threading, time, subprocess, logging, socket

import cpppo
from cpppo.server.enip import client, ucmm
from cpppo.server.enip.main import main as enip_main

logging.basicConfig( level=int( os.environ.get( 'LOGLEVEL', logging.ERROR )))

GW_PORT, TG_PORT	= 44818, 44819

def wait_port( port, timeout=15 ):
    end = time.time() + timeout
    while time.time() < end:
        try:
            socket.create_connection( ('127.0.0.1', port), timeout=.5 ).close()
            return True
        except Exception:
            time.sleep( .1 )
    return False

# The (slow) target: a separate simulator process, whose Tag takes 1.0s to read
TARGET			= """
import sys, time
from cpppo.server.enip import device
from cpppo.server.enip.main import main
class Attribute_slow( device.Attribute ):
    def __getitem__( self, key ):
        time.sleep( 1.0 )
        return super( Attribute_slow, self ).__getitem__( key )
sys.exit( main( argv=[ '--no-config', '-a', '127.0.0.1:%d', 'TAG=DINT[4]' ], attribute_class=Attribute_slow ))
""" % TG_PORT
target			= subprocess.Popen( [ sys.executable, '-c', TARGET ], env=dict( os.environ ),
    stdout=subprocess.DEVNULL, stderr=open( os.environ.get( 'TGTLOG', os.devnull ), 'w' ))
try:
    assert wait_port( TG_PORT ), "target simulator did not start"

    # The gateway: in this process; routes 1/1 --> target
    class UCMM_gateway( ucmm.UCMM ):
        route		= { "1/1": "127.0.0.1:%d" % TG_PORT }
    control		= cpppo.apidict( timeout=1.0 )
    control.update( done=False, disable=False, latency=0.05 )
    gateway		= threading.Thread( target=enip_main, kwargs=dict(
        argv=[ '--no-config', '-a', '127.0.0.1:%d' % GW_PORT ], UCMM_class=UCMM_gateway,
        server=cpppo.dotdict( control=control )))
    gateway.daemon	= True
    gateway.start()
    assert wait_port( GW_PORT ), "gateway simulator did not start"

    route_path		= [ {'port': 1, 'link': 1} ]

    def read_via( conn, ticks=None ):
        """One routed Read Tag; returns the Read Tag reply's .status, or a text telling what went wrong."""
        req		= conn.read( 'TAG[0-3]', offset=None, route_path=route_path, send_path='@6/1', timeout_ticks=ticks )
        rsp,ela		= client.await_response( conn, timeout=10 )
        if not rsp:
            return "no response; session closed by gateway after %.2fs" % ela
        if rsp.enip.status:
            return "EtherNet/IP status 0x%02x after %.2fs" % ( rsp.enip.status, ela )
        rpy		= rsp.enip.CIP.send_data.CPF.item[1].unconnected_send.request
        return rpy.status

    # Warm up: establish the gateway's (shared) connection to the target
    with client.connector( host='127.0.0.1', port=GW_PORT, timeout=10 ) as warm:
        w		= read_via( warm )
    assert w == 0, "warm-up request through the gateway failed: %r" % ( w, )

    results		= {}
    def session( name, ticks, wait ):
        try:
            with client.connector( host='127.0.0.1', port=GW_PORT, timeout=10 ) as conn:
                time.sleep( wait )
                results[name] = read_via( conn, ticks=ticks )
        except Exception as exc:
            results[name] = "exception %r" % ( exc, )

    # First, one after the other: A fails, B (issued afterwards) succeeds
    for name,ticks in ( 'A', 10 ), ( 'B', None ):	# 32ms * 10 == 320ms; 32ms * 157 ~= 5s
        session( name, ticks, 0.0 )
    sequential		= dict( results )
    assert sequential['A'] != 0 and sequential['B'] == 0, \
        "sequential reference run unexpected: %r" % ( sequential, )

    # Then, at once: B is issued 100ms after A, while A still waits for the target
    results.clear()
    a			= threading.Thread( target=session, args=( 'A', 10,   0.0 ))
    b			= threading.Thread( target=session, args=( 'B', None, 0.1 ))
    a.start(); b.start(); a.join(); b.join()
    control['done']	= True
finally:
    target.terminate()
    target.wait()

print( "one after the other:  A %r, B %r" % ( sequential['A'], sequential['B'] ))
print( "session A (320ms time-out; target needs 1s):  %r" % ( results.get( 'A' ), ))
print( "session B (5s time-out):                       %r" % ( results.get( 'B' ), ))
if results.get( 'B' ) != 0:
    print( "OBSERVED: session B's valid request was refused (%s) because session A's request timed out on the shared route" % (
        results.get( 'B' ), ))
    print( "EXPECTED: session B's Read Tag succeeds (status 0), as it does in every sequential order of the two requests" )
    sys.exit( 1 )
print( "OK: session B was served" )
sys.exit( 0 )
