import sys
import cpppo
from cpppo.server.enip import logix, parser
from cpppo.server.enip.main import main
# A complete, well-formed encapsulation frame with an unsupported command (0x0072), no payload
def frame( command, payload=b'' ):
    d = cpppo.dotdict( enip=cpppo.dotdict( command=command, session_handle=0, status=0, options=0, input=bytearray( payload ),
                                           sender_context=cpppo.dotdict( input=bytearray( b'CTX12345' ))))
    return parser.enip_encode( d.enip )
def serve( raw ):
    data = cpppo.dotdict()
    source = cpppo.chainable( raw )
    with parser.enip_machine( context='enip' ) as m:
        for mch,sta in m.run( source=source, data=data, path='request' ):
            pass
    try:
        proceed = logix.process( ('127.0.0.1',12345), data=data, tags={} )
    except Exception as exc:
        return 'NO REPLY (exception %s: connection dropped)' % type( exc ).__name__
    st = data.response.enip.status
    return 'reply status 0x%02x proceed=%s' % ( st, proceed )
r1 = serve( frame( 0x0004 ))          # List Services: supported
r2 = serve( frame( 0x0072 ))          # unsupported encapsulation command
print( 'ListServices :', r1 ); print( 'command 0x72 :', r2 )
sys.exit( 0 if 'reply status' in r2 and 'status 0x00' not in r2 else 1 )
