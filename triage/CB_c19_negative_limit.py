#!/usr/bin/env python
"""C19 defect 1 (low severity, edge of the quantifier "all ... limit values"): a negative limit makes
shatter() -- and therefore merge() -- an endless generator of ranges with negative counts and ever
decreasing addresses, instead of a finite exact tiling ( 0 and None select the per-bank default; a
negative value is neither rejected nor treated like them ).

  shatter( 1, 5, limit=-1 )  ->  (1,-1), (0,-1), (-1,-1), ...   never ends
  expected: a finite list of pieces that tiles 1..5 exactly ( eg. as for limit=None ), or an exception.

A poller / modbus_poll given such a limit would spin forever inside set( merge( ... )).
"""
from __future__ import print_function
import itertools
import sys

from cpppo.remote.plc_modbus import merge, shatter

CAP				= 1000
bad				= []
for what,gen,address,count in (
        ( "shatter( 1, 5, limit=-1 )",		shatter( 1, 5, limit=-1 ),		1,	5 ),
        ( "merge( [(40001,5)], limit=-2 )",	merge( [ (40001,5) ], limit=-2 ),	40001,	5 ),
):
    try:
        pieces			= list( itertools.islice( gen, CAP ))
    except Exception as exc:
        print( "%s: rejected with %r (acceptable)" % ( what, exc ))
        continue
    covered			= set()
    for a,c in pieces:
        covered.update( range( a, a+c ))
    if ( len( pieces ) >= CAP or any( c <= 0 for a,c in pieces )
         or covered != set( range( address, address+count ))):
        bad.append( "%s: observed %d+ pieces beginning %r; expected a finite exact tiling of %d..%d (or an exception)" % (
            what, len( pieces ), pieces[:4], address, address+count-1 ))

if bad:
    for b in bad:
        print( b )
    sys.exit( 1 )
print( "OK" )
