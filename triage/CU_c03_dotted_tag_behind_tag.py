#!/usr/bin/env python
"""C03 defect 4: a configured tag whose dotted name begins with the name of another tag cannot be
addressed: with tags 'Pump' and 'Pump.Speed' ( enip_server Pump=INT[4] Pump.Speed=INT[4] ), every
Read / Write Tag of Pump.Speed is answered 0x05 (path destination unknown).

The client sends 'Pump.Speed' as the two symbolic segments 'Pump', 'Speed' ( client.parse_path splits at
'.', and so does any Logix client ).  device.resolve glues symbolic segments together until the name
built so far is a known tag; it stops at 'Pump', takes that tag's address, and then has a second
symbolic segment 'Speed' that names nothing.  redirect_tag's documentation says multi-segment tags are
looked up as symbol["<symbol1>.<symbol2>"], and both tags are accepted at start-up.

Expected: Pump.Speed is readable and writable like any other tag ( resolve should prefer the longest
dotted name that is a tag ); observed: status 0x05 for every request, while 'Pump' works.
"""
from __future__ import print_function
import sys, logging
import cpppo
from cpppo.server import enip
from cpppo.server.enip import logix, device, parser

logging.getLogger().setLevel( logging.CRITICAL )

def request( Obj, req ):
    enc			= Obj.produce( cpppo.dotdict( req ))
    data		= cpppo.dotdict()
    with Obj.parser as machine:
        for _ in machine.run( source=cpppo.rememberable( enc ), data=data ):
            pass
    Obj.request( data )
    return data

enip.lookup_reset()
logix.setup_reset()
tags			= cpppo.dotdict()
for name in ( 'Pump', 'Pump.Speed' ):
    entry		= cpppo.dotdict()
    entry.attribute	= device.Attribute( name, parser.INT, default=[ 0 ] * 4 )
    entry.path		= None
    entry.error		= 0
    dict.__setitem__( tags, name, entry )
logix.setup( tags=tags )
Obj			= device.lookup( 0x02, 1 )

path			= { 'segment': [ cpppo.dotdict( s ) for s in device.parse_path( 'Pump.Speed' ) ] }
w			= request( Obj, { 'path': path, 'write_tag': {
    'type': parser.INT.tag_type, 'elements': 4, 'data': [ 1, 2, 3, 4 ] }} )
r			= request( Obj, { 'path': path, 'read_tag': { 'elements': 4 }} )
print( "path %r" % ( path['segment'], ))
print( "Write Tag Pump.Speed: status 0x%02x; Read Tag Pump.Speed: status 0x%02x, data %r" % (
    w.status, r.status, r.read_tag.get( 'data' )))
if w.status != 0 or r.status != 0 or r.read_tag.data != [ 1, 2, 3, 4 ]:
    print( "CONTRADICTION: expected both requests to succeed and the read to return [1, 2, 3, 4]" )
    sys.exit( 1 )
print( "OK" )
sys.exit( 0 )
