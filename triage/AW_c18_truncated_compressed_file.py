"""Triage only (never run by a registered check).  Defect AW (C18, H-PACE; introduced by the first repair of Q, found by the round-6 C18 agent):
a rotated file that exists only as a .gz whose compressed stream is cut short makes loader.load() spin: the decompressor raises EOFError
from every further read, the catch-all handler reported each as an unparsable line.  Exit 1 if load() does not return within 20 s or the
newest file's records are lost.  Run: /venv/bin/python <this file>
"""
import os, sys, tempfile, shutil, gzip, signal
from cpppo.history import files as hfiles
from cpppo.history import loader, timestamp
BASE=1400000000.0; WALL=2000000000.0
class clk:
    def __init__(s,n): s.now=n
    def __call__(s): return s.now
def rec( t, data ):
    return ( '\t'.join(( str( timestamp( BASE+t )), 'null', data )) + '\n' ).encode( 'ascii' )
d = tempfile.mkdtemp()
try:
    path = os.path.join( d, 'h.hst' )
    import io
    raw = b''.join( rec( t, '{"40001": %d}' % t ) for t in range( 0, 300 ))
    buf = io.BytesIO()
    with gzip.GzipFile( fileobj=buf, mode='wb' ) as z: z.write( raw )
    with open( path + '.1.gz', 'wb' ) as f: f.write( buf.getvalue()[:len( buf.getvalue()) * 2 // 3] )
    with open( path, 'wb' ) as f: f.write( rec( 400, '{"40001": 400}' ) + rec( 401, '{"40001": 401}' ))
    c = clk( WALL ); hfiles.timer = c
    ld = loader( path, historical=BASE-1, basis=WALL, factor=1.0 )
    def alarm( *a ): print( 'load() did not return within 20 s' ); os._exit( 1 )
    signal.signal( signal.SIGALRM, alarm ); signal.alarm( 20 )
    got = []
    for step in range( 0, 500, 50 ):
        c.now = WALL + step
        for _ in range( 50 ):
            cur, ev = ld.load( limit=1000 )
            got += ev
            if not ev: break
    signal.alarm( 0 )
    ts = [ round( e['timestamp'].value - BASE ) for e in got ]
    ok = ts[-2:] == [ 400, 401 ] and ts[:3] == [ 0, 1, 2 ]
    print( 'delivered %d records ( %s ... %s ), state %s: %s' % ( len( ts ), ts[:3], ts[-2:], ld.statename[ld.state], 'OK' if ok else 'WRONG' ))
    sys.exit( 0 if ok else 1 )
finally:
    shutil.rmtree( d )
