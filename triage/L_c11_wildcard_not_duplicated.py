# -*- coding: utf-8 -*-
import sys
import cpppo
def run(rx, inp):
    m = cpppo.regex_bytes( name='r', initial=rx, context='r', terminal=True )
    data = cpppo.dotdict(); source = cpppo.peekable( inp )
    try:
        with m:
            for mch,sta in m.run( source=source, data=data ):
                pass
        return m.terminal, source.sent
    except Exception as exc:
        return 'EXC %s' % type(exc).__name__, source.sent
bad=0
for rx, inp, want in [ (u'[^π]*', u'abρc'.encode('utf-8'), (True, 5)),     # ρ = CF 81 shares its lead byte with π = CF 80
                       (u'[^π]*', u'abc'.encode('utf-8'), (True, 3)),
                       (u'.π', u'ρπ'.encode('utf-8'), (True, 4)),
                     ]:
    got = run( rx, inp )
    ok = got == want
    print( repr(rx), repr(inp), '->', got, 'OK' if ok else 'WRONG want %r' % (want,) ); bad += not ok
sys.exit( 1 if bad else 0 )
