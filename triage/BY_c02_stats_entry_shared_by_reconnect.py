#!/usr/bin/env python
"""
C02 / unchanged code: a connection that ends inside a frame does NOT always leave other sessions
working -- the per-connection termination flag (stats.eof) is shared with a later connection that
comes from the same peer address while the thread of the dying connection is still alive.

main.stats_for( peer ) looks the stats entry up by "<ip>_<port>" and returns an *existing* entry; the
entry is only removed in the finally: of enip_srv_tcp.  The serving thread can outlive its TCP
connection (here: it is busy in an Attribute whose __setitem__ forwards the data to a slow application
-- the documented way to hook an application into the simulator; a routed request awaiting its
target does the same).  A client that uses a fixed local port (client( source_address=
"ip:port" ) is a documented feature) and re-connects after dropping a connection mid-frame then gets
a thread that shares 'stats' with the old one: when the old thread finally notices that its
connection is gone it sets stats['eof'] = True -- and the healthy new session is terminated, too.

Sequence:
  simulator whose tag Attribute takes 1 s to store a value
  client 1 (local port P): Register; then one whole Write Tag A[0]=11 plus the first part of another
                           frame, and the connection is reset
  client 2 (local port P): connects right away, Register; a little later Write Tag A[1]=22

Expected: client 1's whole request is acted upon, its unfinished frame is not; client 2 is served
          (both replies arrive, A[1] == 22).
Observed: client 2's connection is closed by the simulator after its Register reply; its complete
          Write Tag is never acted upon.

Exits 1 (printing observed vs. expected) while the contradiction is present, 0 otherwise.
"""
from __future__ import print_function

import socket
import struct
import sys
import threading
import time

import cpppo
from cpppo.server.enip import client, device
from cpppo.server.enip.main import main as enip_main

HOST			= '127.0.0.1'
PORT			= 44818
LOCAL			= 45917
DELAY			= 1.0
SLOW			= [ 0.0 ]	# seconds every store into a tag takes


class Attribute_slow( device.Attribute ):
    """Stores the data like device.Attribute, after handing it to a (slow) application."""
    def __setitem__( self, key, value ):
        time.sleep( SLOW[0] )
        super( Attribute_slow, self ).__setitem__( key, value )


def start_simulator():
    ctl				= cpppo.dotdict()
    ctl.control			= cpppo.apidict( timeout=1.0 )
    ctl.control.done		= False
    ctl.control.disable		= False
    thr				= threading.Thread( target=enip_main, kwargs=dict(
        argv=[ '--no-config', '--no-udp', '-a', '%s:%d' % ( HOST, PORT ), 'A=INT[4]' ],
        attribute_class=Attribute_slow, server=ctl ))
    thr.daemon			= True
    thr.start()
    for _ in range( 100 ):
        try:
            socket.create_connection( (HOST,PORT), timeout=1 ).close()
            break
        except Exception:
            time.sleep( .05 )
    else:
        raise RuntimeError( "simulator did not start" )
    time.sleep( .2 )
    return ctl,thr


def capture_frames( tags ):
    frames			= []
    send			= client.client.send
    def spy( self, request, timeout=None ):
        frames.append( bytes( request ))
        return send( self, request, timeout=timeout )
    client.client.send		= spy
    try:
        with client.connector( host=HOST, port=PORT, timeout=10 ) as conn:
            for _ in conn.synchronous( operations=client.parse_operations( tags ), timeout=10 ):
                pass
    finally:
        client.client.send	= send
    return frames


def read_tag( tag ):
    with client.connector( host=HOST, port=PORT, timeout=10 ) as conn:
        for idx,dsc,op,rpy,sts,val in conn.synchronous(
                operations=client.parse_operations( [tag] ), timeout=10 ):
            return val


def connect_from( port ):
    sock			= socket.socket( socket.AF_INET, socket.SOCK_STREAM )
    sock.setsockopt( socket.SOL_SOCKET, socket.SO_REUSEADDR, 1 )
    sock.bind( (HOST,port) )
    sock.settimeout( 5 )
    sock.connect( (HOST,PORT) )
    return sock


def recv_frame( sock, timeout=5.0 ):
    """One whole EtherNet/IP frame; what was received (possibly b'') on EOF, None on timeout."""
    sock.settimeout( timeout )
    buf				= b''
    try:
        while len( buf ) < 24 or len( buf ) < 24 + struct.unpack( '<H', buf[2:4] )[0]:
            got			= sock.recv( 4096 )
            if not got:
                return buf
            buf		       += got
    except socket.timeout:
        return None
    except socket.error:
        return buf
    return buf


def with_session( frame, session ):
    return frame[:4] + struct.pack( '<I', session ) + frame[8:]


def main():
    ctl,thr			= start_simulator()
    problems			= []
    try:
        register,write_1,write_2= capture_frames( [ 'A[0]=(INT)11', 'A[1]=(INT)22' ] )
        capture_frames( [ 'A[0-1]=(INT)0,0' ] )
        SLOW[0]			= DELAY

        one			= connect_from( LOCAL )
        one.sendall( register )
        reply			= recv_frame( one )
        assert reply and len( reply ) == 28, "client 1: no Register reply: %r" % ( reply, )
        session			= struct.unpack( '<I', reply[4:8] )[0]
        # one whole request and the beginning of the next, then the connection is reset
        one.sendall( with_session( write_1, session ) + with_session( write_2, session )[:30] )
        time.sleep( .2 )
        one.setsockopt( socket.SOL_SOCKET, socket.SO_LINGER, struct.pack( 'ii', 1, 0 ))
        one.close()

        # client 2 re-connects at once, from the same local address
        two			= connect_from( LOCAL )
        two.sendall( register )
        reply			= recv_frame( two )
        if not reply or len( reply ) != 28:
            problems.append( "client 2: Register Session: expected a 28-byte reply, observed %r" % ( reply, ))
        else:
            session		= struct.unpack( '<I', reply[4:8] )[0]
            time.sleep( DELAY + .5 )	# meanwhile, client 1's thread finds its connection gone
            try:
                two.sendall( with_session( write_2, session ))
                reply		= recv_frame( two )
            except socket.error as exc:
                reply		= exc
            if not isinstance( reply, bytes ) or len( reply ) <= 24:
                problems.append(
                    "client 2: complete Write Tag A[1]=22: expected a reply, observed %s" % (
                        "EOF (connection closed by the simulator)" if reply == b'' else repr( reply )))
        two.close()
        time.sleep( DELAY + .5 )
        SLOW[0]			= 0.0

        values			= read_tag( 'A[0-3]' )
        if values[0] != 11:
            problems.append( "client 1's whole Write Tag not acted upon: A == %r" % ( values, ))
        if values[1] != 22:
            problems.append( "client 2's whole Write Tag A[1]=22 not acted upon: expected A == [11, 22, 0, 0], observed %r" % ( values, ))
    finally:
        ctl.control.done	= True
        thr.join( 5 )

    if problems:
        print( "CONTRADICTION: a session from the peer address of a connection that ended mid-frame is terminated with it:" )
        for p in problems:
            print( "  " + p )
        return 1
    print( "OK: the later session was served" )
    return 0


if __name__ == "__main__":
    sys.exit( main() )
