"""Triage only (never run by a registered check).  Defects AT / AU / AV (C19), from the round-6 C19 agent:
 AT  a range that spans a 10000 boundary inside one bank ( legal in Holding 40001-99999 and the 6-digit banks ) followed by a range that
     begins inside it, past the boundary, is not merged: the output overlaps ( and with a limit is not sorted )
 AU  an EMPTY range ( count 0 ) within reach stretches the range being built: registers nobody asked for are polled
 AV  the poller hands merge a generator over the live self._data: a poll()/read() of a new address from another thread while sorted() pulls
     it raises RuntimeError in the poller thread, outside every try - the thread dies, nothing is polled again
Exit 1 while any is present.  Run: /venv/bin/python <this file>
"""
import sys, threading, time
from cpppo.remote.plc_modbus import merge, shatter
bad = 0
def disjoint_sorted( rs ):
    return all( a + c <= b for ( a, c ), ( b, _ ) in zip( rs, rs[1:] ))
for args, kw in (( [ ( 49990, 20 ), ( 50005, 1 ) ], {} ), ( [ ( 329996, 10 ), ( 330002, 19 ) ], dict( reach=100, limit=7 )), ( [ ( 1, 5 ), ( 3, 1 ) ], dict( reach=-5 ))):
    out = list( merge( args, **kw ))
    ok = disjoint_sorted( out )
    print( 'AT merge( %r, %r ) -> %r %s' % ( args, kw, out, 'ok' if ok else 'OVERLAPPING / UNSORTED' )); bad += not ok
args = [ ( 40001, 1 ), ( 40100, 0 ), ( 40199, 0 ), ( 40298, 0 ) ]
out = list( merge( args, reach=100 ))
ok = out == [ ( 40001, 1 ) ]
print( 'AU merge( %r, reach=100 ) -> %r %s' % ( args, out, 'ok' if ok else 'registers nobody requested' )); bad += not ok
# AV: the expression the poller evaluates, against a dict another thread keeps growing
import ast, inspect
from cpppo.remote import plc_modbus
src = inspect.getsource( plc_modbus.poller_modbus._poller )
line = [ l.strip() for l in src.splitlines() if 'merge(' in l and 'rngs' in l ][0]
class fake: pass
self = fake(); self._data = dict(( a, None ) for a in range( 40001, 90001 )); self.reach = 1
stop = False; died = []
def grow():
    a = 100001
    while not stop and a < 400000:
        self._data.setdefault( a, None ); a += 1
        if a % 1000 == 0: time.sleep( 0.001 )
t = threading.Thread( target=grow ); t.start()
try:
    t0 = time.time()
    while time.time() - t0 < 5 and t.is_alive():
        exec( line, dict( merge=merge, self=self ))
except RuntimeError as exc:
    died.append( exc )
stop = True; t.join()
print( 'AV %s -> %s' % ( line, 'RuntimeError: %s' % died[0] if died else 'ok' )); bad += bool( died )
sys.exit( 1 if bad else 0 )
