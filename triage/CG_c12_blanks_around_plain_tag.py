"""C12 contradiction 2 (unchanged code): parse_operations only discards the whitespace around a tag when the
operation has a '=' or a '+' in it.

parse_operations says "Compute tag (stripping val and off), discarding whitespace around tag and val/off", and
client.main() documents "Tags to read/write (- to read from stdin)" -- it chains the lines of sys.stdin, each
still carrying its newline, into parse_operations.

Input / observed / expected:
  ' Int[1] = 5 '   -> write of  'Int'[1]                   (right)
  ' Int[1] '       -> AssertionError "Garbage after [...]" (expected: read of 'Int'[1])
  'Int\n'          -> read of the tag 'Int\n'              (expected: read of 'Int')
  'Int[1]\n' on the stdin of client.main( ['-'] ) -> the client fails; 'Int[1]=5\n' works.
"""
from __future__ import print_function

import io
import logging
import socket
import sys
import threading
import time

from cpppo.dotdict import apidict
from cpppo.server import enip
from cpppo.server.enip import client
from cpppo.server.enip.main import main as enip_main

ADDR				= ('127.0.0.1', 44922)


def start_server():
    control			= apidict( enip.timeout, { 'done': False } )
    thread			= threading.Thread( target=enip_main, kwargs=dict(
        argv=[ '--address', '%s:%d' % ADDR, 'Int=INT[10]' ],
        server={ 'control': control } ))
    thread.daemon		= True
    thread.start()
    for _ in range( 100 ):
        try:
            socket.create_connection( ADDR, timeout=1 ).close()
            return
        except socket.error:
            time.sleep( .1 )
    raise Exception( "simulator did not start" )


def parsed( text ):
    try:
        opr,			= client.parse_operations( [ text ] )
        return opr['path']
    except Exception as exc:
        return exc


def main():
    logging.disable( logging.WARNING )
    failed			= False
    expect			= [{'symbolic': 'Int'}, {'element': 1}]
    for text in ( ' Int[1] = 5 ', 'Int[1]', ' Int[1]', 'Int[1] ', 'Int[1]\n', ' Int[1] +0', ):
        path			= parsed( text )
        good			= path == expect
        print( "%-16r --> %r%s" % ( text, path, '' if good else '   CONTRADICTION: expected %r' % ( expect, )))
        failed			= failed or not good
    for text in ( 'Int\n', ' Int' ):
        path			= parsed( text )
        good			= path == [{'symbolic': 'Int'}]
        print( "%-16r --> %r%s" % ( text, path, '' if good else "   CONTRADICTION: expected [{'symbolic': 'Int'}]" ))
        failed			= failed or not good

    # The documented stdin interface of the client: write, then read back; each line ends in a newline
    start_server()
    for lines in ( 'Int[1]=5\n', 'Int[1]\n', 'Int\n' ):
        stdin,sys.stdin		= sys.stdin,io.StringIO( u'' + lines )
        try:
            status		= client.main( argv=[ '-a', '%s:%d' % ADDR, '-' ] )
        except Exception as exc:
            status		= exc
        finally:
            sys.stdin		= stdin
        logging.disable( logging.WARNING ) # client.main re-configures logging
        good			= status == 0
        print( "client.main( ['-'] ) with %r on stdin --> %r%s" % (
            lines, status, '' if good else '   CONTRADICTION: expected 0 (success)' ))
        failed			= failed or not good
    return 1 if failed else 0


if __name__ == "__main__":
    sys.exit( main() )
