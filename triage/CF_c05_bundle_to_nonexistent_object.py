#!/usr/bin/env python
"""
C05 defect 1: a Multiple Service Packet whose request path names an Object that does not exist
( class 0x99 instance 1, or class 0x02 instance 7 ) is not refused: Message_Router.route() returns
None both for "the path names me" and for "lookup found nothing", so the bundle is executed by the
Message Router it arrived at -- its Write Tag members modify tags and the packet is answered 0x00.

Expected: a failure indication ( eg. 0x05 / 0x16 ) and every tag unchanged, as for a symbolic path
that names no tag ( which IS answered 0x16 ).
Exit 1 while the contradiction is present, 0 otherwise.
"""
from __future__ import print_function

import io
import logging
import socket
import struct
import sys
import threading
import time
import traceback

import cpppo
from cpppo.server import enip
from cpppo.server.enip import logix, device, parser
from cpppo.server.enip.main import main as enip_main


class Raw( object ):
    """A minimal EtherNet/IP client: RegisterSession, then unconnected SendRRData of raw CIP requests."""
    def __init__( self, addr ):
        self.s			= socket.create_connection( addr, timeout=10 )
        self.session		= 0
        self.session		= self.xfer( 0x65, struct.pack( '<HH', 1, 0 ))[1]

    def recvn( self, n ):
        buf			= b''
        while len( buf ) < n:
            c			= self.s.recv( n - len( buf ))
            assert c, "connection closed by the server"
            buf		       += c
        return buf

    def xfer( self, cmd, payload ):
        self.s.sendall( struct.pack( '<HHII', cmd, len( payload ), self.session, 0 ) + b'\0' * 12 + payload )
        cmd,length,sess,status	= struct.unpack( '<HHII', self.recvn( 24 )[:12] )
        return cmd,sess,status,self.recvn( length )

    def cip( self, req ):
        """--> (status, [extended status], reply data)"""
        cpf			= struct.pack( '<IHHHHHH', 0, 5, 2, 0, 0, 0xb2, len( req )) + req
        cmd,sess,status,body	= self.xfer( 0x6f, cpf )
        assert status == 0 and body, "EtherNet/IP status 0x%x" % status
        rpy			= body[16:]
        svc,_,sts,extn		= struct.unpack( '<BBBB', rpy[:4] )
        ext			= list( struct.unpack( '<%dH' % extn, rpy[4:4+2*extn] ))
        return sts,ext,rpy[4+2*extn:]


def epath( tag, elm=None ):
    b				= tag.encode( 'ascii' )
    seg				= b'\x91' + struct.pack( 'B', len( b )) + b + ( b'\0' if len( b ) % 2 else b'' )
    if elm is not None:
        seg		       += b'\x28' + struct.pack( 'B', elm )
    return struct.pack( 'B', len( seg ) // 2 ) + seg

def read_tag( tag, elm, count ):
    return b'\x4c' + epath( tag, elm ) + struct.pack( '<H', count )

def write_tag( tag, elm, typ, count, payload ):
    return b'\x4d' + epath( tag, elm ) + struct.pack( '<HH', typ, count ) + payload

def multiple( requests, path=b'\x02\x20\x02\x24\x01' ):
    offsets,off			= [],2 + 2 * len( requests )
    for r in requests:
        offsets.append( off )
        off		       += len( r )
    return ( b'\x0a' + path + struct.pack( '<H', len( requests ))
             + b''.join( struct.pack( '<H', o ) for o in offsets ) + b''.join( requests ))

def dints( addr_or_conn, tag, count ):
    sts,ext,data		= addr_or_conn.cip( read_tag( tag, None, count ))
    assert sts == 0, "Read Tag %s failed: 0x%02x %r" % ( tag, sts, ext )
    return list( struct.unpack( '<%di' % count, data[2:] ))


def serve( tags, scenario, port=44818, argv=() ):
    """Run the simulator (in this, the main thread) while scenario( addr ) runs; --> its result or raises"""
    logging.getLogger().setLevel( logging.CRITICAL )
    enip.lookup_reset()
    logix.setup_reset()
    addr			= ('127.0.0.1', port)
    control			= cpppo.apidict( enip.timeout, { 'done': False } )
    result			= {}

    def runner():
        try:
            for _ in range( 100 ):
                try:
                    socket.create_connection( addr, timeout=0.2 ).close()
                    break
                except Exception:
                    time.sleep( 0.1 )
            result['value']	= scenario( addr )
        except BaseException as exc:
            result['exc']	= exc
            result['tb']	= traceback.format_exc()
        finally:
            control.done	= True

    started			= []
    def idle_service():
        if not started:
            started.append( threading.Thread( target=runner ))
            started[0].daemon	= True
            started[0].start()

    enip_main( argv=list( argv ) + [ '--no-udp', '--address', '%s:%d' % addr ] + list( tags ),
               server={ 'control': control }, idle_service=idle_service )
    if started:
        started[0].join( 10 )
    if 'exc' in result:
        print( result['tb'] )
        raise result['exc']
    return result.get( 'value' )

DINT				= 0xc4

def scenario( addr ):
    cli,other			= Raw( addr ),Raw( addr )
    bad				= []
    for descr,path in (( "class 0x99 instance 1 (no such class)",	b'\x02\x20\x99\x24\x01' ),
                       ( "class 0x02 instance 7 (no such instance)",	b'\x02\x20\x02\x24\x07' ),
                       ( "tag 'Nope' (no such tag)",			b'\x03\x91\x04Nope' )):
        before			= dints( other, 'D', 4 )
        sts,ext,data		= cli.cip( multiple( [ write_tag( 'D', 0, DINT, 1, struct.pack( '<i', before[0] + 1 )),
                                                       read_tag( 'D', 0, 1 ) ], path=path ))
        after			= dints( other, 'D', 4 )
        print( "Multiple Service Packet to %-42s: status 0x%02x %r; D %r -> %r" % ( descr, sts, ext, before, after ))
        if sts == 0 or after != before:
            bad.append( "MSP to %s: observed status 0x%02x, D %r -> %r; expected a failure status and D unchanged" % (
                descr, sts, before, after ))
    return bad

if __name__ == "__main__":
    bad				= serve( [ 'D=DINT[4]' ], scenario )
    for b in bad:
        print( "CONTRADICTION:", b )
    sys.exit( 1 if bad else 0 )
