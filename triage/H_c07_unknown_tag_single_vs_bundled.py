"""Triage only (never run by a registered check).  Observation reported by a seeding sub-agent: a Read Tag of an UNKNOWN symbolic tag
is answered differently when sent alone (through Connection_Manager.request's routing resolve) and inside a Multiple Service Packet.
Run: /venv/bin/python <this file>"""
from cpppo.dotdict import dotdict
from cpppo.server.enip import logix, device, parser, client
from cpppo.server.enip.device import Attribute
device.lookup_reset(); logix.setup_reset()
tags = dotdict(); te = dotdict(); te.attribute = Attribute('T', parser.INT, default=[0]*4); te.path=None; te.error=0
dict.__setitem__(tags, 'T', te)
ucmm = logix.setup(tags=tags)
CM = device.lookup(6,1); MR = device.lookup(2,1)
def unconnected( reqbytes ):
    d = dotdict(); d.request = dotdict(); d.request.input = bytearray( reqbytes )
    try:
        CM.request( d, addr=('1.2.3.4',1234) )
        return 'CIP status 0x%02x' % d.request.status
    except Exception as exc:
        return 'EXCEPTION %s: %s' % ( type(exc).__name__, str(exc)[:60] )
single = logix.Logix.produce( dotdict( path={'segment':[{'symbolic':'NOPE'}]}, read_tag={'elements':1} ))
print( 'single unknown tag  ->', unconnected( single ))
good   = logix.Logix.produce( dotdict( path={'segment':[{'symbolic':'T'}]}, read_tag={'elements':1} ))
print( 'single known tag    ->', unconnected( good ))
mul = dotdict( path={'segment':[{'class':2},{'instance':1}]} ); mul.multiple = dotdict(); mul.multiple.request = [
    dotdict( path={'segment':[{'symbolic':'NOPE'}]}, read_tag={'elements':1} ), dotdict( path={'segment':[{'symbolic':'T'}]}, read_tag={'elements':1} ) ]
b = logix.Logix.produce( mul )
d = dotdict(); d.request = dotdict(); d.request.input = bytearray( b )
CM.request( d, addr=('1.2.3.4',1234) )
print( 'bundled: bundle status 0x%02x, members %s' % ( d.request.status, [ '0x%02x' % r.status for r in d.request.multiple.request ] ))
