#!/usr/bin/env python
"""C15 defect 1: a route path the EPATH parser cannot (completely) decode is taken for 'no route path' or for
its decodable prefix, so the personality filter of UCMM.request lets it through.

 a) simulator configured as a simple (non-routing) device ( route_path = False, what -S gives ): an Unconnected Send
    whose route path is an Electronic Key segment ( 0x34 ..., 5 words; a legal CIP path segment ) is accepted and the
    Write Tag it carries is performed.  Expected: refused ( the request does carry a route path ), tag untouched.
 b) simulator configured with route path 1/0: an Unconnected Send with the 2-segment route path [ 1/0, <electronic key> ]
    ( differs in length from the configured one ) is accepted and the write performed.  Expected: refused.

Runs in-process ( no sockets ): frames are built by hand, parsed with the enip_machine and handed to logix.process,
exactly as enip_srv does.
"""
from __future__ import print_function
import sys, struct, contextlib, logging

import cpppo
from cpppo import dotdict
from cpppo.server.enip import parser, device, logix, ucmm

logging.basicConfig( level=logging.CRITICAL )

def write_tag_bytes( tag, value ):
    req				= dotdict()
    req.path			= { 'segment': [ { 'symbolic': tag } ] }
    req.write_tag		= { 'elements': 1, 'data': [ value ], 'type': 0x00C4 }
    return bytes( bytearray( logix.Logix.produce( req )))

def frame( req, rp ):
    """SendRRData / CPF [ null address, unconnected data ] / Unconnected Send (0x52 @6/1) carrying req, raw route path rp"""
    assert len( rp ) % 2 == 0
    us				= b'\x52\x02\x20\x06\x24\x01\x05\x9d' + struct.pack( '<H', len( req )) + req
    if len( req ) % 2:
        us		       += b'\x00'
    us			       += struct.pack( 'BB', len( rp ) // 2, 0 ) + rp
    cpf				= struct.pack( '<IHH', 0, 8, 2 ) + struct.pack( '<HH', 0, 0 ) \
                                  + struct.pack( '<HH', 0x00b2, len( us )) + us
    return struct.pack( '<HHII', 0x006f, len( cpf ), 0x1234, 0 ) + b'\x00' * 8 + struct.pack( '<I', 0 ) + cpf

def simulator( route_path ):
    """A fresh Logix simulator with DINT tag T == [7], and a UCMM of the given personality"""
    device.lookup_reset()
    logix.setup_reset()
    class UCMM( ucmm.UCMM ):
        pass
    UCMM.route_path		= route_path
    tags			= dotdict()
    entry			= dotdict()
    entry.attribute		= device.Attribute( 'T', parser.DINT, default=[7] )
    entry.path			= None
    entry.error			= 0
    dict.__setitem__( tags, 'T', entry )
    return dict( UCMM_class=UCMM, tags=tags ), entry.attribute

def serve( octets, **kwds ):
    data			= dotdict()
    source			= cpppo.chainable( octets )
    with parser.enip_machine( context='enip' ) as machine:
        with contextlib.closing( machine.run( path='request', source=source, data=data )) as engine:
            for m,s in engine:
                pass
    logix.process( ('127.0.0.1',12345), data=data, **kwds )
    return data.response.enip.status, len( data.response.enip.get( 'input' ) or b'' )

EKEY				= b'\x34\x04' + b'\x00' * 8	# Electronic Key segment, key format 4, 8 octets of key data
PORT_1_0			= b'\x01\x00'

failures			= []
for name,conf,rp,accept in [
        ( "simple device, no route path",			False,				b'',			True  ),
        ( "simple device, route path 1/0",			False,				PORT_1_0,		False ),
        ( "simple device, route path <electronic key>",		False,				EKEY,			False ),
        ( "configured 1/0, route path 1/0",			[{'port':1,'link':0}],		PORT_1_0,		True  ),
        ( "configured 1/0, route path 1/0 + 2/1",		[{'port':1,'link':0}],		PORT_1_0+b'\x02\x01',	False ),
        ( "configured 1/0, route path 1/0 + <electronic key>",	[{'port':1,'link':0}],		PORT_1_0+EKEY,		False ),
        ( "configured 1/0, route path <electronic key>",	[{'port':1,'link':0}],		EKEY,			False ),
]:
    kwds,att			= simulator( conf )
    try:
        status,size		= serve( frame( write_tag_bytes( 'T', 99 ), rp ), **kwds )
    except Exception as exc:
        status,size		= "%s: %s" % ( type( exc ).__name__, exc ), 0
    accepted			= ( status == 0 and size > 0 )
    written			= ( att[0] == 99 )
    ok				= ( accepted == accept ) and ( written == accept )
    print( "%-55s route path octets %-28r -> EtherNet/IP status %r, %2d octets of reply, T[0] == %2d : %s" % (
        name, rp, status, size, att[0], "ok" if ok else "WRONG (expected %s)" % (
            "accepted and written" if accept else "refused with an error status, T[0] still 7" )))
    if not ok:
        failures.append( name )

if failures:
    print( "\nOBSERVED: accepted ( and tag written ) although the request's route path is not empty / not the configured one: %s" % (
        "; ".join( failures )))
    print( "EXPECTED: an error status and no tag access for each of them" )
    sys.exit( 1 )
print( "all route paths filtered as configured" )
