"""C08 defect 1: connections that exhaust the process' descriptors take the whole simulator down.

A peer (a child process here) opens TCP connections to the simulator and sends nothing.  When the
server's accept() fails (EMFILE), network.server_main treats it like any other exception in its
accept loop: control.done = True, the listening socket is closed and main() returns -- instead of
refusing / postponing that one connection.  After the peer has gone away again, no new session is
served.  Expected: the simulator is still there and serves a new session.
"""
import logging, resource, socket, subprocess, sys, threading, time

from cpppo.dotdict import dotdict
from cpppo.server.enip import main as enip_main_mod
from cpppo.server.enip import client

logging.basicConfig( level=logging.CRITICAL )
PORT				= 44818
LIMIT				= 120
HARD				= resource.getrlimit( resource.RLIMIT_NOFILE )[1]
resource.setrlimit( resource.RLIMIT_NOFILE, (LIMIT,HARD) )	# the soft limit only: the child raises its own again

control				= dotdict( done=False, disable=False, latency=0.1, timeout=0.5 )
srv				= threading.Thread(
    target=enip_main_mod.main,
    kwargs=dict( argv=[ '-a', 'localhost:%d' % PORT, '--no-udp', 'SCADA=INT[10]' ],
                 server=dotdict( control=control )))
srv.daemon			= True
srv.start()
for _ in range( 100 ):
    try:
        socket.create_connection( ('127.0.0.1',PORT), timeout=1 ).close()
        break
    except Exception:
        time.sleep( .05 )

def probe():
    with client.connector( host='127.0.0.1', port=PORT, timeout=5 ) as conn:
        ops			= client.parse_operations( [ 'SCADA[0-2]' ] )
        return [ (sts,val) for idx,dsc,op,rpy,sts,val in conn.pipeline( operations=ops, depth=1, timeout=5 ) ]

assert probe() == [ (0,[0,0,0]) ], "simulator does not serve before the test"

# The hostile peer, with a descriptor table of its own: more connections than we may have open
child				= subprocess.Popen( [ sys.executable, '-c', '''
import resource, socket, time
soft,hard = resource.getrlimit( resource.RLIMIT_NOFILE )
resource.setrlimit( resource.RLIMIT_NOFILE, (hard if hard != resource.RLIM_INFINITY and hard < 4096 else 4096,hard) )
socks = []
for i in range( %d ):
    try:
        socks.append( socket.create_connection( ('127.0.0.1',%d), timeout=2 ))
    except Exception:
        pass
time.sleep( 3 )
''' % ( LIMIT + 30, PORT ) ], close_fds=True )
child.wait()
time.sleep( 1.5 )			# all its connections are closed now; the sessions end

try:
    result			= probe()
except Exception as exc:
    result			= "no service: %r" % ( exc, )
alive				= srv.is_alive()
done				= control['done']
control['done']			= True
if result != [ (0,[0,0,0]) ] or not alive or done:
    print( "observed: after %d idle connections: server thread alive=%s control.done=%s new session=%r" % (
        LIMIT + 30, alive, done, result ))
    print( "expected: simulator still running, new session reads SCADA[0-2] == [0, 0, 0]" )
    sys.exit( 1 )
print( "OK" )
