"""C08 defect 3 (control handling): server.control.disable = True, then False again, ends the simulator
when the UDP/IP server is enabled (the default).

network.server_main documents 'disable' as "stop listening on the socket temporarily (for later
resumption)", and main() calls server_main again once 'disable' is cleared.  But enip_srv_udp only
looks at done/disable between two requests: while it waits for a datagram (the inner
'while msg is None' loop) it never does, so the UDP thread outlives its join ("hanging on None") and
keeps the UDP socket; the second server_main fails in udp_sock.bind() with EADDRINUSE, outside of any
try, and main() -- the whole simulator, TCP included -- is gone.  Expected: serves TCP and UDP again.
"""
import logging, socket, struct, sys, threading, time

from cpppo.dotdict import dotdict
from cpppo.server.enip import main as enip_main_mod
from cpppo.server.enip import client

logging.basicConfig( level=logging.CRITICAL )
threading.excepthook		= lambda args: None	# the failure is reported below
PORT				= 44818
control				= dotdict( done=False, disable=False, latency=0.1, timeout=0.5 )
srv				= threading.Thread(
    target=enip_main_mod.main,
    kwargs=dict( argv=[ '-a', 'localhost:%d' % PORT, 'SCADA=INT[10]' ],
                 server=dotdict( control=control )))
srv.daemon			= True
srv.start()
for _ in range( 100 ):
    try:
        socket.create_connection( ('127.0.0.1',PORT), timeout=1 ).close()
        break
    except Exception:
        time.sleep( .05 )

def tcp_probe():
    try:
        with client.connector( host='127.0.0.1', port=PORT, timeout=5 ) as conn:
            ops			= client.parse_operations( [ 'SCADA[0-2]' ] )
            return [ (sts,val) for idx,dsc,op,rpy,sts,val in conn.pipeline( operations=ops, depth=1, timeout=5 ) ]
    except Exception as exc:
        return "no service: %r" % ( exc, )

def udp_probe():
    u				= socket.socket( socket.AF_INET, socket.SOCK_DGRAM )
    u.settimeout( 2 )
    try:
        u.sendto( struct.pack( '<HHII', 0x63, 0, 0, 0 ) + b'\0' * 12, ('127.0.0.1',PORT) ) # List Identity
        return "reply of %d octets" % len( u.recvfrom( 4096 )[0] )
    except Exception as exc:
        return "no service: %r" % ( exc, )
    finally:
        u.close()

before				= tcp_probe(), "reply of ... octets"
assert before[0] == [ (0,[0,0,0]) ], "no service before the test: %r" % ( before, )

control['disable']		= True
time.sleep( 2.0 )
control['disable']		= False
time.sleep( 2.0 )

after				= tcp_probe(), udp_probe()
alive				= srv.is_alive()
control['done']			= True
if not alive or after[0] != before[0] or not after[1].startswith( "reply" ):
    print( "observed: after disable / enable: simulator running=%s, TCP session: %s, UDP List Identity: %s" % (
        alive, after[0], after[1] ))
    print( "expected: simulator running, TCP session: %s, UDP List Identity: %s" % before )
    sys.exit( 1 )
print( "OK" )
