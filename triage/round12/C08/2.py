"""C08 defect 2 (time bound): a Multiple Service Packet nested in itself is processed in time that
grows with the SQUARE of the frame length -- each level's closure (device.state_multiple_service)
re-parses all of the remaining octets, symbol by symbol.  A 4 kB frame takes ~20 s, a 30 kB frame did
not answer within 120 s, a 64 kB frame would occupy the simulator's shared Object parser for the
better part of an hour.  Expected: processing time proportional to the input length (eg. a bound on
the nesting depth, refused with an error status).
"""
import logging, socket, struct, sys, threading, time

from cpppo.dotdict import dotdict
from cpppo.server.enip import main as enip_main_mod

logging.basicConfig( level=logging.CRITICAL )
PORT				= 44818
control				= dotdict( done=False, disable=False, latency=0.1, timeout=0.5 )
srv				= threading.Thread(
    target=enip_main_mod.main,
    kwargs=dict( argv=[ '-a', 'localhost:%d' % PORT, '--no-udp', 'SCADA=INT[10]' ],
                 server=dotdict( control=control )))
srv.daemon			= True
srv.start()
for _ in range( 100 ):
    try:
        socket.create_connection( ('127.0.0.1',PORT), timeout=1 ).close()
        break
    except Exception:
        time.sleep( .05 )

def enip( command, payload=b'', session=0 ):
    return struct.pack( '<HHII', command, len( payload ), session, 0 ) + b'\0' * 8 + struct.pack( '<I', 0 ) + payload

def recv_frame( sock, timeout ):
    sock.settimeout( timeout )
    buf				= b''
    while len( buf ) < 24 or len( buf ) < 24 + struct.unpack( '<H', buf[2:4] )[0]:
        d			= sock.recv( 65536 )
        if not d:
            break
        buf		       += d
    return buf

def timed( levels ):
    cip				= b'\x4c\x04\x91\x05SCADA\x00\x01\x00'		# Read Tag SCADA, 1 element
    for _ in range( levels ):
        cip			= b'\x0a\x02\x20\x02\x24\x01' + struct.pack( '<HH', 1, 4 ) + cip
    cpf				= struct.pack( '<IHH', 0, 5, 2 ) + struct.pack( '<HH', 0, 0 ) + struct.pack( '<HH', 0xb2, len( cip )) + cip
    s				= socket.create_connection( ('127.0.0.1',PORT) )
    s.sendall( enip( 0x65, struct.pack( '<HH', 1, 0 )))
    session			= struct.unpack( '<I', recv_frame( s, 5 )[4:8] )[0]
    frame			= enip( 0x6f, cpf, session=session )
    beg				= time.time()
    s.sendall( frame )
    rpy				= recv_frame( s, 120 )
    dur				= time.time() - beg
    s.close()
    return len( frame ), dur, len( rpy )

small				= timed( 100 )
large				= timed( 400 )
control['done']			= True
ratio_len			= large[0] / float( small[0] )
ratio_dur			= large[1] / small[1]
print( "frame of %5d octets: %7.2fs; frame of %5d octets: %7.2fs" % ( small[0], small[1], large[0], large[1] ))
if ratio_dur > 2 * ratio_len:
    print( "observed: %.1f times the octets take %.1f times as long (%.1f ms/octet vs. %.1f ms/octet)" % (
        ratio_len, ratio_dur, 1000 * large[1] / large[0], 1000 * small[1] / small[0] ))
    print( "expected: processing time bounded by (proportional to) the input length" )
    sys.exit( 1 )
print( "OK" )
