# A list of mappings whose elements are ( or have become ) empty disappears from key iteration, although an empty level, an
# empty list and the list itself are all listed / found by lookup.
import sys
from cpppo.dotdict import dotdict
bad = []
d = dotdict()
d.e = dotdict()
d.l = [ dotdict( x=1 ), dotdict( y=2 ) ]
assert sorted( d.keys() ) == [ 'e', 'l[0].x', 'l[1].y' ]
del d['l[0].x']
keys = sorted( d.keys() )
if not any( k.startswith( 'l[0]' ) for k in keys ):
    bad.append( "after del d['l[0].x'] keys are %r: the now empty element l[0] is not listed ( the empty level 'e' is ), though 'l[0]' in d is %r" % (
        keys, 'l[0]' in d ))
del d['l[1].y']
keys = sorted( d.keys() )
if not any( k.startswith( 'l' ) for k in keys ):
    bad.append( "after del d['l[1].y'] keys are %r: nothing of d['l'] == %r is listed, len( d ) == %d" % ( keys, d['l'], len( d )))
for b in bad: print( b )
sys.exit( 1 if bad else 0 )
