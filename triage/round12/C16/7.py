# copy.copy / copy.deepcopy of an apidict: __copy__ / __deepcopy__ call type( self )( pairs ), but apidict's first
# positional argument is the time-out.  Plain dictionaries assigned into an apidict hit the same constructor.
import sys, copy
from cpppo.dotdict import apidict_threading
bad = []
a = apidict_threading( 0.01, { 'a.b': 1, 'l': [ apidict_threading( 0.01, x=1 ) ] } )
for name,fun in (( 'copy.copy', copy.copy ), ( 'copy.deepcopy', copy.deepcopy )):
    try:
        c = fun( a )
    except Exception as exc:
        bad.append( "%s( apidict ) raised %s( %s ), expected an independent apidict" % ( name, exc.__class__.__name__, exc ))
        continue
    c['a.b'] = 2
    if a['a.b'] != 1 or type( c ) is not type( a ): bad.append( "%s( apidict ): not an independent apidict" % name )
# the same root: a plain dict assigned into an apidict is converted by self.__class__( value ), again without the time-out
for what,fun in (( "apidict( 0.01, { 'n': { 'm': 1 } } )", lambda: apidict_threading( 0.01, { 'n': { 'm': 1 } } )),
                 ( "a['n'] = { 'm': 1 }", lambda: a.__setitem__( 'n', { 'm': 1 } ))):
    try:
        fun()
    except Exception as exc:
        bad.append( "%s raised %s( %s ), expected the level n.m ( as { 'n.m': 1 } gives )" % ( what, exc.__class__.__name__, exc ))
for b in bad: print( b )
sys.exit( 1 if bad else 0 )
