# A name that is not a Python expression atom ( a keyword such as 'class', 'from', 'in'; 'my-tag'; '0' ) holding a list of
# levels: iteration lists 'class[0].a', which lookup evaluates as Python source and cannot find.
import sys
from cpppo.dotdict import dotdict
bad = []
for name in ( 'class', 'from', 'my-tag' ):
    d = dotdict()
    d[name] = [ dotdict( a=1 ) ]
    assert d[name][0].a == 1
    for k,v in d.items():
        try:
            if d[k] != v: bad.append( "listed key %r looks up to %r, listed %r" % ( k, d[k], v ))
        except KeyError as exc:
            bad.append( "listed key %r does not look up: KeyError( %s )" % ( k, exc ))
for b in bad: print( b )
sys.exit( 1 if bad else 0 )
