# '..' directly behind an index expression that contains a '.' : the back-tracking of _resolve cuts at the LAST '.', which
# lies inside the brackets, and the key is then refused as unbalanced.
import sys
from cpppo.dotdict import dotdict
bad = []
d = dotdict({ 'a': { 'b': 0 }, 'l': [ dotdict( v=1 ) ], 'x': 5 })
assert d['l[0]..x'] == 5 and d['l[a.b].v'] == 1 and d['l[a.b].v..v'] == 1 # each feature alone, and the mild combination
for key,exp in (( 'l[a.b]..x', 5 ), ( 'l[a.b].v...x', 5 ), ( 'l[a.b]..a.b', 0 )):
    try:
        got = d[key]
        if got != exp: bad.append( "d[%r] == %r, expected %r" % ( key, got, exp ))
    except KeyError as exc:
        bad.append( "d[%r] raised KeyError( %s ), expected %r ( as d[%r] does )" % ( key, exc, exp, key.replace( 'a.b', '0', 1 )))
for b in bad: print( b )
sys.exit( 1 if bad else 0 )
