# pop / del of a path whose FINAL segment is indexed ( 'l[0]' ): lookup and membership find it, assignment d['l[0]'] = v
# stores it, but pop answers the default ( or KeyError ) and del raises KeyError - they hand the text 'l[0]' to dict.
import sys
from cpppo.dotdict import dotdict
bad = []
d = dotdict()
d['n.l'] = [ 10, 20, 30 ]
d['n.l[0]'] = 11
assert d['n.l[0]'] == 11 and 'n.l[0]' in d
got = d.pop( 'n.l[0]', 'DEFAULT' )
if got != 11: bad.append( "d.pop( 'n.l[0]', 'DEFAULT' ) == %r although 'n.l[0]' in d was True and d['n.l[0]'] == 11" % ( got, ))
if 'n.l[0]' in d: # still present: try del
    before = list( d['n.l'] )
    try:
        del d['n.l[0]']
        if d['n.l'] == before: bad.append( "del d['n.l[0]'] returned but removed nothing" )
    except KeyError as exc:
        bad.append( "del d['n.l[0]'] raised KeyError( %s ) although 'n.l[0]' in d is True ( a leaf, not a level )" % exc )
for b in bad: print( b )
sys.exit( 1 if bad else 0 )
