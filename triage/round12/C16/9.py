# The operator forms of update ( d |= other, d | other; dict API since Python 3.9 ) are inherited from dict and by-pass
# __setitem__: dotted keys are stored literally, plain dictionaries stay plain, reserved names are accepted.
import sys
from cpppo.dotdict import dotdict
if not hasattr( dict, '__ior__' ):
    sys.exit( 0 )
bad = []
u = dotdict(); u.update({ 'a.b': 1, 'n': { 'm': 2 } })
d = dotdict(); d |= { 'a.b': 1, 'n': { 'm': 2 } }
if sorted( d.keys() ) != sorted( u.keys() ):
    bad.append( "d |= {...}: keys %r, d.update( {...} ): keys %r" % ( sorted( d.keys() ), sorted( u.keys() )))
for k in d.keys():
    if k not in d: bad.append( "d |= {...}: listed key %r not in d" % ( k, ))
if type( d.get( 'n' )) is not dotdict: bad.append( "d |= {...}: the plain dict under 'n' stays a %s" % type( d.get( 'n' )).__name__ )
try:
    d |= { 'keys': 1 }
    bad.append( "d |= { 'keys': 1 } accepted the reserved name: %r" % ( dict.keys( d ), ))
except KeyError:
    pass
try:
    n = dotdict({ 'x': 0 }) | { 'a.b': 1 }
    if type( n ) is not dotdict or 'a.b' not in n:
        bad.append( "dotdict | {'a.b': 1} is a %s %r in which 'a.b' is %s" % ( type( n ).__name__, n, 'found' if 'a.b' in n else 'not found' ))
except Exception as exc:
    bad.append( "dotdict | { 'a.b': 1 } raised %s( %s )" % ( exc.__class__.__name__, exc ))
for b in bad: print( b )
sys.exit( 1 if bad else 0 )
