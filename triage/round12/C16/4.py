# __setitem__ stores a final segment that contains '[' but does not END in ']' literally; lookup evaluates every segment
# containing '[' as an index expression.  The stored key is listed by iteration but can never be looked up.
import sys
from cpppo.dotdict import dotdict
bad = []
for key in ( 'a[0]x', 'n.a[b' ):
    d = dotdict()
    d['a'] = [ 1, 2 ]
    try:
        d[key] = 5
    except KeyError:
        continue # refusing it is fine
    for k,v in d.items():
        try:
            if d[k] is not v: bad.append( "d[%r] = 5 accepted: listed key %r looks up to %r, listed value %r" % ( key, k, d[k], v ))
        except KeyError as exc:
            bad.append( "d[%r] = 5 accepted, keys %r; listed key %r does not look up: KeyError( %s ); %r in d is %r" % (
                key, list( d.keys() ), k, exc, key, key in d ))
for b in bad: print( b )
sys.exit( 1 if bad else 0 )
