# A key made of ONE leading '.' and ONE name ( '.x' ) is resolved to ( 'x', 'x' ): _resolve leaves the stale 'rest' of the
# skipped empty segment behind.  Lookup of '.x' fails ( or answers 'x.x' ), assignment to '.z' creates z.z.
import sys
from cpppo.dotdict import dotdict
bad = []
d = dotdict()
d['x'] = 5
d['a.a'] = 7
try:
    got = d['.x']
    if got != 5: bad.append( "d['.x'] == %r, expected 5" % ( got, ))
except KeyError as exc:
    bad.append( "d['.x'] raised KeyError( %s ), expected 5 ( leading '.' ignored, as for '.a.a' )" % exc )
if '.x' not in d: bad.append( "'.x' in d is False although 'x' in d is True" )
got = d.get( '.a' )
if got is not d['a']: bad.append( "d['.a'] == %r, expected the level d['a'] == %r" % ( got, d['a'] ))
for key in ( 'a...x', 'a.a....x', '...x' ): # back-tracking past the root ( documented as OK ) leaves '.x' behind, too
    if d.get( key ) != 5: bad.append( "d.get( %r ) == %r, expected 5 ( d['a.a...x'] == %r )" % ( key, d.get( key ), d.get( 'a.a...x' )))
d['.z'] = 1
if d.get( 'z' ) != 1: bad.append( "after d['.z'] = 1: d['z'] == %r, expected 1 ( keys: %r )" % ( d.get( 'z' ), list( d.keys() )))
if d._resolve( '.x' ) != ( 'x', None ): bad.append( "_resolve( '.x' ) == %r, expected ( 'x', None )" % ( d._resolve( '.x' ), ))
for b in bad: print( b )
sys.exit( 1 if bad else 0 )
