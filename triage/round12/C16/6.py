# Plain dictionaries inside a list ( eg. dotdict( json.loads( ... )) ) do not become levels: lookup through them works one
# name deep only, assignment through them is refused, and key iteration does not list them as name[i].leaf .
import sys
from cpppo.dotdict import dotdict
bad = []
d = dotdict({ 'top': { 'inner': 1 }, 'l': [ { 'a': 1, 'b': { 'c': 2 } } ] })
assert d['top.inner'] == 1 and type( d['top'] ) is dotdict
assert d['l[0].a'] == 1 and 'l[0].a' in d # the path exists for lookup
keys = sorted( d.keys() )
if 'l[0].a' not in keys: bad.append( "'l[0].a' in d is True, but keys are %r ( expected 'l[0].a', 'l[0].b.c' )" % ( keys, ))
try:
    if d['l[0].b.c'] != 2: bad.append( "d['l[0].b.c'] == %r" % ( d['l[0].b.c'], ))
except KeyError as exc:
    bad.append( "d['l[0].b.c'] raised KeyError( %s ), expected 2" % exc )
try:
    d['l[0].a'] = 3
except KeyError as exc:
    bad.append( "d['l[0].a'] = 3 raised KeyError( %s ) although 'l[0].a' in d" % exc )
for b in bad: print( b )
sys.exit( 1 if bad else 0 )
