"""Get Attribute List naming attribute number 0 next to a valid attribute: every Object keeps itself under
key '0' of its attribute table, so number 0 passes the "does this attribute exist" test and the whole
request fails (status 0x08, Service not supported, no data) instead of answering attribute 1 and flagging
attribute 0 with the per-attribute status 0x16, as it does for any other unknown attribute number (eg. 99).
Get Attribute Single of @2/1/0 likewise is answered 0x08 via an AttributeError rather than by the
existence test."""
import sys
import cpppo
from cpppo.server.enip import device, logix
from cpppo.server.enip.device import Attribute, lookup
from cpppo.server.enip.parser import DINT, EPATH

tags = cpppo.dotdict()
dict.__setitem__( tags, 'D2', cpppo.dotdict( attribute=Attribute( 'D2', DINT, default=[1,2] ), error=0 ))
logix.setup( tags=tags )

def cip( octets ):
    data = cpppo.dotdict()
    data.request = cpppo.dotdict( input=bytearray( octets ))
    lookup( 0x06, 1 ).request( data, addr=('127.0.0.1', 12345) )
    return data.request

mr = EPATH.produce( cpppo.dotdict( segment=[{'class': 2}, {'instance': 1}] ))
ok  = cip( b'\x03' + mr + b'\x02\x00' + b'\x01\x00' + b'\x63\x00' )	# attributes 1 and 99
bad = cip( b'\x03' + mr + b'\x02\x00' + b'\x01\x00' + b'\x00\x00' )	# attributes 1 and 0
print( "Get Attribute List [1,99]: status 0x%02x, reply %r" % ( ok.status, bytes( ok.input )))
print( "Get Attribute List [1, 0]: status 0x%02x, reply %r" % ( bad.status, bytes( bad.input )))
assert ok.status == 0 and bytes( ok.input ).endswith( b'\x63\x00\x16\x00' ), "unexpected reply for [1,99]"
expect = bytes( ok.input )[:-4] + b'\x00\x00\x16\x00'
if bad.status != 0 or bytes( bad.input ) != expect:
    print( "observed: status 0x%02x reply %r; expected: status 0x00 reply %r" % (
        bad.status, bytes( bad.input ), expect ))
    sys.exit( 1 )
