"""A Write Tag to an EXISTING tag that announces zero elements, or that carries a data type the simulator's
typed_data parser doesn't know (eg. WORD 0xD2), is answered 0x05 + 0x0000 "Request Path destination
unknown" -- the stand-in built for a request that failed to parse has an empty path, and Logix.request
reports that path as unknown.  A Read Tag with zero elements of the same tag is answered 0xFF + 0x2105.
Expected (existing tag): 0xFF + 0x2105 for the zero count, 0xFF + 0x2107 for the type the tag cannot hold."""
import sys, copy
import cpppo
from cpppo.server.enip import device, logix
from cpppo.server.enip.device import Attribute, lookup
from cpppo.server.enip.parser import DINT, UINT, EPATH

tags = cpppo.dotdict()
dict.__setitem__( tags, 'D5', cpppo.dotdict( attribute=Attribute( 'D5', DINT, default=[1,2,3,4,5] ), error=0 ))
dict.__setitem__( tags, 'U2', cpppo.dotdict( attribute=Attribute( 'U2', UINT, default=[1,2] ), error=0 ))
logix.setup( tags=tags )

def cip( octets ):
    data = cpppo.dotdict()
    data.request = cpppo.dotdict( input=bytearray( octets ))
    lookup( 0x06, 1 ).request( data, addr=('127.0.0.1', 12345) )
    r = data.request
    return r.get( 'status' ), ( list( r.status_ext.data ) if 'status_ext' in r and r.status_ext.get( 'data' ) else None )

d5 = EPATH.produce( cpppo.dotdict( segment=[{'symbolic': 'D5'}, {'element': 0}] ))
u2 = EPATH.produce( cpppo.dotdict( segment=[{'symbolic': 'U2'}, {'element': 0}] ))
cases = [
    ( "Read Tag  D5[0] x0",               b'\x4c' + d5 + b'\x00\x00',                          (0xFF, [0x2105]) ),
    ( "Write Tag D5[0] DINT x0, no data", b'\x4d' + d5 + b'\xc4\x00' + b'\x00\x00',            (0xFF, [0x2105]) ),
    ( "Write Tag U2[0] WORD x1",          b'\x4d' + u2 + b'\xd2\x00' + b'\x01\x00' + b'\x05\x00', (0xFF, [0x2107]) ),
    ( "Write Tag D5[0] WORD x1",          b'\x4d' + d5 + b'\xd2\x00' + b'\x01\x00' + b'\x05\x00', (0xFF, [0x2107]) ),
]
failures = []
for label, octets, expect in cases:
    got = cip( octets )
    print( "%-36s status 0x%02x ext %r" % ( label, got[0], got[1] ))
    if got != expect:
        failures.append( "%-36s observed status 0x%02x ext %r; expected 0x%02x ext %r" % (
            label, got[0], got[1], expect[0], expect[1] ))
if failures:
    print( "\n".join( failures ))
    sys.exit( 1 )
