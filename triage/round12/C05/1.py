"""A Write Tag to a tag that is configured to fail (Attribute error code, eg. 0x08) is answered with that
failure status -- but the data has been stored: the refused request had a side effect.
Expected: a request answered with a failure status leaves every tag exactly as it was."""
import sys, copy
import cpppo
from cpppo.server.enip import device, logix
from cpppo.server.enip.device import Attribute, lookup
from cpppo.server.enip.parser import DINT

tags = cpppo.dotdict()
dict.__setitem__( tags, 'E3', cpppo.dotdict( attribute=Attribute( 'E3', DINT, default=[1,2,3], error=0x08 ), error=0x08 ))
dict.__setitem__( tags, 'D3', cpppo.dotdict( attribute=Attribute( 'D3', DINT, default=[1,2,3] ), error=0 ))
logix.setup( tags=tags )

def cip( request ):
    data = cpppo.dotdict()
    data.request = cpppo.dotdict( input=bytearray( logix.Logix.produce( cpppo.dotdict( request ))))
    lookup( 0x06, 1 ).request( data, addr=('127.0.0.1', 12345) )
    return data.request

failures = []
for ctx,extra in ( ('write_tag', {}), ('write_frag', {'offset': 0}) ):
    before = copy.deepcopy( tags.E3.attribute.value )
    request = { 'path': {'segment': [{'symbolic': 'E3'}, {'element': 1}]},
                ctx: dict( type=DINT.tag_type, data=[ 777 ], elements=1, **extra ) }
    rpy = cip( request )
    after = copy.deepcopy( tags.E3.attribute.value )
    print( "%s E3[1]=777: status 0x%02x; tag before %r, after %r" % ( ctx, rpy.status, before, after ))
    if rpy.status != 0 and after != before:
        failures.append( "%s answered with failure status 0x%02x, but the tag changed: %r -> %r (expected: unchanged)" % (
            ctx, rpy.status, before, after ))
        tags.E3.attribute[:] = before
if failures:
    print( "\n".join( failures ))
    sys.exit( 1 )
