# regex_bytes: a multi-byte symbol that cannot continue the sentence is half consumed when the origin has a live
# wildcard, and an already complete sentence is then refused.
#   regex_bytes( '[^π]*' ) on 'bπ': the longest prefix that can be extended to a sentence is 'b' (1 octet), which IS a
#   sentence -> expected: 1 octet consumed and stored, machine terminal, 'π' left in the source.
#   Observed: the lead byte 0xCF of 'π' is consumed and stored too, then NonTerminal is raised.
#   The str machine cpppo.regex( '[^π]*' ) on the same text behaves as expected ( 1 symbol, accepted ).
from __future__ import print_function
import sys, logging
import cpppo
logging.disable( logging.CRITICAL )

def run( machine, payload, ctx ):
    source			= cpppo.peekable( payload )
    data			= cpppo.dotdict()
    failed			= None
    terminal			= False
    try:
        with machine:
            for m,s in machine.run( source=source, data=data ):
                if s is None and source.peek() is None:
                    break
            terminal		= machine.terminal
    except cpppo.NonTerminal as exc:
        failed			= exc
    stored			= data.get( ctx + '.input' )
    return terminal, source.sent, stored, failed

bad				= []
for rx,text,prefix in [
        ( '[^π]*',		'bπ',	'b' ),
        ( '[^π]*',		'abcπx','abc' ),
        ( 'π[^π]*',		'πbπ',	'πb' ),
        ( '[^€]+',		'x€',	'x' ),
]:
    t,n,st,f			= run( cpppo.regex( initial=rx, context='r', terminal=True ), text, 'r' )
    print( "regex      ( %-8r ) on %-8r: terminal=%-5s sent=%d stored=%r %s" % ( rx, text, t, n, st and st.tounicode(), f or '' ))
    assert t and n == len( prefix ), "str machine is the reference and should accept %r" % ( prefix )
    t,n,st,f			= run( cpppo.regex_bytes( initial=rx, context='r', terminal=True ), text.encode( 'utf-8' ), 'r' )
    st				= st.tobytes() if st is not None else b''
    print( "regex_bytes( %-8r ) on %-8r: terminal=%-5s sent=%d stored=%r %s" % ( rx, text, t, n, st, f or '' ))
    want			= prefix.encode( 'utf-8' )
    if not t or n != len( want ) or st != want:
        bad.append( "regex_bytes( %r ) on %r: observed sent=%d stored=%r accepted=%s %s; expected sent=%d stored=%r accepted=True" % (
            rx, text, n, st, t, "(NonTerminal)" if f else "", len( want ), want ))
if bad:
    print( "CONTRADICTION:\n  " + "\n  ".join( bad ))
    sys.exit( 1 )
print( "OK" )
