# A regex machine given a restricting regex_alphabet ( documented in string_base: "you could specify regex_alphabet=...,
# and provide a type, a set/list/tuple of acceptable symbols ... or a function to test the upcoming symbol for
# acceptability" ) does not stop / fail NonTerminal at a symbol outside the alphabet: the wildcard transition is taken,
# the target state refuses the symbol, and driving the generator on ( as every test in automata_test.py does ) ends in
#   AssertionError: ... detected no progress before finding acceptable symbol
# Expected: '.*' over alphabet {a,b} on 'abc' consumes 'ab', is terminal, leaves 'c';  on 'cab' fails NonTerminal with 0 consumed.
from __future__ import print_function
import sys, logging
import cpppo
logging.disable( logging.CRITICAL )

def run( machine, text ):
    source			= cpppo.peekable( text )
    data			= cpppo.dotdict()
    outcome			= None
    try:
        with machine:
            for i,(m,s) in enumerate( machine.run( source=source, data=data )):
                assert i < 100
            outcome		= 'terminal' if machine.terminal else 'non-terminal'
    except cpppo.NonTerminal:
        outcome			= 'NonTerminal'
    except AssertionError as exc:
        outcome			= 'AssertionError: %s' % exc
    return outcome, source.sent, data

bad				= []
for alphabet in ( set( 'ab' ), lambda c: c in 'ab' ):
    for text,want,sent in [ ('abc', 'terminal', 2), ('cab', 'NonTerminal', 0) ]:
        machine			= cpppo.string( 's', initial='.*', greedy=True, regex_alphabet=alphabet, context='s', terminal=True )
        outcome,n,data		= run( machine, text )
        print( "string( '.*', regex_alphabet=%r ) on %r: %s, sent=%d, data=%r" % ( alphabet, text, outcome, n, dict( data )))
        if outcome != want or n != sent:
            bad.append( "on %r observed %s after %d symbols; expected %s after %d" % ( text, outcome, n, want, sent ))
if bad:
    print( "CONTRADICTION:\n  " + "\n  ".join( bad ))
    sys.exit( 1 )
print( "OK" )
