# regex_bytes: '.' and negated classes match ONE OCTET of a multi-byte symbol that is not itself listed in the
# expression, not the whole symbol: the bytes machine and the str machine of the same expression disagree on the same
# text, and the bytes machine stops / accepts in the middle of a UTF-8 symbol.
#   regex( 'a.b' ) on 'aπb'			-> 3 symbols, accepted	(reference)
#   regex_bytes( 'a.b' ) on 'aπb'.encode()	-> expected 4 octets, accepted;  observed: 2 octets b'a\xcf', NonTerminal ( 0x80 is not 'b' )
#   regex_bytes( '.' ) on 'π'.encode()		-> expected 2 octets b'\xcf\x80';  observed: 1 octet b'\xcf' "accepted"
#   regex_bytes( '[^a]{2}' ) on 'πb'.encode()	-> expected 3 octets;  observed: 2 octets b'\xcf\x80' accepted ( 'π' counted twice )
from __future__ import print_function
import sys, logging
import cpppo
logging.disable( logging.CRITICAL )

def run( machine, payload ):
    source			= cpppo.peekable( payload )
    data			= cpppo.dotdict()
    failed			= None
    terminal			= False
    try:
        with machine:
            for m,s in machine.run( source=source, data=data ):
                if s is None and source.peek() is None:
                    break
            terminal		= machine.terminal
    except cpppo.NonTerminal as exc:
        failed			= exc
    stored			= data.get( 'r.input' )
    return terminal, source.sent, stored, failed

bad				= []
for rx,text in [
        ( 'a.b',	'aπb' ),
        ( '.',		'π' ),
        ( '[^a]{2}',	'πb' ),
        ( '.?x',	'€x' ),
]:
    t,n,st,f			= run( cpppo.regex( initial=rx, context='r', terminal=True ), text )
    ref				= st.tounicode() if st is not None else ''
    print( "regex      ( %-9r ) on %-6r: terminal=%-5s sent=%d stored=%r" % ( rx, text, t, n, ref ))
    assert t, "the str machine is the reference and accepts"
    want			= ref.encode( 'utf-8' )
    tb,nb,sb,fb			= run( cpppo.regex_bytes( initial=rx, context='r', terminal=True ), text.encode( 'utf-8' ))
    sb				= sb.tobytes() if sb is not None else b''
    print( "regex_bytes( %-9r ) on %-6r: terminal=%-5s sent=%d stored=%r %s" % ( rx, text, tb, nb, sb, "NonTerminal" if fb else "" ))
    if not tb or nb != len( want ) or sb != want:
        bad.append( "regex_bytes( %r ) on %r: observed sent=%d stored=%r accepted=%s%s; expected sent=%d stored=%r accepted=True" % (
            rx, text, nb, sb, bool( tb ), " (NonTerminal)" if fb else "", len( want ), want ))
if bad:
    print( "CONTRADICTION:\n  " + "\n  ".join( bad ))
    sys.exit( 1 )
print( "OK" )
