"""C19 defect 1 (unchanged code): poller.forget( address ) of an address nobody ever requested CREATES the entry
( plc.py poller._forget: self._data[address] = None ), so the Modbus poller starts polling that register -- and, with
the default reach of 100, stretches a merged range over all the registers between it and its neighbours.  The
polled ranges then contain registers that are not within reach of any register requested through poll()/read().
Expected: forgetting an unknown address is a no-op ( only clear entries that exist )."""
import sys, time, logging
from pymodbus.pdu.register_message import ReadHoldingRegistersResponse
from cpppo.remote.plc_modbus import poller_modbus
from cpppo.remote.pymodbus_fixes import modbus_client_tcp

logging.disable( logging.CRITICAL )

class fake_plc( modbus_client_tcp ):
    def __init__( self ):
        super( fake_plc, self ).__init__( host='localhost', port=1 )
        self.reads		= []
    def connect( self ):
        return True
    def execute( self, no_response_expected, request ):
        self.reads.append( (request.address, request.count) )
        return ReadHoldingRegistersResponse( registers=[ 7 ] * request.count )

client				= fake_plc()
plc				= poller_modbus( "defect PLC", client=client, rate=.05 ) # default reach=100
try:
    plc.poll( 40001 )
    plc.forget( 40090 )			# never requested; eg. a clean-up pass over a superset of addresses
    start			= plc.counter
    end				= time.time() + 10
    while plc.counter < start + 3 and time.time() < end:
        time.sleep( .02 )
    polled			= set()
    for off,cnt in client.reads:
        polled.update( range( 40001 + off, 40001 + off + cnt ))
finally:
    plc.done			= True
    plc.join( 5 )

requested			= { 40001 }
extra				= sorted( polled - requested )
print( "requested via poll(): %r; ranges read from the PLC: %r" % ( sorted( requested ), sorted( set( client.reads ))))
if extra:
    print( "OBSERVED: %d registers polled that nobody requested: %d..%d; forget( 40090 ) stored: %r" % (
        len( extra ), extra[0], extra[-1], plc._data.get( 40090 )))
    print( "EXPECTED: only (40001,1) is polled; forget() of an unknown address does not create it" )
    sys.exit( 1 )
print( "OK" )
