"""ListServices reply: the Communications item's Name of Service is a 16-octet NUL padded field
( CIP Vol 2, ListServices reply item: version UINT, capability UINT, name USINT[16] ).  cpppo's item
parser consumes the text and ONE NUL; the remaining pad stays in the stream, so a reply with a second
item behind a 16-octet name cannot be parsed ( and communications_service.produce itself emits the
name + one NUL instead of the 16-octet field )."""
import struct, sys
import cpppo
from cpppo.server.enip import parser

def item( name, version=1, capability=0x0120 ):
    body		= struct.pack( '<HH', version, capability ) + name.encode( 'ascii' ).ljust( 16, b'\0' )
    return struct.pack( '<HH', 0x0100, len( body )) + body

cpf			= struct.pack( '<H', 2 ) + item( 'Communications' ) + item( 'Other' )
data			= cpppo.dotdict()
problems		= []
try:
    with parser.CPF( terminal=True ) as machine:
        for m,s in machine.run( source=cpppo.peekable( cpf ), data=data ):
            pass
        assert machine.terminal, "CPF not terminal"
    names		= [ i.communications_service.service_name for i in data.CPF.item ]
    if names != [ 'Communications', 'Other' ]:
        problems.append( "parsed service names %r, expected ['Communications', 'Other']" % ( names, ))
except Exception as exc:
    problems.append( "two Communications items with 16-octet names: parser raised %r; expected both items parsed" % ( exc, ))

got			= parser.communications_service.produce(
    cpppo.dotdict( version=1, capability=0x0120, service_name='Communications' ))
expect			= struct.pack( '<HH', 1, 0x0120 ) + b'Communications\0\0'
if got != expect:
    # reported, but not counted: the upstream suite ( test_enip_listservices ) pins this form
    print( "note: produced %r, the layout ( 16-octet name ) says %r" % ( got, expect ))

if problems:
    for p in problems:
        print( p )
    sys.exit( 1 )
print( "OK" )
