"""An empty text in the NUL terminated / NUL padded text fields of the ListServices Communications item
( service_name ) and of the Legacy 0x0001 item ( ip_address ): the producers encode it ( just the NUL(s) ),
the parsers refuse the bytes so produced ( NonTerminal: the greedy '[^\\x00]*' text machine never becomes
terminal when it matches no symbol )."""
import sys
import cpppo
from cpppo.server.enip import parser

def roundtrip( cls, record, field ):
    octets		= cls.produce( cpppo.dotdict( record ))
    data		= cpppo.dotdict()
    with cls( terminal=True ) as machine:
        for m,s in machine.run( source=cpppo.peekable( octets ), data=data ):
            pass
        assert machine.terminal, "not terminal"
    return octets,data[cls.__name__][field]

problems		= []
for cls,record,field in (
        ( parser.communications_service, dict( version=1, capability=0x20, service_name='' ), 'service_name' ),
        ( parser.legacy_CPF_0x0001, dict( sin_family=2, sin_port=44818, sin_addr='10.0.0.1', ip_address='' ), 'ip_address' ),
        # the same records with a one symbol text, for comparison, must (and do) work
        ( parser.communications_service, dict( version=1, capability=0x20, service_name='A' ), 'service_name' ),
        ( parser.legacy_CPF_0x0001, dict( sin_family=2, sin_port=44818, sin_addr='10.0.0.1', ip_address='1' ), 'ip_address' ),
):
    try:
        octets,value	= roundtrip( cls, record, field )
        if value != record[field]:
            problems.append( "%s %s=%r: parsed back %r" % ( cls.__name__, field, record[field], value ))
    except Exception as exc:
        problems.append( "%s %s=%r: produced %r, but parsing it raised %r; expected %s == %r" % (
            cls.__name__, field, record[field], cls.produce( cpppo.dotdict( record )), exc, field, record[field] ))

if problems:
    for p in problems:
        print( p )
    sys.exit( 1 )
print( "OK" )
