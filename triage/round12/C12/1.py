"""Set Attribute Single of negative SINT values: 'S=-1,2,3,4' / 'S=(SINT)-1,2,3,4' are accepted by
parse_operations / attribute_operations (SINT validator admits -128..255, and SINT is attribute_operations'
default int_type), but client.set_attribute_single (and client.service_code) pass SINT data through
unconverted and the request producer then packs it as USINT: struct.error out of connector.operate, no
result for any operation of the list.  Expected: one result per operation, the attribute holding 0xFF,2,3,4.
"""
import os, sys
sys.path.insert( 0, os.path.dirname( os.path.abspath( __file__ )))
from _common import *
from cpppo.server.enip.get_attribute import attribute_operations

PORT = 44818
control = start( PORT, ['S=SINT[4]', 'D=DINT'] )
bad = []
try:
    for tags in ( ['D=(DINT)-1', 'D'], ['S=(SINT)-1,2,3,4', 'S'], ['S=-128,2,3,4', 'S'] ):
        for multiple in ( 0, 500 ):
            with client.connector( 'localhost', PORT, timeout=5 ) as conn:
                try:
                    got = [ (sts, val) for idx,dsc,req,rpy,sts,val in conn.operate(
                        attribute_operations( tags ), multiple=multiple, timeout=5 ) ]
                except Exception as exc:
                    got = "%s: %s" % ( type( exc ).__name__, exc )
            print( "%-24r multiple=%3d: %r" % ( tags, multiple, got ))
            if not ( isinstance( got, list ) and len( got ) == 2 and got[0] == (0, True) and got[1][0] == 0 ):
                bad.append( "%r multiple=%d: observed %r; expected 2 results [(0, True), (0, [<the octets written>])]" % (
                    tags, multiple, got ))
finally:
    control['done'] = True
if bad:
    print( "CONTRADICTION:\n" + "\n".join( bad ))
    sys.exit( 1 )
print( "OK" )
