import sys, time, threading, socket, logging
import cpppo
from cpppo import apidict
from cpppo.server import enip
from cpppo.server.enip import client
from cpppo.server.enip.main import main as enip_main

logging.getLogger().setLevel( logging.CRITICAL )

def start( port, tags ):
    control = apidict( enip.timeout, {'done': False} )
    srv = threading.Thread( target=enip_main, kwargs=dict(
        argv=['--address', 'localhost:%d' % port] + list( tags ), server={'control': control} ))
    srv.daemon = True
    srv.start()
    for _ in range( 100 ):
        try:
            socket.create_connection( ('localhost', port), timeout=1 ).close()
            break
        except Exception:
            time.sleep( .1 )
    return control
