"""client.CIP_TYPES validators admit the unsigned range for the signed types ("all provided values will fit
legitimately into the data type without loss"): 'I[0]=(INT)65535', 'S[0]=(SINT)200', 'D[0]=(DINT)4294967295'
pass parse_operations.  Issuing them raises struct.error from the request producer inside connector.operate,
so NO operation of the list gets a result (the well-formed neighbours neither).  Expected: either
parse_operations refuses the value (its own range assertion), or the list yields one result per operation.
"""
import os, sys
sys.path.insert( 0, os.path.dirname( os.path.abspath( __file__ )))
from _common import *

PORT = 44818
control = start( PORT, ['I=INT[4]', 'S=SINT[4]', 'D=DINT[4]'] )
bad = []
try:
    for tags in ( ['I[1]=(INT)7', 'I[0]=(INT)65535', 'I[0-1]'],
                  ['S[1]=(SINT)7', 'S[0]=(SINT)200', 'S[0-1]'],
                  ['D[1]=(DINT)7', 'D[0]=(DINT)4294967295', 'D[0-1]'] ):
        try:
            ops = list( client.parse_operations( tags ))
        except AssertionError as exc:
            print( "%r refused by parse_operations: %s" % ( tags, exc ))
            continue # refused up front: fine
        for depth,multiple in ( (0,0), (2,0), (0,500) ):
            with client.connector( 'localhost', PORT, timeout=5 ) as conn:
                try:
                    got = [ (sts, val) for idx,dsc,req,rpy,sts,val in conn.operate(
                        [ dict( o ) for o in ops ], depth=depth, multiple=multiple, timeout=5 ) ]
                except Exception as exc:
                    got = "%s: %s" % ( type( exc ).__name__, exc )
            print( "%r depth=%d multiple=%3d: %r" % ( tags, depth, multiple, got ))
            if not ( isinstance( got, list ) and len( got ) == len( tags )):
                bad.append( "%r depth=%d multiple=%d: accepted by parse_operations, but operate gave %r; expected %d results" % (
                    tags, depth, multiple, got, len( tags )))
finally:
    control['done'] = True
if bad:
    print( "CONTRADICTION:\n" + "\n".join( bad ))
    sys.exit( 1 )
print( "OK" )
