"""A connected request on a connection that does not exist ( never opened, or closed by Forward Close ) must not be served,
and a Forward Close naming a connection that does not exist fails with status 0x01, extended 0x0107 ( Vol 1, Table 3-5.29 )."""
import subprocess, sys, time, socket, struct

PORT = 44818
srv = subprocess.Popen( [ sys.executable, '-m', 'cpppo.server.enip', '-a', 'localhost:%d' % PORT, 'A=DINT[10]' ],
                        stdout=subprocess.PIPE, stderr=subprocess.STDOUT )
failures = []
def connect():
    for i in range( 150 ):
        try:
            return socket.create_connection( ('127.0.0.1', PORT), timeout=3 )
        except Exception:
            time.sleep( .1 )
    raise SystemExit( "simulator did not start" )
def hdr( cmd, payload=b'', sess=0, ctx=b'C14defct' ):
    return struct.pack( '<HHII8sI', cmd, len( payload ), sess, 0, ctx, 0 ) + payload
def rx( s ):
    """-> (command,session,status,payload), or None if nothing arrives / the connection is closed"""
    try:
        h = b''
        while len( h ) < 24:
            d = s.recv( 24 - len( h ))
            if not d:
                return None
            h += d
        cmd,ln,sess,st,ctx,opt = struct.unpack( '<HHII8sI', h )
        p = b''
        while len( p ) < ln:
            p += s.recv( ln - len( p ))
        return cmd,sess,st,p
    except socket.error:
        return None
def register( s ):
    s.sendall( hdr( 0x65, struct.pack( '<HH', 1, 0 )))
    cmd,sess,st,p = rx( s )
    assert cmd == 0x65 and st == 0 and sess, "Register Session failed"
    return sess
def rr( s, sess, cip ):
    s.sendall( hdr( 0x6f, struct.pack( '<IHHHHHH', 0, 10, 2, 0, 0, 0xb2, len( cip )) + cip, sess ))
    return rx( s )
def unit( s, sess, cid, seq, cip ):
    s.sendall( hdr( 0x70, struct.pack( '<IHHHHIHHH', 0, 0, 2, 0xa1, 4, cid, 0xb1, len( cip ) + 2, seq ) + cip, sess ))
    return rx( s )
def forward_open( serial=0x4242, toid=0x71000001, otid=0x20000002 ):
    return ( bytes( [0x54, 2, 0x20, 6, 0x24, 1, 0x0a, 0x0e] )
             + struct.pack( '<IIHHIB3x', otid, toid, serial, 0x1337, 42, 3 )
             + struct.pack( '<IHIH', 0x00201234, 0x43f4, 0x00204001, 0x43f4 )
             + bytes( [0xa3, 3, 0x01, 0x00, 0x20, 0x02, 0x24, 0x01] ))
def forward_close( serial=0x4242 ):
    return ( bytes( [0x4e, 2, 0x20, 6, 0x24, 1, 0x0a, 0x0e] ) + struct.pack( '<HHI', serial, 0x1337, 42 )
             + bytes( [3, 0, 0x01, 0x00, 0x20, 0x02, 0x24, 0x01] ))
READ = bytes( [0x4c, 2, 0x91, 1, ord( 'A' ), 0, 1, 0] )
def finish( ok ):
    srv.terminate(); srv.communicate()
    if failures:
        print( "CONTRADICTION:\n  " + "\n  ".join( failures ))
        sys.exit( 1 )
    print( "OK: " + ok )
    sys.exit( 0 )
try:
    s = connect(); sess = register( s )
    s.settimeout( 1.5 )
    r = unit( s, sess, 0xdeadbeef, 1, READ )
    if r is not None and r[2] == 0 and r[3][22:24] == b'\xcc\x00' and r[3][24] == 0:
        failures.append( "connected read on never-opened connection 0xdeadbeef was served: %s; expected no reply / an error" % r[3][22:].hex() )
    s.close()
    s = connect(); sess = register( s ); s.settimeout( 1.5 )
    cmd,_,st,p = rr( s, sess, forward_open() )
    otid, = struct.unpack_from( '<I', p, 20 )
    cmd,_,st,p = rr( s, sess, forward_close() )
    assert p[16] == 0xce and p[18] == 0, "Forward Close failed"
    r = unit( s, sess, otid, 2, READ )
    if r is not None and r[2] == 0 and r[3][22:24] == b'\xcc\x00' and r[3][24] == 0:
        failures.append( "connected read after Forward Close of its connection was served: %s; expected no reply / an error" % r[3][22:].hex() )
    s.close()
    s = connect(); sess = register( s ); s.settimeout( 1.5 )
    r = rr( s, sess, forward_close( serial=0x7777 ))
    if r is not None and r[3][16] == 0xce and r[3][18] == 0:
        failures.append( "Forward Close of unknown connection serial 0x7777 answered success: %s; expected status 0x01 ext 0x0107" % r[3][16:].hex() )
finally:
    finish( "requests on non-existent connections are not served" )
