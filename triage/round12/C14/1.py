"""Connected ( SendUnitData ) reply: the Connected Address Item must carry the T->O connection ID.
CIP Vol 2, 2-6.2.2 / 3-2: the connection identifier of a connected message is that of the connection the message is SENT on:
O->T ID in the request, T->O ID ( chosen by the originator for a point-to-point connection ) in the reply."""
import subprocess, sys, time, socket, struct

PORT = 44818
srv = subprocess.Popen( [ sys.executable, '-m', 'cpppo.server.enip', '-a', 'localhost:%d' % PORT, 'A=DINT[10]' ],
                        stdout=subprocess.PIPE, stderr=subprocess.STDOUT )
failures = []
def connect():
    for i in range( 150 ):
        try:
            return socket.create_connection( ('127.0.0.1', PORT), timeout=3 )
        except Exception:
            time.sleep( .1 )
    raise SystemExit( "simulator did not start" )
def hdr( cmd, payload=b'', sess=0, ctx=b'C14defct' ):
    return struct.pack( '<HHII8sI', cmd, len( payload ), sess, 0, ctx, 0 ) + payload
def rx( s ):
    """-> (command,session,status,payload), or None if nothing arrives / the connection is closed"""
    try:
        h = b''
        while len( h ) < 24:
            d = s.recv( 24 - len( h ))
            if not d:
                return None
            h += d
        cmd,ln,sess,st,ctx,opt = struct.unpack( '<HHII8sI', h )
        p = b''
        while len( p ) < ln:
            p += s.recv( ln - len( p ))
        return cmd,sess,st,p
    except socket.error:
        return None
def register( s ):
    s.sendall( hdr( 0x65, struct.pack( '<HH', 1, 0 )))
    cmd,sess,st,p = rx( s )
    assert cmd == 0x65 and st == 0 and sess, "Register Session failed"
    return sess
def rr( s, sess, cip ):
    s.sendall( hdr( 0x6f, struct.pack( '<IHHHHHH', 0, 10, 2, 0, 0, 0xb2, len( cip )) + cip, sess ))
    return rx( s )
def unit( s, sess, cid, seq, cip ):
    s.sendall( hdr( 0x70, struct.pack( '<IHHHHIHHH', 0, 0, 2, 0xa1, 4, cid, 0xb1, len( cip ) + 2, seq ) + cip, sess ))
    return rx( s )
def forward_open( serial=0x4242, toid=0x71000001, otid=0x20000002 ):
    return ( bytes( [0x54, 2, 0x20, 6, 0x24, 1, 0x0a, 0x0e] )
             + struct.pack( '<IIHHIB3x', otid, toid, serial, 0x1337, 42, 3 )
             + struct.pack( '<IHIH', 0x00201234, 0x43f4, 0x00204001, 0x43f4 )
             + bytes( [0xa3, 3, 0x01, 0x00, 0x20, 0x02, 0x24, 0x01] ))
def forward_close( serial=0x4242 ):
    return ( bytes( [0x4e, 2, 0x20, 6, 0x24, 1, 0x0a, 0x0e] ) + struct.pack( '<HHI', serial, 0x1337, 42 )
             + bytes( [3, 0, 0x01, 0x00, 0x20, 0x02, 0x24, 0x01] ))
READ = bytes( [0x4c, 2, 0x91, 1, ord( 'A' ), 0, 1, 0] )
def finish( ok ):
    srv.terminate(); srv.communicate()
    if failures:
        print( "CONTRADICTION:\n  " + "\n  ".join( failures ))
        sys.exit( 1 )
    print( "OK: " + ok )
    sys.exit( 0 )
try:
    s = connect(); sess = register( s )
    cmd,_,st,p = rr( s, sess, forward_open( toid=0x71000001 ))
    rpy = p[16:]
    assert rpy[0] == 0xd4 and rpy[2] == 0, "Forward Open failed: %s" % rpy.hex()
    otid,toid = struct.unpack_from( '<II', rpy, 4 )
    assert toid == 0x71000001, "Forward Open reply does not echo the T->O ID"
    cmd,_,st,p = unit( s, sess, otid, 1, READ )
    cnt,typ,ln,cid = struct.unpack_from( '<HHHI', p, 6 )
    assert ( cnt,typ,ln ) == ( 2, 0xa1, 4 ), "no Connected Address Item in reply: %s" % p.hex()
    if cid != toid:
        failures.append( "Connected Address Item of the reply carries 0x%08x ( the O->T ID 0x%08x of the request ); expected the T->O ID 0x%08x" % (
            cid, otid, toid ))
finally:
    finish( "reply is addressed with the T->O connection ID" )
