"""Register Session with an unsupported protocol version must be refused: CIP Vol 2, 2-4.4: the target replies with
encapsulation status 0x0069 ( unsupported protocol revision ), no session is created ( handle 0 ); it must not echo the
unsupported version as if it spoke it.  Likewise non-zero option flags are not supported ( none are defined )."""
import subprocess, sys, time, socket, struct

PORT = 44818
srv = subprocess.Popen( [ sys.executable, '-m', 'cpppo.server.enip', '-a', 'localhost:%d' % PORT, 'A=DINT[10]' ],
                        stdout=subprocess.PIPE, stderr=subprocess.STDOUT )
failures = []
def connect():
    for i in range( 150 ):
        try:
            return socket.create_connection( ('127.0.0.1', PORT), timeout=3 )
        except Exception:
            time.sleep( .1 )
    raise SystemExit( "simulator did not start" )
def hdr( cmd, payload=b'', sess=0, ctx=b'C14defct' ):
    return struct.pack( '<HHII8sI', cmd, len( payload ), sess, 0, ctx, 0 ) + payload
def rx( s ):
    """-> (command,session,status,payload), or None if nothing arrives / the connection is closed"""
    try:
        h = b''
        while len( h ) < 24:
            d = s.recv( 24 - len( h ))
            if not d:
                return None
            h += d
        cmd,ln,sess,st,ctx,opt = struct.unpack( '<HHII8sI', h )
        p = b''
        while len( p ) < ln:
            p += s.recv( ln - len( p ))
        return cmd,sess,st,p
    except socket.error:
        return None
def register( s ):
    s.sendall( hdr( 0x65, struct.pack( '<HH', 1, 0 )))
    cmd,sess,st,p = rx( s )
    assert cmd == 0x65 and st == 0 and sess, "Register Session failed"
    return sess
def rr( s, sess, cip ):
    s.sendall( hdr( 0x6f, struct.pack( '<IHHHHHH', 0, 10, 2, 0, 0, 0xb2, len( cip )) + cip, sess ))
    return rx( s )
def unit( s, sess, cid, seq, cip ):
    s.sendall( hdr( 0x70, struct.pack( '<IHHHHIHHH', 0, 0, 2, 0xa1, 4, cid, 0xb1, len( cip ) + 2, seq ) + cip, sess ))
    return rx( s )
def forward_open( serial=0x4242, toid=0x71000001, otid=0x20000002 ):
    return ( bytes( [0x54, 2, 0x20, 6, 0x24, 1, 0x0a, 0x0e] )
             + struct.pack( '<IIHHIB3x', otid, toid, serial, 0x1337, 42, 3 )
             + struct.pack( '<IHIH', 0x00201234, 0x43f4, 0x00204001, 0x43f4 )
             + bytes( [0xa3, 3, 0x01, 0x00, 0x20, 0x02, 0x24, 0x01] ))
def forward_close( serial=0x4242 ):
    return ( bytes( [0x4e, 2, 0x20, 6, 0x24, 1, 0x0a, 0x0e] ) + struct.pack( '<HHI', serial, 0x1337, 42 )
             + bytes( [3, 0, 0x01, 0x00, 0x20, 0x02, 0x24, 0x01] ))
READ = bytes( [0x4c, 2, 0x91, 1, ord( 'A' ), 0, 1, 0] )
def finish( ok ):
    srv.terminate(); srv.communicate()
    if failures:
        print( "CONTRADICTION:\n  " + "\n  ".join( failures ))
        sys.exit( 1 )
    print( "OK: " + ok )
    sys.exit( 0 )
try:
    for ver,opt in ( (2,0), (0,0), (1,0x8000) ):
        s = connect()
        s.sendall( hdr( 0x65, struct.pack( '<HH', ver, opt )))
        r = rx( s )
        if r is None:
            continue						# dropping the connection refuses it, too
        cmd,sess,st,p = r
        if st == 0:
            failures.append( "Register Session version %d options 0x%04x: status 0 and session handle 0x%08x, reply data %s; expected a non-zero status ( 0x69 for the version ) and no session" % (
                ver, opt, sess, p.hex() ))
        s.close()
finally:
    finish( "unsupported Register Session parameters are refused" )
