import sys, logging
import cpppo
from cpppo.server.enip import device, logix, parser
logging.basicConfig( level=logging.ERROR )

def reset():
    device.lookup_reset()
    logix.setup.ucmm = None

def mktags( specs ):
    """specs: ( name, type class, size, default, '@c/i/a' or None ); like main() builds its tags"""
    tags = cpppo.dotdict()
    made = {}
    for name,cls,size,dflt,addr in specs:
        path = attribute = None
        if addr:
            path = {'segment': device.parse_path( addr )}
            key = device.resolve( path, attribute=True )
            attribute = made.get( key )
        if attribute is None:
            attribute = device.Attribute( name, cls, default=dflt if size == 1 else [dflt] * size )
            if addr:
                made[key] = attribute
        te = cpppo.dotdict()
        te.attribute = attribute
        te.path = path
        te.error = 0
        dict.__setitem__( tags, name, te )
    return tags

def rpc( req ):
    MR = device.lookup( 0x02, 1 )
    req = cpppo.dotdict( req )
    encoded = MR.produce( req )
    decoded = cpppo.dotdict()
    with MR.parser as machine:
        for m,s in machine.run( source=cpppo.rememberable( encoded ), data=decoded ):
            pass
    MR.request( decoded )
    reply = cpppo.dotdict()
    with MR.parser as machine:
        for m,s in machine.run( source=cpppo.rememberable( bytes( decoded.input )), data=reply ):
            pass
    return reply

def sym( name, elm=None ):
    segs = [ {'symbolic': s} for s in name.split( '.' ) ]
    if elm is not None:
        segs.append( {'element': elm} )
    return {'segment': segs}

def num( c, i, a=None, elm=None ):
    segs = [ {'class': c}, {'instance': i} ]
    if a is not None:
        segs.append( {'attribute': a} )
    if elm is not None:
        segs.append( {'element': elm} )
    return {'segment': segs}
