"""Set Attribute Single on an SSTRING / STRING tag is refused ( 0x08 ) whatever data it carries, while Get
Attribute Single, Read Tag and Write Tag of the same tag work: Object.request computes the expected size
from the estimate struct_calcsize == 80 and then uses parser.struct_format, which these types don't have."""
import os, sys
sys.path.insert( 0, os.path.dirname( os.path.abspath( __file__ )))
from common import *
P = parser
reset()
logix.setup( tags=mktags( [ ( 'S', P.SSTRING, 1, '', None ), ( 'T', P.STRING, 2, '', '@0x99/1/1' ) ] ))
bad = []
for name,cls,vals in ( ( 'S', P.SSTRING, ['Hello'] ), ( 'T', P.STRING, ['abc', 'de'] ) ):
    raw = b''.join( cls.produce( v ) for v in vals )
    s = rpc( {'path': sym( name ), 'set_attribute_single': {'data': list( bytearray( raw ))}} )
    r = rpc( {'path': sym( name ), 'read_tag': {'elements': len( vals )}} )
    if s.status != 0 or r.read_tag.data != vals:
        bad.append( "Set Attribute Single %s <= %r: status 0x%02x, Read Tag then returns %r; expected 0x00 and %r" % (
            name, raw, s.status, r.read_tag.data, vals ))
    # control: the same octets come back from Get Attribute Single after a Write Tag
    w = rpc( {'path': sym( name ), 'write_tag': {'elements': len( vals ), 'type': cls.tag_type, 'data': vals}} )
    g = rpc( {'path': sym( name ), 'get_attribute_single': True} )
    assert w.status == 0 and bytes( bytearray( g.get_attribute_single.data )) == raw, "control failed"
if bad:
    print( "CONTRADICTION:\n  " + "\n  ".join( bad ))
    sys.exit( 1 )
print( "OK" )
