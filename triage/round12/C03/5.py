"""logix.setup is run with the tags table for every request ( "If it's error code doesn't match, change
it" ): setting tags.<name>.error makes the tag fail with that code - but setting it back to 0 never clears
Attribute.error ( setup_tag only assigns a truthy code ), so the tag stays unreadable.  In addition the
Write Tag that is answered with the error code 0x10 has stored its data."""
import os, sys
sys.path.insert( 0, os.path.dirname( os.path.abspath( __file__ )))
from common import *
P = parser
reset()
tags = mktags( [ ( 'E', P.INT, 2, 0, None ) ] )
logix.setup( tags=tags )
assert rpc( {'path': sym( 'E' ), 'read_tag': {'elements': 2}} ).status == 0
tags['E'].error = 0x10                  # as the web API / the application may do at run time
logix.setup( tags=tags )
w = rpc( {'path': sym( 'E' ), 'write_tag': {'elements': 2, 'type': P.INT.tag_type, 'data': [5, 6]}} )
stored = list( device.lookup( *device.resolve_tag( 'E' )).value )
tags['E'].error = 0x00
logix.setup( tags=tags )
r = rpc( {'path': sym( 'E' ), 'read_tag': {'elements': 2}} )
bad = []
if w.status != 0 and stored != [0, 0]:
    bad.append( "Write Tag E answered status 0x%02x but the tag now holds %r; expected [0, 0] after a refused write" % ( w.status, stored ))
if r.status != 0:
    bad.append( "after tags.E.error was set back to 0 Read Tag E is answered 0x%02x; expected 0x00" % r.status )
if bad:
    print( "CONTRADICTION:\n  " + "\n  ".join( bad ))
    sys.exit( 1 )
print( "OK" )
