"""Class attribute 2 ( Max Instance ) of a class created for a tag address reports the Message Router
class's max_instance: the class made on the fly by logix.setup_tag derives from the Message Router's class
and inherits its max_instance unless one of its own instances exceeds it.  'M@2/7/1=INT Q@0x99/3/1=INT':
Get Attribute Single @0x99/0/2 returns 7; the largest instance of class 0x99 is 3."""
import os, sys, struct
sys.path.insert( 0, os.path.dirname( os.path.abspath( __file__ )))
from common import *
P = parser
reset()
logix.setup( tags=mktags( [ ( 'M', P.INT, 1, 0, '@2/7/1' ), ( 'Q', P.INT, 1, 0, '@0x99/3/1' ) ] ))
r = rpc( {'path': num( 0x99, 0, 2 ), 'get_attribute_single': True} )
mx, = struct.unpack( '<h', bytes( bytearray( r.get_attribute_single.data )))
r = rpc( {'path': num( 0x99, 0, 3 ), 'get_attribute_single': True} )
nm, = struct.unpack( '<h', bytes( bytearray( r.get_attribute_single.data )))
if mx != 3 or nm != 1:
    print( "CONTRADICTION: class 0x99 holds the one instance 3; Max Instance reads %d, Num Instances %d; expected 3 and 1" % ( mx, nm ))
    sys.exit( 1 )
print( "OK" )
