"""main( attribute_kwds={'type_cls': REAL}, argv=[ 'T' ] ): "If no type is provided, defaults to CIP INT (or,
whatever type_cls is specified in attribute_kwds)".  The scalar tag T becomes a REAL Attribute whose default
is still INT's 0 ( an int ), and the Attribute value setter converts with type( default ): Write Tag T = 1.5 is
answered 0x00 and T then reads 1.0.  ( The array form T=INT[2] under the same keywords keeps 1.5. )"""
import os, sys
sys.path.insert( 0, os.path.dirname( os.path.abspath( __file__ )))
from common import *
from cpppo.server import network
from cpppo.server.enip import main as enip_main_mod
P = parser

def run_main( argv, **kw ):
    reset()
    dict.clear( enip_main_mod.tags )
    ctl = cpppo.dotdict( {'control': cpppo.apidict( 1.0, {'done': False} )} )
    def stub( address=None, target=None, kwargs=None, **kwds ):
        logix.setup( **kwargs )
        kwargs['server']['control']['done'] = True
    orig = network.server_main
    network.server_main = stub
    try:
        enip_main_mod.main( argv=['--no-config', '-a', 'localhost:0'] + argv, server=ctl, **kw )
    finally:
        network.server_main = orig

run_main( ['T'], attribute_kwds={'type_cls': P.REAL} )
w = rpc( {'path': sym( 'T' ), 'write_tag': {'elements': 1, 'type': P.REAL.tag_type, 'data': [1.5]}} )
r = rpc( {'path': sym( 'T' ), 'read_tag': {'elements': 1}} )
if r.read_tag.type != P.REAL.tag_type or w.status != 0 or r.read_tag.data != [1.5]:
    print( "CONTRADICTION: REAL tag T: Write Tag 1.5 status 0x%02x, Read Tag returns type 0x%02x data %r; expected [1.5]" % (
        w.status, r.read_tag.type, r.read_tag.data ))
    sys.exit( 1 )
print( "OK" )
