"""main()'s tag list 'A=INT[4] B@2/1/1=INT[4]' configures two distinct tags; A is auto-allocated in the
Message Router as attribute 1 and B is then bound to the very same @2/1/1: a write to A changes B.
Expected: a write changes only the addressed tag ( the allocation should avoid explicitly bound addresses,
or the configuration should be refused )."""
import os, sys
sys.path.insert( 0, os.path.dirname( os.path.abspath( __file__ )))
from common import *
from cpppo.server import network
from cpppo.server.enip import main as enip_main_mod
P = parser

def run_main( argv ):
    """main()'s own argument handling and tag creation, then logix.setup as the first request would do"""
    reset()
    dict.clear( enip_main_mod.tags )
    ctl = cpppo.dotdict( {'control': cpppo.apidict( 1.0, {'done': False} )} )
    def stub( address=None, target=None, kwargs=None, **kwds ):
        logix.setup( **kwargs )
        kwargs['server']['control']['done'] = True
    orig = network.server_main
    network.server_main = stub
    try:
        enip_main_mod.main( argv=['--no-config', '-a', 'localhost:0'] + argv, server=ctl )
    finally:
        network.server_main = orig

try:
    run_main( ['A=INT[4]', 'B@2/1/1=INT[4]'] )
except AssertionError as exc:
    print( "OK: configuration refused: %s" % exc )
    sys.exit( 0 )
a = device.resolve_tag( 'A' )
b = device.resolve_tag( 'B' )
w = rpc( {'path': sym( 'A', 1 ), 'write_tag': {'elements': 2, 'type': P.INT.tag_type, 'data': [7, 8]}} )
assert w.status == 0
r = rpc( {'path': sym( 'B' ), 'read_tag': {'elements': 4}} )
if a == b or r.read_tag.data != [0,0,0,0]:
    print( "CONTRADICTION: tags A and B of 'A=INT[4] B@2/1/1=INT[4]' resolve to %r and %r; after Write Tag A[1-2]=7,8 "
           "Read Tag B returns %r; expected [0, 0, 0, 0] ( B never written )" % ( a, b, r.read_tag.data ))
    sys.exit( 1 )
print( "OK" )
