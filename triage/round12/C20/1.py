"""tnetraw.tnet_from ( the "simplest possible" streaming tnetstring parser, selectable in tnet_test.py in place of
tnet.tnet_from ) must extract the same payloads as tnetstrings.parse whatever the chunking.  With a `latency`
( or a `timeout` that has not yet expired ) a payload that arrives in two blocks with a pause between them makes
`payload += c` run with c == None: TypeError instead of the payload."""
import socket
import sys
import threading
import time

from cpppo.server import tnetraw, tnetstrings

def receive( blocks, pause, **kwds ):
    cli,srv			= socket.socketpair()
    def feed():
        for b in blocks:
            cli.sendall( b )
            time.sleep( pause )
        cli.shutdown( socket.SHUT_WR )
    thr				= threading.Thread( target=feed )
    thr.daemon			= True
    thr.start()
    got				= []
    try:
        for msg in tnetraw.tnet_from( srv, ('demo', 0), **kwds ):
            if msg is not None:			# None: nothing within the timeout
                got.append( msg )
    except Exception as exc:
        got.append( "<<raised %r>>" % ( exc, ))
    thr.join()
    cli.close()
    srv.close()
    return got

values				= [ b'hello world', u'text', 42 ]
tns				= b''.join( tnetstrings.dump( v ) for v in values )
failed				= []
for kwds in ( dict( latency=0.05 ), dict( timeout=5.0, latency=0.05 ), dict( timeout=0.05 )):
    for blocks in ( [ tns ], [ tns[:6], tns[6:] ], [ tns[:1], tns[1:3], tns[3:9], tns[9:] ] ):
        got			= receive( blocks, pause=0.25, **kwds )
        if got != values:
            failed.append( "tnetraw.tnet_from( %s ) fed %r:\n    expected %r\n    observed %r" % (
                ', '.join( '%s=%r' % kv for kv in sorted( kwds.items() )), blocks, values, got ))
for f in failed:
    print( f )
if failed:
    sys.exit( 1 )
print( "all chunkings delivered %r" % ( values, ))
