"""tnetraw.tnet_from must end at EOF ( tnet.tnet_from does ).  When the peer closes in the middle of a payload
the harvesting loop adds the b'' it received to the payload, resets c to None and receives again - forever, at
full CPU speed: `if ... c == b'': return # done/EOF` behind the loop is never reached."""
import socket
import sys
import threading
import time

from cpppo.server import tnetraw

cli,srv				= socket.socketpair()
control				= dict( done=False )
got				= []
def serve():
    try:
        for msg in tnetraw.tnet_from( srv, ('demo', 0), control=control ):
            got.append( msg )
    except Exception as exc:
        got.append( "<<raised %r>>" % ( exc, ))

thr				= threading.Thread( target=serve )
thr.daemon			= True
thr.start()
cli.sendall( b'1:a,11:hello' )				# one whole message, and one that will never be completed
cli.shutdown( socket.SHUT_WR )				# EOF in the middle of the payload
thr.join( 3.0 )
hung				= thr.is_alive()
control['done']			= True				# let the spinning loop go
thr.join( 3.0 )
cli.close()
srv.close()
if hung:
    print( "tnetraw.tnet_from fed b'1:a,11:hello' + EOF:\n"
           "    expected: yields b'a', then ends at the EOF\n"
           "    observed: yielded %r, and was still running 3s after the EOF ( it ended only with control.done )" % ( got, ))
    sys.exit( 1 )
print( "ended at EOF after %r" % ( got, ))
