"""tnetstrings.parse documents "If no encoding supplied, all character data in payload is returned as bytes", and
parse_list / parse_dict default to encoding=None - but a '$' payload is decoded with payload.decode( encoding )
unconditionally, so parse( ..., encoding=None ), parse_list( b'1:a$' ) and parse_dict( b'1:k,1:v$' ) raise
TypeError for any text element instead of returning its bytes."""
import sys
from cpppo.server import tnetstrings

cases				= [
    ( "parse( dump( u'abc' ), encoding=None )",
      lambda: tnetstrings.parse( tnetstrings.dump( u'abc' ), encoding=None ),	( b'abc', b'' )),
    ( "parse( dump( [1, u'\\u03c0'] ), encoding=None )",
      lambda: tnetstrings.parse( tnetstrings.dump( [1, u'\u03c0'] ), encoding=None ), ( [1, b'\xcf\x80'], b'' )),
    ( "parse_list( b'1:a$1:b,' )",
      lambda: tnetstrings.parse_list( b'1:a$1:b,' ),				[ b'a', b'b' ] ),
    ( "parse_dict( b'1:k,1:v$' )",
      lambda: tnetstrings.parse_dict( b'1:k,1:v$' ),				{ 'k': b'v' } ),
]
failed				= 0
for what,call,expected in cases:
    try:
        observed		= call()
    except Exception as exc:
        observed		= "<<raised %r>>" % ( exc, )
    if observed != expected:
        failed		       += 1
        print( "%s:\n    expected %r\n    observed %r" % ( what, expected, observed ))
if failed:
    sys.exit( 1 )
print( "text comes back as bytes when no encoding is given" )
