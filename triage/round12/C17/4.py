"""timestamp.LOC comes from tzlocal's get_localzone(), which ( tzlocal >= 4 / 5, no TZ variable set ) is a
zoneinfo.ZoneInfo: it has neither .localize nor .zone.  Every local time WITHOUT a zone term given to
the .local setter is therefore refused, and render( LOC, tzdetail=True ) raises AttributeError."""
import os, sys, warnings
warnings.simplefilter( 'ignore' )
os.environ.pop( 'TZ', None )		# TZ_wrapper would otherwise take a pytz( -shim ) zone from TZ
from cpppo.history.times import timestamp

bad				= []
ts				= timestamp( 1399726367.0 )
text				= ts.render( timestamp.LOC, ms=False, tzdetail=False )[:19]	# local wall clock, no zone
try:
    probe			= timestamp( 0 )
    probe.local			= text
    if abs( probe.value - ts.value ) > 0.0005:
        bad.append( ".local = %r gives %r, not %r" % ( text, probe, ts ))
except ValueError as exc:
    bad.append( ".local = %r ( LOC is %r ) refused: %r" % ( text, timestamp.LOC, exc.args[-1] ))
try:
    full			= ts.render( timestamp.LOC, tzdetail=True )
    if abs( timestamp( full ).value - ts.value ) > 0.0005:
        bad.append( "render( LOC, tzdetail=True ) = %r does not parse back" % ( full, ))
except Exception as exc:
    bad.append( "render( LOC, tzdetail=True ) raised %r" % ( exc, ))
if bad:
    print( "observed vs expected: the local zone's wall clock should be assignable / renderable with its name" )
    for b in bad:
        print( "  " + b )
    sys.exit( 1 )
print( "OK" )
