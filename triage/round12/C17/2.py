"""Second-resolution renderings ( ms=False, as used by timestamp.local ) of zones whose abbreviation or
numeric offset starts with '-' : the parser turns '-' into a separator, so ' -03' / '-0600' becomes a
7th all-digit term and is taken as the FRACTION of a UTC time.  The text parses without complaint to
an instant hours ( and some milliseconds ) away."""
import sys, warnings
warnings.simplefilter( 'ignore' )
from cpppo.history.times import timestamp

bad				= []
t				= 1783600000.0
for zone,detail in (( 'America/Sao_Paulo', None ), ( 'America/Bogota', None ), ( 'Etc/GMT+7', None ),
                    ( 'America/Edmonton', False ), ( 'America/New_York', False )):
    text			= timestamp( t ).render( zone, ms=False, tzdetail=detail )	# '2026-07-09 09:26:40 -03', '...06:26:40-0600'
    try:
        back			= timestamp( text ).value
    except ValueError:
        continue								# refusing would be acceptable
    if abs( back - t ) > 0.0005:
        bad.append( "%s: %.3f rendered as %r parses back as %.3f ( %+.3f s )" % ( zone, t, text, back, back - t ))

# the same through the .local property of a timestamp whose local zone has a numeric abbreviation
import cpppo.history.times as times
class local_timestamp( timestamp ):
    LOC				= times.pytz.timezone( 'America/Sao_Paulo' )
ts				= local_timestamp( t )
text				= ts.local
try:
    ts.local			= text
    if abs( ts.value - t ) > 0.0005:
        bad.append( "ts.local = ts.local ( %r, local zone America/Sao_Paulo ) moved the instant by %+.3f s" % ( text, ts.value - t ))
except ValueError:
    pass
if bad:
    print( "observed: rendered text parses to another instant; expected: the same instant, or a refusal" )
    for b in bad:
        print( "  " + b )
    sys.exit( 1 )
print( "OK" )
