"""Years before 1000: strftime( '%Y' ) of glibc does not pad, so the millisecond UTC rendering of
999-12-31 is '999-12-31 ...' which sorts AFTER '1000-01-01 ...' while the timestamps compare the other way."""
import sys, warnings
warnings.simplefilter( 'ignore' )
from cpppo.history.times import timestamp
a,b				= timestamp( -30610224001.0 ), timestamp( -30610223999.0 )
if ( a < b ) != ( str( a ) < str( b )):
    print( "observed: %r < %r is %s but the renderings order %s; expected: the same order ( a 4-digit year )" % (
        a, b, a < b, str( a ) < str( b )))
    sys.exit( 1 )
print( "OK" )
