"""Zones whose name contains '-' ( America/Port-au-Prince, Asia/Ust-Nera, Etc/GMT-5, US/East-Indiana ... 25
names of the tz database ) render with their full name ( tzdetail=True ) to a text the parser always
refuses: '-' is translated to a separator before the zone term is split off."""
import sys, warnings, zoneinfo
warnings.simplefilter( 'ignore' )
from cpppo.history.times import timestamp

t				= 1783600000.125
bad				= []
for zone in sorted( z for z in zoneinfo.available_timezones() if '-' in z ):
    text			= timestamp( t ).render( zone, tzdetail=True )
    try:
        back			= timestamp( text ).value
        if abs( back - t ) > 0.0005:
            bad.append( "%s: %r parses back as %.3f" % ( zone, text, back ))
    except ValueError as exc:
        bad.append( "%s: %r refused ( %r )" % ( zone, text, exc.args[-1] ))
if bad:
    print( "observed: an unambiguous instant rendered in these zones does not parse; expected: the same instant" )
    for b in bad:
        print( "  " + b )
    sys.exit( 1 )
print( "OK" )
