"""Default rendering ( tzdetail=None ) appends the zone's abbreviation ( %Z ); the parser resolves a
last term that is no known abbreviation as a time zone NAME.  'CET' and 'EET' are also tz database
zones that observe daylight-saving time, so the summer rendering of a zone that stays on CET / EET all
year ( Africa/Algiers, Africa/Tripoli, Europe/Kaliningrad ) parses back one hour off - silently."""
import sys, warnings, datetime
warnings.simplefilter( 'ignore' )
from cpppo.history.times import timestamp

bad				= []
t				= datetime.datetime( 2026, 7, 9, 12, 26, 40, 250000, tzinfo=datetime.timezone.utc ).timestamp()
for zone in ( 'Africa/Algiers', 'Africa/Tripoli', 'Europe/Kaliningrad', 'Africa/Tunis' ):
    text			= timestamp( t ).render( zone )			# eg. '2026-07-09 13:26:40.250 CET'
    try:
        back			= timestamp( text ).value
    except ValueError:
        continue								# refusing the text would be acceptable
    if abs( back - t ) > 0.0005:
        bad.append( "%s: %.3f rendered as %r parses back as %.3f ( %+.0f s )" % ( zone, t, text, back, back - t ))
if bad:
    print( "observed: rendered text parses to another instant; expected: the same instant, or a refusal" )
    for b in bad:
        print( "  " + b )
    sys.exit( 1 )
print( "OK" )
