"""Defect W (C12): format_path keeps ONE element index and appends it after the last component, so the index of a non-final component
moves to the end.  run: cd /repo/.. ; PYTHONPATH=<parent of cpppo> /venv/bin/python triage/W_c12_format_path_intermediate_index.py
exit 1 on the pinned tree (before the fix), 0 after."""
import sys
from cpppo.server.enip.client import format_path, parse_path
bad = 0
for text in [ 'Foo[1].Boo', 'Foo[1].Boo[3]', 'A[1].B[2].C[3]', 'Foo.Boo[3]', 'Foo', '@0x0004/5/6' ]:
    segs = parse_path( text )
    out = format_path( segs )
    back = parse_path( out )
    ok = back == segs
    print( '%-16s -> %-70r -> %-16r -> %s' % ( text, segs, out, 'same segments' if ok else 'DIFFERENT: %r' % back ))
    bad += not ok
sys.exit( 1 if bad else 0 )
