import sys
from cpppo.history import timestamp
bad = 0
def rt( v, zone=None, **kw ):
    global bad
    t = timestamp( v )
    try:
        s = t.render( tzinfo=zone, **kw )
        back = timestamp( s ).value
        ok = abs( back - round( v, 3 )) < 0.0005
    except Exception as exc:
        s, back, ok = '?', 'EXC %s' % type( exc ).__name__, False
    print( '%-16r %-22s -> %-40r -> %-18r %s' % ( v, zone, s, back, 'OK' if ok else 'WRONG' ))
    bad += not ok
rt( 1.25 ); rt( -1.25 ); rt( -0.5 ); rt( -86400.125 )
rt( 1577847600.0, 'America/Sao_Paulo' )
rt( 1577847600.0, 'America/Sao_Paulo', ms=False )
rt( 1577847600.0, 'America/Port-au-Prince', tzdetail=True )
rt( 1577847600.0, 'America/Edmonton', tzdetail=False )
sys.exit( 1 if bad else 0 )
