"""Defect AP (C18): a non-initial history file that holds NO acceptable record ( only a note, or only corrupt-JSON records ) never advances the
loader's position _ts; the strict open then selects the same file again - load() spins without returning ( before fix P: the same situation
re-delivered records ).  A watchdog thread stops the process after 10 s.   exit 1 before the fix ( spins / records lost ), 0 after."""
import os, sys, tempfile, shutil, threading
from cpppo.history import files as hfiles
from cpppo.history import loader, timestamp
BASE=1400000000.0; WALL=2000000000.0
def die():
    print( 'load() did not return within 10 s: spinning on one file' ); os._exit( 1 )
w = threading.Timer( 10.0, die ); w.daemon = True; w.start()
class clk:
    def __init__(s,n): s.now=n
    def __call__(s): return s.now
def raw( path, lines ):
    with open( path, 'wb' ) as f:
        for l in lines: f.write( l.encode('ascii') + b'\n' )
def rec( t, data ):
    return '\t'.join(( str( timestamp( BASE+t )), 'null', data ))
def scenario( name, build, expect ):
    d=tempfile.mkdtemp()
    try:
        path=os.path.join(d,'h.hst'); build( path )
        c=clk(WALL); hfiles.timer=c
        ld=loader(path, historical=BASE-1, basis=WALL, factor=1.0)
        got=[]; calls=0
        for step in range(0,30):
            c.now=WALL+step
            while calls < 400:
                calls += 1
                cur,ev=ld.load( limit=50 ); got+=ev
                if not ev: break
        ts=[ round(e['timestamp'].value-BASE,3) for e in got ]
        ok = ts == expect
        print( '%-40s state %-9s delivered %s %s' % ( name, ld.statename[ld.state], ts, 'OK' if ok else 'WRONG (want %s)' % expect ))
        return ok
    finally:
        shutil.rmtree(d)
ok = True
def b1( path ):
    raw( path+'.2', [ rec( 0, '{"40001": 1}' ) ] ); raw( path+'.1', [ rec( 1, '"just a note"' ) ] ); raw( path, [ rec( 2, '{"40001": 2}' ) ] )
ok &= scenario( 'middle file holds only a note', b1, [ 0.0, 2.0 ] )
def b2( path ):
    raw( path+'.2', [ rec( 0, '{"40001": 1}' ) ] ); raw( path+'.1', [ rec( 1, '{"40001": ' ), rec( 1.5, '{"40001": ' ) ] ); raw( path, [ rec( 2, '{"40001": 2}' ) ] )
ok &= scenario( 'middle file holds only corrupt records', b2, [ 0.0, 2.0 ] )
def b3( path ):
    raw( path+'.1', [ rec( 0, '{"40001": 1}' ), rec( 1, '{"40001": 2}' ) ] ); raw( path+'.0', [ rec( 5, '{"40001": 5}' ), rec( 6, '{"40001": ' ), rec( 7, '{"40001": ' ) ] ); raw( path, [ rec( 9, '{"40001": 9}' ) ] )
ok &= scenario( 'corrupt tail of a file ( defect P )', b3, [ 0.0, 1.0, 5.0, 9.0 ] )
sys.exit( 0 if ok else 1 )
