"""Triage only (never run by a registered check).  Defect AY (C07 / C08 / C10), from the round-6 C10 and C08 agents: the offsets of a Multiple
Service Packet are used as slice bounds unchecked.  An offset that points into the offset table ( 0, 2 ... ) gives a NEGATIVE begin, which
Python counts from the END of the data: a member is parsed - and executed - from bytes that belong to another member.
Here: [ write N=2.0 ] with offsets [ 4, 2 ]: the second "member" is the last 10 octets of the write ... as sliced from the end.
Exit 1 while a member is served from such an offset.  Run: /venv/bin/python <this file>
"""
import sys
import cpppo
from cpppo.server.enip import device, logix, parser
logix.setup()
att = device.Attribute( 'N', parser.REAL, default=[ 0.0 ] )
logix.setup_tag( 'N', cpppo.dotdict( attribute=att ))
MR = device.lookup( 0x02, 1 )
def member( d ):
    return bytes( bytearray( logix.Logix.produce( cpppo.dotdict( d ))))
rd = member( { 'path': { 'segment': [ cpppo.dotdict( symbolic='N' ) ] }, 'read_tag': { 'elements': 1 } } )
gaa = b'\x01\x00'      # Get Attributes All, empty path: what the last two octets of a Read Tag ( elements = 1 ) happen to spell
def bundle( offs, payload ):
    n = len( offs )
    body = bytes( bytearray( [ n & 0xFF, n >> 8 ] )) + b''.join( bytes( bytearray( [ x & 0xFF, x >> 8 ] )) for x in offs ) + payload
    return b'\x0a\x02\x20\x02\x24\x01' + body
def run( offs, payload ):
    data = cpppo.dotdict()
    with MR.parser as machine:
        for m, s in machine.run( source=cpppo.peekable( bundle( offs, payload )), data=data ):
            pass
    MR.request( data )
    return data
bad = 0
for offs in ( [ 2 ], [ 0 ], [ 4, 2 ], [ 6, 4 + len( rd ) + 9 ] ):
    payload = rd if len( offs ) == 1 else rd + rd
    d = run( offs, payload )
    reqs = d.get( 'multiple.request', [] )
    fed = [ bytes( bytearray( r.get( 'input', b'' ))) for r in reqs ]
    # a member located by an invalid offset was nevertheless recognised as a request ( it carries more than the raw input / status )
    served = [ i for i, r in enumerate( reqs ) if set( k.split( '.' )[0] for k in r.keys() if not ( k.split( '.' )[0] == 'path' and not r.get( 'path.segment' ))) - { 'input', 'service', 'status', 'status_ext' }
               and not ( 2 + 2 * len( offs ) <= offs[i] <= 2 + 2 * len( offs ) + len( payload )) ]
    print( 'offsets %-10r -> %d member replies, statuses %r%s' % ( offs, len( reqs ), [ r.get( 'status' ) for r in reqs ], '   PARSED FROM AN INVALID OFFSET: member %r' % served if served else '' ))
    bad += bool( served ) or len( reqs ) != len( offs )
sys.exit( 1 if bad else 0 )
