"""
Keyword parameters given to parse_operations / attribute_operations "are added to each operation", and
connector.issue documents data_size / tag_type / elements as hints "used to calculate/estimate the response
size".  The read-type methods swallow the hints ( read, get_attribute_single, get_attributes_all,
service_code declare data_size=None ), but client.write and client.set_attribute_single do not: a write
operation that carries data_size passes it on to req_send / unconnected_send, which raises
TypeError( "unexpected keyword argument 'data_size'" ).  Since the keywords only travel that far when the
request is sent at once, the very same operation list works when it is bundled ( send=False ) and dies in the
middle when it is issued one by one or pipelined: the results depend on `multiple`.

Exit 1 while the contradiction is present, 0 if all settings yield the same results.
"""
import logging, socket, sys, threading, time

from cpppo.dotdict import apidict
from cpppo.server import enip
from cpppo.server.enip import client
from cpppo.server.enip.main import main as enip_main

logging.disable( logging.CRITICAL )
PORT				= 44879

control				= apidict( enip.timeout, { 'done': False } )
server				= threading.Thread( target=enip_main, kwargs=dict(
    argv=[ '--address', 'localhost:%d' % PORT, 'I=INT[4]' ],
    server={ 'control': control } ))
server.daemon			= True
server.start()
for _ in range( 100 ):
    try:
        socket.create_connection( ('localhost', PORT), timeout=1 ).close()
        break
    except socket.error:
        time.sleep( .1 )

tags				= [ 'I[0-3]', 'I[1]=7', 'I[0-3]' ]
expected			= [ ( 0, [0, 0, 0, 0] ), ( 0, True ), ( 0, [0, 7, 0, 0] ) ]
results				= {}
try:
    for kwds in ( dict( depth=0, multiple=500 ), dict( depth=0, multiple=0 ), dict( depth=2, multiple=0 )):
        observed		= []
        try:
            with client.connector( host='localhost', port=PORT, timeout=5 ) as conn:
                conn.process( client.parse_operations( [ 'I[0-3]=0,0,0,0' ] ), timeout=5 )
                for idx,dsc,req,rpy,sts,val in conn.operate(
                        client.parse_operations( tags, data_size=8 ), timeout=5, **kwds ):
                    observed.append( ( sts, val ))
        except Exception as exc:
            observed.append( "raised %r" % ( exc, ))
        print( "%-32r %s" % ( kwds, observed ))
        results[str( kwds )]	= observed
finally:
    control['done']		= True

if any( observed != expected for observed in results.values() ):
    print( "CONTRADICTION: expected %r for every setting" % ( expected, ))
    sys.exit( 1 )
print( "OK" )
