"""C08 defect 1: a Write Tag whose [S]STRING value is cut short ( declared length 9, 3 characters present ) is
executed: the tag is altered by an incomplete request, with a value no complete request carried.

The SSTRING / STRING parsers bound the string with limit='..length', which is only an upper bound: when the
input ends early the '.*' string_bytes sub-machine is already in a terminal state, so the short string is
accepted as if .length had been satisfied.  ( A truncated INT element, by contrast, is refused. )

The symbolic segment of an EPATH has the same flaw ( third case ).

Expected: error status, tag unchanged.  Exit 1 while the truncated value is stored.
"""
from __future__ import print_function
import logging, socket, struct, sys, threading, time

logging.basicConfig( level=logging.CRITICAL )

from cpppo.dotdict import dotdict
from cpppo.server.enip.main import main as enip_main

PORT = 44818

def start( tags ):
    control = dotdict( done=False, disable=False, latency=0.05, timeout=1.0 )
    t = threading.Thread( target=enip_main, kwargs=dict(
        argv=[ '-a', '127.0.0.1:%d' % PORT ] + tags, server=dotdict( control=control )))
    t.daemon = True
    t.start()
    for _ in range( 100 ):
        try:
            socket.create_connection( ('127.0.0.1', PORT), timeout=1 ).close()
            return control
        except Exception:
            time.sleep( .1 )
    raise RuntimeError( "simulator did not start" )

def hdr( command, payload=b'', session=0 ):
    return struct.pack( '<HHII', command, len( payload ), session, 0 ) + b'\0' * 8 + struct.pack( '<I', 0 ) + payload

def rrdata( cip, session ):
    us = b'\x52\x02\x20\x06\x24\x01' + struct.pack( '<BBH', 5, 157, len( cip )) + cip
    if len( cip ) % 2:
        us += b'\x00'
    us += b'\x01\x00\x01\x00'
    cpf = struct.pack( '<HHHHH', 2, 0, 0, 0xb2, len( us )) + us
    return hdr( 0x6f, struct.pack( '<IH', 0, 5 ) + cpf, session=session )

class Conn( object ):
    def __init__( self ):
        self.s = socket.create_connection( ('127.0.0.1', PORT), timeout=10 )
        self.buf = b''
        rpy = self.xact( hdr( 0x65, struct.pack( '<HH', 1, 0 )))
        assert rpy and len( rpy ) == 28, "Register Session failed: %r" % ( rpy, )
        self.sess = struct.unpack( '<I', rpy[4:8] )[0]
    def xact( self, frame ):
        self.s.sendall( frame )
        while True:
            if len( self.buf ) >= 24:
                ln = struct.unpack( '<H', self.buf[2:4] )[0]
                if len( self.buf ) >= 24 + ln:
                    f, self.buf = self.buf[:24+ln], self.buf[24+ln:]
                    return f
            d = self.s.recv( 65536 )
            if not d:
                return b''
            self.buf += d
    def cip( self, request ):
        f = self.xact( rrdata( request, self.sess ))
        return f[24+16:] if len( f ) >= 24 + 16 else b''

def path( name ):
    n = name.encode()
    seg = b'\x91' + struct.pack( 'B', len( n )) + n + ( b'\0' if len( n ) % 2 else b'' ) + b'\x28\x00'
    return struct.pack( 'B', len( seg ) // 2 ) + seg

def read( tag ):
    return Conn().cip( b'\x4c' + path( tag ) + struct.pack( '<H', 1 ))

control = start( [ 'S=SSTRING[2]', 'T=STRING[2]', 'ABCD=INT[2]' ] )
bad = []
try:
    for tag,typ,complete,truncated in [
            ( 'S', 0xda, b'\x05hello',        b'\x09abc' ),		# SSTRING: USINT length 9, 3 characters
            ( 'T', 0xd0, b'\x05\x00hello\x00', b'\x08\x00abc' ),	# STRING:  UINT  length 8, 3 characters
    ]:
        c = Conn()
        rpy = c.cip( b'\x4d' + path( tag ) + struct.pack( '<HH', typ, 1 ) + complete )
        assert rpy == b'\xcd\x00\x00\x00', "complete Write Tag refused: %r" % ( rpy, )
        before = read( tag )
        rpy = c.cip( b'\x4d' + path( tag ) + struct.pack( '<HH', typ, 1 ) + truncated )
        after = read( tag )
        print( "%s: reply to truncated write %r; value before %r, after %r" % ( tag, rpy, before, after ))
        if after != before or rpy[2:3] == b'\x00':
            bad.append( "OBSERVED: Write Tag %s with a value declaring %d characters but carrying 3 was answered %r and the tag now reads %r; "
                        "EXPECTED: an error status and the tag still reading %r" % (
                            tag, bytearray( truncated )[0], rpy, after, before ))
    # The same in a request path: the symbolic segment announces 5 characters, the path .size ( 3 words ) leaves
    # room for 4 - the Tag "ABCD" is written by a request that names none.
    c = Conn()
    before = read( 'ABCD' )
    rpy = c.cip( b'\x4d\x03\x91\x05ABCD' + struct.pack( '<HHhh', 0xc3, 2, 7, 7 ))
    after = read( 'ABCD' )
    print( "ABCD: reply to write with symbolic length 5 in a 3-word path %r; value before %r, after %r" % ( rpy, before, after ))
    if after != before or rpy[2:3] == b'\x00':
        bad.append( "OBSERVED: a Write Tag whose path's symbolic segment declares 5 characters in a path of 3 words was answered %r and "
                    "changed ABCD to %r; EXPECTED: refused, no tag changed" % ( rpy, after ))
finally:
    control.done = True
for b in bad:
    print( b )
sys.exit( 1 if bad else 0 )
