"""A trailing '.' names nothing ( d['a.'] and d['l[0].'] are KeyErrors, d['l[0].'] = 5 is refused ) - except behind an indexed
segment whose index expression contains a '.': _resolve re-joins 'l[i' + 'j]' and then turns the EMPTY remainder into
None ( 'rest = rest or None' ), so 'l[i.j].' is the same as 'l[i.j]': it looks up, is a member, and assigning to it
REPLACES the list element."""
import sys
from cpppo.dotdict import dotdict

bad = []
d = dotdict()
d['i.j'] = 0
d.l = [ dotdict( a=1 ) ]
for key in ( 'l[0].', 'l[i.j].' ):
    if key in d:
        bad.append( "%r in d: observed True ( d[%r] == %r ), expected False as for 'l[0].'" % ( key, key, d[key] ))
    try:
        d[key] = 5
        bad.append( "d[%r] = 5: accepted, d.l is now %r; expected KeyError as for 'l[0].'" % ( key, d.l ))
    except KeyError:
        pass
if bad:
    print( "\n".join( bad ))
    sys.exit( 1 )
print( "OK" )
