import sys, copy
from cpppo.dotdict import dotdict
bad = 0
def check( what, fn, want ):
    global bad
    try:
        got = fn()
    except Exception as exc:
        got = 'EXC %s' % type( exc ).__name__
    ok = got == want
    print( '%-50s -> %-28r %s' % ( what, got, 'OK' if ok else 'WRONG (want %r)' % ( want, )))
    bad += not ok
d = dotdict(); d['m'] = [ dotdict( x=1 ) ]; d['a.b'] = 1
check( "'x[0]' in d   (x absent)", lambda: 'x[0]' in d, False )
check( "'m[9]' in d   (index out of range)", lambda: 'm[9]' in d, False )
check( "'m[0].x' in d", lambda: 'm[0].x' in d, True )
check( "d.get( 'x[0]', 7 )", lambda: d.get( 'x[0]', 7 ), 7 )
check( "d.pop( 'zz.y', None )", lambda: d.pop( 'zz.y', None ), None )
c = copy.copy( d ); c['m[0].x'] = 2
check( "copy.copy: d['m[0].x'] after c['m[0].x'] = 2", lambda: d['m[0].x'], 1 )
c2 = copy.deepcopy( d ); c2['a.b'] = 5
check( "copy.deepcopy: d['a.b'] after c2['a.b'] = 5", lambda: d['a.b'], 1 )
c3 = dotdict( d ); c3['a.b'] = 9
check( "dotdict( d ): d['a.b'] after c3['a.b'] = 9", lambda: d['a.b'], 1 )
sys.exit( 1 if bad else 0 )
