#!/usr/bin/env python
"""C13-related contradiction (unchanged code, no connection fault needed): poll.execute pairs values
with the wrong parameters, and silently returns fewer results than parameters, when 'params' is a
one-shot iterable (a generator).

poll.execute iterates 'params' twice at the same time: once through via.parameter_substitution( params )
- which feeds proxy.read - and once in zip( params, reader ).  With a generator the two consumers steal
each other's elements: zip takes 'A[0]', the reader then takes 'B[0]' (and, pipelining, whatever else is
left) and reads *that*, and ( 'A[0]', <value of B[0]> ) is yielded - without any error - after which the
exhausted generator ends the zip.  The same happens through poll.loop / poll.run ( params=... ).

Exits 1 and prints observed-versus-expected while this is so; would exit 0 if the generator gave the
same pairs as the equivalent list.
"""
from __future__ import print_function
import logging, socket, sys, threading, time

import cpppo
from cpppo.server.enip import poll
from cpppo.server.enip.main import main as enip_main
from cpppo.server.enip.get_attribute import proxy

SRV_PORT = 44818
logging.basicConfig( level=logging.CRITICAL )


def start_server( tags ):
    control = cpppo.apidict( timeout=1.0 )
    control['done'] = False
    thr = threading.Thread( target=enip_main, kwargs=dict(
        argv=[ '--no-udp', '--address', 'localhost:%d' % SRV_PORT ] + list( tags ),
        server=cpppo.dotdict( control=control )))
    thr.daemon = True
    thr.start()
    for _ in range( 100 ):
        try:
            socket.create_connection( ('localhost', SRV_PORT), timeout=.2 ).close()
            return control
        except Exception:
            time.sleep( .1 )
    raise RuntimeError( "simulator did not start" )


def main():
    start_server( [ 'A=DINT[5]', 'B=INT[5]' ] )
    via = proxy( host='localhost', port=SRV_PORT, timeout=1.0 )
    got = list( via.write( [ 'A[0-4]=(DINT)10,11,12,13,14', 'B[0-4]=(INT)1,2,3,4,5' ] ))
    assert got == [ True, True ], got

    names = [ 'A[0]', 'B[0]', 'A[1]', 'B[1]' ]
    expect = [ ('A[0]', [10]), ('B[0]', [1]), ('A[1]', [11]), ('B[1]', [2]) ]
    aslist = list( poll.execute( via, params=list( names ), pass_thru=True ))
    assert aslist == expect, "unexpected result for a list of params: %r" % ( aslist, )

    try:
        asgen = list( poll.execute( via, params=( n for n in names ), pass_thru=True ))
    except Exception as exc:
        print( "OK: a generator of params is refused: %s" % ( exc, ))
        return 0
    print( "params as a list     : %r" % ( aslist, ))
    print( "params as a generator: %r" % ( asgen, ))
    if asgen != expect:
        print( "FAILED: observed %r; expected %r (or an error): %d of %d results, %d of them paired with another "
               "parameter's value, and no error was raised" % (
                   asgen, expect, len( asgen ), len( expect ),
                   sum( 1 for pv in asgen if pv not in expect )))
        return 1
    print( "OK: the generator gave the same pairs as the list" )
    return 0


if __name__ == "__main__":
    sys.exit( main() )
