"""Tags 'A' and 'A.B.C' are configured ( no tag 'A.B' ).  Every configured tag must be addressable by
its symbolic name; 'A.B.C' is answered 0x05 ( path destination unknown ): device.resolve only tries to
extend a resolved tag by ONE further symbolic segment ( repair c2cbac0 is incomplete )."""
import os, sys
sys.path.insert( 0, os.path.dirname( os.path.abspath( __file__ )))
from common import *
P = parser
bad = []
for names in ( ['A', 'A.B.C'], ['X.Y', 'X.Y.Z.W'] ):
    reset()
    logix.setup( tags=mktags( [ ( n, P.DINT, 3, 0, None ) for n in names ] ))
    long = names[-1]
    w = rpc( {'path': sym( long ), 'write_tag': {'elements': 3, 'type': P.DINT.tag_type, 'data': [1,2,3]}} )
    r = rpc( {'path': sym( long ), 'read_tag': {'elements': 3}} )
    got = r.get( 'read_tag.data' )
    if w.status != 0 or r.status != 0 or got != [1,2,3]:
        bad.append( "tags %r: Write Tag %s status 0x%02x, Read Tag status 0x%02x data %r; expected 0x00, 0x00, [1, 2, 3]" % (
            names, long, w.status, r.status, got ))
    # the control: without the shorter tag the same name works
    reset()
    logix.setup( tags=mktags( [ ( long, P.DINT, 3, 0, None ) ] ))
    r = rpc( {'path': sym( long ), 'read_tag': {'elements': 3}} )
    assert r.status == 0, "control failed"
if bad:
    print( "CONTRADICTION:\n  " + "\n  ".join( bad ))
    sys.exit( 1 )
print( "OK" )
