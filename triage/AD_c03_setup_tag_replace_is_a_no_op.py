"""Defect AD (C03): logix.setup_tag's "Instance Replaced w/" branch stores the OLD attribute back ( instance.attribute[str(att)] = attribute ):
configuring an existing tag name again with a different Attribute ( A INT[5], then A DINT[50] ) logs the replacement but keeps INT[5].
exit 1 on the pinned tree, 0 after the fix."""
import sys
import cpppo
from cpppo.server.enip import device, logix, parser
logix.setup()		# the default Objects ( Message Router 0x02/1 ... )
first = device.Attribute( 'A', parser.INT, default=[ 0 ] * 5 )
logix.setup_tag( 'A', cpppo.dotdict( attribute=first ))
second = device.Attribute( 'A', parser.DINT, default=[ 0 ] * 50 )
logix.setup_tag( 'A', cpppo.dotdict( attribute=second ))
now = device.lookup( *device.resolve_tag( 'A' ))
print( 'tag A is served by %r' % now )
ok = now is second
print( 'the tag is the newly configured DINT[50]: %s' % ok )
sys.exit( 0 if ok else 1 )
