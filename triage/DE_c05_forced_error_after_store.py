"""C05 defect 1 ( unchanged code ): a Write Tag [Fragmented] to a tag whose Attribute is configured with a
forced error code is answered with that failure status -- but only AFTER the values were stored.
Expected: a request answered with a failure indication leaves every tag exactly as it was."""
import sys
import cpppo
from cpppo.server import enip
from cpppo.server.enip import logix, parser, device

enip.lookup_reset()
Obj = logix.Logix( instance_id=1 )
att = Obj.attribute['1'] = device.Attribute( 'E', parser.INT, default=[1, 2, 3], error=0x10 )
device.redirect_tag( 'E', {'class': Obj.class_id, 'instance': Obj.instance_id, 'attribute': 1} )

def run( req ):
    enc = Obj.produce( cpppo.dotdict( req ))
    data = cpppo.dotdict()
    with Obj.parser as machine:
        for m,s in machine.run( source=cpppo.peekable( enc ), data=data ):
            pass
    Obj.request( data )
    rpy = cpppo.dotdict()
    with Obj.parser as machine:
        for m,s in machine.run( source=cpppo.peekable( bytes( data.input )), data=rpy ):
            pass
    return rpy

bad = []
for ctx,extra in (('write_tag',{}),('write_frag',{'offset':0})):
    before = list( att.value )
    new = [ v + 6 for v in before ]
    req = {'path': {'segment': [{'symbolic': 'E'}]}, ctx: dict( type=parser.INT.tag_type, data=new, elements=3, **extra )}
    rpy = run( req )
    print( "%s: status 0x%02x; tag %r -> %r" % ( ctx, rpy.status, before, att.value ))
    if rpy.status != 0 and list( att.value ) != before:
        bad.append( "%s answered with failure status 0x%02x, yet the tag changed from %r to %r ( expected: unchanged )" % (
            ctx, rpy.status, before, att.value ))
if bad:
    print( "CONTRADICTION: " + "; ".join( bad ))
    sys.exit( 1 )
print( "OK" )
