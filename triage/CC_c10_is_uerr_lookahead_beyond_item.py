#!/usr/bin/env python
"""
C10 defect 2: the Unconnected Data item parser (parser.unconnected_send, CPF item 0x00b2) is limited
to its item's .length, yet -- for an item that begins with 0xD2 and is up to 6 octets long -- its
look-ahead (unconnected_send.is_uerr) always takes FOUR symbols from the source, however short the
item is.  For an item of .length 1, 2 or 3 it thereby takes (and, if it can, pushes back) symbols
that lie behind the item's limit, and decides on them:

  - what the parser makes of the item depends on the octets of the FOLLOWING item: the very same
    3-octet item  D2 00 05  is kept as an opaque 3-octet request when a Connected Address item
    follows it, but makes the whole CPF list fail when a NULL Address item (00 00 00 00) follows;
  - when fewer than 4 symbols remain in the source, next( source ) raises StopIteration inside the
    predicate: the symbols already taken are NOT pushed back (source.sent stays advanced), and the
    machine dies with "RuntimeError: generator raised StopIteration".

Expected: an item parser given limit N decides on (at most) its own N symbols; the outcome for the
item is the same whatever follows it, and the octets behind it are left alone.  Exit 0 then.
Observed: exit 1.
"""
from __future__ import print_function

import struct
import sys

import cpppo
from cpppo.server.enip import parser


class counting( object ):
    """An iterable over raw, remembering how many symbols were ever pulled from it"""
    def __init__( self, raw ):
        self.raw		= bytearray( raw )
        self.pulled		= 0
    def __iter__( self ):
        for b in self.raw:
            self.pulled	       += 1
            yield b


def parse_cpf( raw ):
    data			= cpppo.dotdict()
    source			= cpppo.peekable( raw )
    exc				= None
    machine			= parser.CPF( terminal=True, limit=len( raw ))
    try:
        with machine:
            for m,s in machine.run( source=source, data=data ):
                pass
    except Exception as e:
        exc			= e
    return exc, source, machine.terminal, data


problems			= []

# 1) the same item, different followers
item				= b'\xd2\x00\x05'				# 3 octets: service 0xD2, reserved, status 0x05
results				= {}
for what,follower in [
        ( "Connected Address item",	struct.pack( '<HHI', 0x00a1, 4, 0x04030201 )),
        ( "NULL Address item",		struct.pack( '<HH',  0x0000, 0 )),
        ( "Sockaddr Info item, empty",	struct.pack( '<HH',  0x8000, 0 )),
        ( "ListServices item, empty",	struct.pack( '<HH',  0x0100, 0 )),
]:
    raw				= struct.pack( '<HHH', 2, 0x00b2, len( item )) + item + follower
    exc,source,terminal,data	= parse_cpf( raw )
    if exc is None and terminal:
        outcome			= "item[0] parsed: %r" % ( dict( data.CPF.item[0] ), )
    else:
        outcome			= "CPF list refused: %s" % ( type( exc ).__name__ )
    results[what]		= outcome
    print( "item D2 00 05 (.length 3) followed by %-26s -> %s" % ( what, outcome ))
if len( set( results.values() )) != 1:
    problems.append( "the outcome for the 3-octet item depends on the octets behind its limit: %r" % ( results, ))

# 2) how far does the item parser reach?  Give it its item alone, and count what it pulls
for n in ( 1, 2, 3 ):
    item			= b'\xd2\x00\x05'[:n]
    raw				= struct.pack( '<HHH', 1, 0x00b2, n ) + item		# the item ends the input
    exc,source,terminal,data	= parse_cpf( raw )
    print( "item %-8s (.length %d) ending the input: %s; source after %d symbols of %d" % (
        ' '.join( '%02X' % b for b in bytearray( item )), n,
        ( "refused: %r" % ( exc, )) if exc else "parsed: %r" % ( dict( data.CPF.item[0] ), ),
        source.sent, len( raw )))
    if isinstance( exc, RuntimeError ):
        problems.append( "item of .length %d ending the input: %r; expected the item's %d octets kept (or an orderly refusal)" % (
            n, exc, n ))

# 3) direct evidence of symbols taken from behind the limit: a 2-octet item, 2 octets behind the CPF's own limit
raw				= struct.pack( '<HHH', 1, 0x00b2, 2 ) + b'\xd2\x00'
feed				= counting( raw + b'\xAA\xBB\xCC\xDD' )			# 4 more octets, behind every limit
data				= cpppo.dotdict()
source				= cpppo.peekable( feed )
machine				= parser.CPF( terminal=True, limit=len( raw ))
try:
    with machine:
        for m,s in machine.run( source=source, data=data ):
            pass
except Exception as exc:
    print( "refused: %r" % ( exc, ))
# One symbol of look-ahead is how the framework works (peek); more than that is the parser reaching past its limit
print( "CPF( limit=%d ) over %d octets: pulled %d symbols from its input (consumed %d)" % (
    len( raw ), len( feed.raw ), feed.pulled, source.sent ))
if feed.pulled > len( raw ) + 1:
    problems.append( "CPF( limit=%d ) pulled %d symbols from its input: %d behind its limit; expected at most 1 (peek)" % (
        len( raw ), feed.pulled, feed.pulled - len( raw )))

if problems:
    print()
    for p in problems:
        print( p )
    sys.exit( 1 )
print( "OK" )
