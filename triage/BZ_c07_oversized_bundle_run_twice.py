#!/usr/bin/env python
"""
C07 defect 3 (unchanged code): a Multiple Service Packet whose member replies total more than 65535 octets ( a 2.2 KB
request: one Write Tag + 140 x Read Tag Fragmented of a DINT[300] tag ) cannot have its reply offset table produced
( UINT ): struct.error escapes from Message_Router.request AFTER every member was carried out.  Connection_Manager.request
takes that for "the target could not parse / serve the request", re-parses the whole bundle and hands it to the Message
Router AGAIN - every member is executed a second time - and finally answers  8a 00 08 00  ( Service not supported ).

Observed: the Write Tag inside the bundle is executed twice and its effect stays, but no member reply is delivered and the
bundle claims the service is not supported.  Sent one by one, every request is executed once and answered.
Expected: either member replies equal to the standalone ones, or a bundle that is refused as too large without having
been executed ( and certainly no member executed twice ).
"""
from __future__ import print_function
import logging
import struct
import sys

import cpppo
from cpppo.dotdict import dotdict
from cpppo.server.enip import logix, parser
from cpppo.server.enip.device import Attribute
from cpppo.server.enip.parser import DINT

logging.basicConfig( level=logging.CRITICAL )
logging.disable( logging.CRITICAL )

ADDR				= ( '127.0.0.1', 54321 )

class Counted( Attribute ):
    writes			= 0
    def __setitem__( self, key, value ):
        self.writes	       += 1
        return super( Counted, self ).__setitem__( key, value )

TAGS				= dotdict()
TAGS['SC']			= dotdict( error=0, attribute=Counted( 'SC', DINT, default=[ 7 ] ))
TAGS['BIG']			= dotdict( error=0, attribute=Attribute( 'BIG', DINT, default=list( range( 300 ))))


def symbolic( name ):
    name			= name.encode( 'iso-8859-1' )
    seg				= b'\x91' + struct.pack( 'B', len( name )) + name + ( b'\x00' if len( name ) % 2 else b'' )
    return struct.pack( 'B', len( seg ) // 2 ) + seg

def multiple( requests ):
    count			= len( requests )
    offsets,offset		= [],2 + 2 * count
    for r in requests:
        offsets.append( offset )
        offset		       += len( r )
    return ( b'\x0a\x02\x20\x02\x24\x01' + struct.pack( '<H', count )
             + b''.join( struct.pack( '<H', o ) for o in offsets ) + b''.join( requests ))

def transact( request ):
    unc_send			= ( b'\x52\x02\x20\x06\x24\x01\x05\x9d' + struct.pack( '<H', len( request )) + request
                                    + ( b'\x00' if len( request ) % 2 else b'' ) + b'\x01\x00\x01\x00' )
    cpf				= ( struct.pack( '<IH', 0, 5 ) + struct.pack( '<H', 2 ) + struct.pack( '<HH', 0, 0 )
                                    + struct.pack( '<HH', 0xb2, len( unc_send )) + unc_send )
    frame			= struct.pack( '<HHII', 0x006f, len( cpf ), 1, 0 ) + b'\x00' * 8 + struct.pack( '<I', 0 ) + cpf
    data			= dotdict()
    with parser.enip_machine() as machine:
        for _ in machine.run( source=cpppo.peekable( frame ), data=data, path='request' ):
            pass
    logix.process( ADDR, data=data, tags=TAGS )
    if data.response.enip.status != 0 or 'input' not in data.response.enip:
        return None
    rsp				= bytes( data.response.enip.input )
    pos				= 6 + 2
    typ,siz			= struct.unpack( '<HH', rsp[pos:pos+4] )
    pos			       += 4 + siz
    typ,siz			= struct.unpack( '<HH', rsp[pos:pos+4] )
    return rsp[pos+4:pos+4+siz]

def hexed( b ):
    return ' '.join( '%02x' % c for c in bytearray( b ))

def main():
    logix.setup( tags=TAGS )
    write			= b'\x4d' + symbolic( 'SC' ) + struct.pack( '<HHi', 0x00c4, 1, 99 )
    read			= b'\x52' + symbolic( 'BIG' ) + struct.pack( '<HI', 300, 0 )
    requests			= [ write ] + [ read ] * 140
    request			= multiple( requests )
    reply			= transact( request )
    sc				= TAGS['SC'].attribute
    print( "Multiple Service Packet of %d octets: 1 x Write Tag SC=99, 140 x Read Tag Fragmented BIG[0-299]" % len( request ))
    print( "    reply: %s%s" % ( "(none)" if reply is None else hexed( reply[:12] ),
                                 "" if reply is None or len( reply ) <= 12 else " ... (%d octets)" % len( reply )))
    print( "    SC == %r, written %d time(s)" % ( sc.value, sc.writes ))
    answered			= reply is not None and bytearray( reply[:4] ) == bytearray( b'\x8a\x00\x00\x00' )
    failures			= []
    if sc.writes > 1:
        failures.append( "the Write Tag member was executed %d times" % sc.writes )
    if not answered and sc.writes:
        failures.append( "the bundle was refused (%s) although its members were executed (SC == %r)" % (
            "no CIP reply" if reply is None else "status 0x%02x" % bytearray( reply )[2], sc.value ))
    if failures:
        print( "FAILED: " + "; ".join( failures ))
        print( "Expected: each member executed once and answered as it is alone, or the oversized bundle refused unexecuted" )
        return 1
    print( "OK" )
    return 0

if __name__ == "__main__":
    sys.exit( main() )
