#! /usr/bin/env python3
"""
C20 defect 1 (unchanged code): a dictionary keyed with byte strings does not survive tnetstrings.dump / parse.

tnetstrings.dump_dict serialises every key as  dump( str( k ).encode( 'ascii' )).  That was right in Python 2
( str( 'k' ) is the byte string itself ), but in Python 3 str( b'k' ) is the text "b'k'", so the key b'k' goes
onto the wire as the 4-byte string  b'k'  ( with the b and the quotes ) and comes back as the key "b'k'":
neither the byte string that was given, nor its text 'k', and no error either.  The module itself says keys
are byte strings ( "we deal in bytes only", parse_dict asserts `type(key) is bytes` on the wire form ), and a
dictionary built from values that tnetstrings.parse returned for ',' strings has exactly such keys.

Expected: the key round-trips ( as b'k', or at least as the text 'k' like every ascii text key does ), or
dump refuses it.  Observed: {"b'k'": 1}.  Repair: in dump_dict use the key as it is when type(k) is bytes,
str(k).encode('ascii') otherwise.
"""
from __future__ import print_function
import sys
from cpppo.server import tnetstrings

def main():
    value			= { b'k': 1, b'': [ b'x' ] }
    try:
        tns			= tnetstrings.dump( value )
    except (AssertionError, TypeError, ValueError) as exc:
        print( "OK: dump refuses byte-string keys: %r" % ( exc, ))
        return 0
    got, rest			= tnetstrings.parse( tns )
    keys			= sorted( got, key=repr )
    acceptable			= ( sorted( value, key=repr ), sorted(( k.decode( 'ascii' ) for k in value ), key=repr ))
    if rest == b'' and keys in acceptable:
        print( "OK: %r --> %r --> %r" % ( value, tns, got ))
        return 0
    print( "CONTRADICTION: dump( %r ) == %r; parse gives %r (rest %r)" % ( value, tns, got, rest ))
    print( "  observed keys %r; expected %r (or their ascii text), or a refusal by dump" % ( keys, acceptable[0] ))
    return 1

if __name__ == "__main__":
    sys.exit( main() )
