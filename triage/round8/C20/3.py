#! /usr/bin/env python3
"""
C20 defect 3 (unchanged code): "nested to any depth" ends at about 330 levels for dump ( about 490 for parse ).

dump recurses through three Python frames per level of nesting ( dump -> dump_list -> the generator expression
inside b''.join -> dump ... ), parse through two ( parse -> parse_list -> parse ... ), so with the interpreter's
default recursion limit of 1000 a list nested 340 deep cannot be serialised at all, and a tnetstring nested
deeper than ~490 ( as produced by any iterative encoder -- the wire text is only 4-6 bytes per level ) cannot be
parsed: both raise RecursionError, which is not an AssertionError / ValueError a caller of a parser expects for
bad data, and here the data is not even bad.

Input   : v = [[[ ... [] ... ]]] nested 400 and 800 deep ( wire forms of 2170 and 4570 bytes )
Expected: parse( dump( v )) == ( v, b'' ), or at least a parse of the iteratively built wire form
Observed: RecursionError in dump ( depth 400 ) and in parse ( depth 800, wire form built without recursion )
Repair  : an explicit stack in dump / parse ( or a documented depth limit enforced with a proper error ).
"""
from __future__ import print_function
import sys
from cpppo.server import tnetstrings

def nested( depth ):
    v				= []
    for _ in range( depth ):
        v			= [ v ]
    return v

def wire( depth ):
    """The tnetstring of nested( depth ), built iteratively."""
    tns				= b'0:]'
    for _ in range( depth ):
        tns			= ( '%d:' % len( tns )).encode( 'ascii' ) + tns + b']'
    return tns

def main():
    assert tnetstrings.dump( nested( 50 )) == wire( 50 )
    bad				= 0
    for depth in ( 100, 400, 800 ):
        v			= nested( depth )
        try:
            tns			= tnetstrings.dump( v )
        except RecursionError as exc:
            print( "CONTRADICTION: dump of a list nested %d deep raised %s; expected the %d-byte tnetstring" % (
                depth, type( exc ).__name__, len( wire( depth ))))
            bad		       += 1
            tns			= wire( depth )
        try:
            got, rest		= tnetstrings.parse( tns )
        except RecursionError as exc:
            print( "CONTRADICTION: parse of the %d-byte tnetstring nested %d deep raised %s" % (
                len( tns ), depth, type( exc ).__name__ ))
            bad		       += 1
            continue
        d			= 0
        while got:					# compare without recursing ourselves
            assert type( got ) is list and len( got ) == 1
            got			= got[0]
            d		       += 1
        if d != depth or got != [] or rest != b'':
            print( "CONTRADICTION: depth %d came back as depth %d, rest %r" % ( depth, d, rest ))
            bad		       += 1
    if bad:
        return 1
    print( "OK: nesting of 100, 400 and 800 levels survives dump / parse" )
    return 0

if __name__ == "__main__":
    sys.exit( main() )
