#! /usr/bin/env python3
"""
C20 defect 2 (unchanged code): tnetstrings.parse( ..., encoding=None ) raises instead of returning bytes.

parse's docstring: "If no encoding supplied, all character data in payload is returned as bytes ... the user
must encode the data to the desired string encoding."  ( parse_list / parse_dict even default to encoding=None. )
But the '$' branch is unconditionally  payload.decode( encoding ), and bytes.decode( None ) is a TypeError in
Python 3: any message that contains a text ( '$' ) element, at any depth, cannot be parsed "without encoding".
The dump side has the same hole: dump( u'a', encoding=None ) raises TypeError from data.encode( None ) although
the docstring allows no encoding when "unicode '$' format data" is not supplied -- that one is by the letter.

Input   : parse( dump( [ 1, u'aπ' ] ), encoding=None )
Expected: ( [ 1, b'a\xcf\x80' ], b'' )   -- character data as raw bytes, as documented
Observed: TypeError: decode() argument 'encoding' must be str, not None
Repair  : value = payload.decode( encoding ) if encoding else payload
"""
from __future__ import print_function
import sys
from cpppo.server import tnetstrings

def main():
    value			= [ 1, u'aπ', { 'k': u'z' } ]
    tns				= tnetstrings.dump( value )
    expect			= [ 1, u'aπ'.encode( 'utf-8' ), { 'k': b'z' } ]
    try:
        got, rest		= tnetstrings.parse( tns, encoding=None )
    except Exception as exc:
        print( "CONTRADICTION: parse( %r, encoding=None ) raised %r" % ( tns, exc ))
        print( "  expected %r (character data returned as bytes, per parse's docstring)" % (( expect, b'' ), ))
        return 1
    if got != expect or rest != b'':
        print( "CONTRADICTION: parse( %r, encoding=None ) == %r, rest %r; expected %r" % ( tns, got, rest, expect ))
        return 1
    print( "OK: %r" % ( got, ))
    return 0

if __name__ == "__main__":
    sys.exit( main() )
