#!/usr/bin/env python
"""C14 defect 10: an Unconnected Send the (simple / route-restricted) simulator will not route is answered with an
undefined encapsulation status instead of a CIP error reply, and the session is dropped.

Input:    simulator started with -S ( --simple: a non-routing device ); a registered session sends SendRRData carrying an
          Unconnected Send ( 0x52 to the Connection Manager ) with route path port 1 / link 0 around Read Tag X - what
          pylogix sends for GetModuleProperties( 0 ), and what every Logix client sends by default.
Observed: an encapsulation header with status 0x00000008 and no data at all, then the TCP connection is closed ( pylogix
          raises struct.error on the 24 octet reply ).
Expected: encapsulation status 0 and a CIP reply 0xD2 with a non-zero general status ( 0x08 Service not supported, as the
          comment in logix.process says: "the UCMM should fail the Unconnected Send (0x52) request with a response (0xD2)
          status 0x08" ); 0x0008 is not among the encapsulation status codes of CIP Vol 2 Table 2-3.3, and the session
          stays usable.  ( UCMM.request: the route path assertion fails inside the try whose handler sets enip.status. )
"""
from __future__ import print_function

import socket
import struct
import sys
import threading
import time
import traceback

import cpppo
from cpppo.server import enip
from cpppo.server.enip import logix
from cpppo.server.enip import main as enip_main

PORT				= 44818


def start( tags, port=PORT ):
    """Run the simulator (cpppo.server.enip.main) in a thread; returns (control, thread)"""
    enip.lookup_reset()
    logix.setup_reset()
    control			= cpppo.apidict( enip.timeout, { 'done': False } )
    argv			= [ '--no-config', '--address', 'localhost:%d' % port ] + list( tags )
    server			= threading.Thread( target=enip_main.main,
                                                    kwargs=dict( argv=argv, server={ 'control': control } ))
    server.daemon		= True
    server.start()
    for _ in range( 100 ):
        try:
            socket.create_connection( ('localhost', port), timeout=.2 ).close()
            break
        except Exception:
            time.sleep( .1 )
    return control, server


def stop( control, server ):
    control.done		= True
    server.join( 10 )


def attribute( name ):
    return dict.__getitem__( enip_main.tags, name ).attribute


class reference( object ):
    """Reference EtherNet/IP + CIP encoder / decoder: struct only, shares no code with cpppo or pylogix"""
    def __init__( self, port=PORT, register=True ):
        self.sock		= socket.create_connection( ('localhost', port), timeout=5 )
        self.session		= 0
        self.sequence		= 0
        if register:
            self.session,sts,body = self.transact( 0x65, struct.pack( '<HH', 1, 0 ))
            assert sts == 0 and self.session

    def recv( self, n ):
        buf			= b''
        while len( buf ) < n:
            got			= self.sock.recv( n - len( buf ))
            if not got:
                raise EOFError( "EOF from simulator after %d of %d bytes" % ( len( buf ), n ))
            buf		       += got
        return buf

    def send( self, command, payload=b'', context=b'refcoder' ):
        self.sock.sendall( struct.pack( '<HHII8sI', command, len( payload ), self.session, 0, context, 0 ) + payload )

    def reply( self ):
        cmd,length,ses,sts,ctx,opt = struct.unpack( '<HHII8sI', self.recv( 24 ))
        return cmd,ses,sts,ctx,self.recv( length )

    def transact( self, command, payload=b'' ):
        self.send( command, payload )
        cmd,ses,sts,ctx,body	= self.reply()
        assert cmd == command and ctx == b'refcoder', "encapsulation reply doesn't match the request"
        return ses,sts,body

    @staticmethod
    def items( body ):
        count,			= struct.unpack_from( '<H', body, 6 )
        off,res			= 8,[]
        for _ in range( count ):
            typ,siz		= struct.unpack_from( '<HH', body, off )
            res.append( (typ, body[off+4:off+4+siz]) )
            off		       += 4 + siz
        assert off == len( body ), "CPF items don't fill the encapsulated data"
        return res

    def unconnected( self, cip ):
        """SendRRData: null address item + unconnected data item; returns (encap. status, CIP reply)"""
        _,sts,body		= self.transact( 0x6F, struct.pack( '<IHHHHHH', 0, 5, 2, 0, 0, 0xB2, len( cip )) + cip )
        if sts:
            return sts,None
        (t0,d0),(t1,d1)		= self.items( body )
        assert ( t0, d0, t1 ) == ( 0, b'', 0xB2 )
        return sts,d1

    def forward_open( self, serial=0x0BAD, vendor=0x1337, originator=42, to_id=0x00C0FFEE, size=504 ):
        """Small Forward Open to the Message Router via backplane port 1, slot 0"""
        self.triad		= struct.pack( '<HHI', serial, vendor, originator )
        self.to_id		= to_id
        cip			= b'\x54\x02\x20\x06\x24\x01\x0A\x0E' + struct.pack( '<II', 0x20000002, to_id ) + self.triad \
                                  + struct.pack( '<B3xIHIHB', 3, 0x00201234, 0x4200 | size, 0x00204001, 0x4200 | size, 0xA3 ) \
                                  + b'\x03\x01\x00\x20\x02\x24\x01'
        sts,rpy			= self.unconnected( cip )
        assert sts == 0 and rpy[:4] == b'\xd4\x00\x00\x00', "Forward Open failed: %r" % ( rpy, )
        self.ot_id,to		= struct.unpack_from( '<II', rpy, 4 )
        assert to == to_id, "Forward Open reply doesn't echo the T->O connection ID"
        return rpy

    def forward_close( self, triad=None ):
        cip			= b'\x4e\x02\x20\x06\x24\x01\x0A\x0E' + ( triad or self.triad ) + b'\x03\x00\x01\x00\x20\x02\x24\x01'
        return self.unconnected( cip )

    def connected( self, cip, connection=None ):
        """SendUnitData; returns (encap. status, connection ID of the reply, sequence count of the reply, CIP reply)"""
        self.sequence		= ( self.sequence + 1 ) & 0xFFFF
        data			= struct.pack( '<H', self.sequence ) + cip
        _,sts,body		= self.transact( 0x70, struct.pack( '<IHHHHIHH', 0, 0, 2, 0xA1, 4,
                                                                    self.ot_id if connection is None else connection,
                                                                    0xB1, len( data )) + data )
        if sts:
            return sts,None,None,None
        (t0,d0),(t1,d1)		= self.items( body )
        assert ( t0, len( d0 ), t1 ) == ( 0xA1, 4, 0xB1 )
        return sts,struct.unpack( '<I', d0 )[0],struct.unpack_from( '<H', d1 )[0],d1[2:]


def epath( tag, *elements ):
    name			= tag.encode( 'ascii' )
    path			= b'\x91' + struct.pack( '<B', len( name )) + name + ( b'\x00' if len( name ) % 2 else b'' )
    for e in elements:
        path		       += struct.pack( '<BB', 0x28, e ) if e < 256 else struct.pack( '<BBH', 0x29, 0, e )
    return struct.pack( '<B', len( path ) // 2 ) + path


def read_tag( tag, elements=1, *index ):
    return b'\x4c' + epath( tag, *index ) + struct.pack( '<H', elements )


def cip_reply( reply ):
    """--> (service, general status, [extended status words], data)"""
    service,_,status,extsize	= struct.unpack_from( '<BBBB', reply )
    return service,status,list( struct.unpack_from( '<%dH' % extsize, reply, 4 )),reply[4+2*extsize:]


def main():
    control,server		= start( [ '-S', 'X=DINT' ] )
    try:
        attribute( 'X' )[0]	= 5
        ref			= reference()
        sts,rpy			= ref.unconnected( read_tag( 'X' ))
        assert sts == 0 and rpy[:4] == b'\xcc\x00\x00\x00', "simple request failed"
        cip			= read_tag( 'X' )
        usend			= b'\x52\x02\x20\x06\x24\x01\x05\x9d' + struct.pack( '<H', len( cip )) + cip + b'\x01\x00\x01\x00'
        sts,rpy			= ref.unconnected( usend )
        alive			= True
        try:
            ref.unconnected( read_tag( 'X' ))
        except Exception:
            alive		= False
        print( "Unconnected Send via 1/0 to a --simple simulator: encapsulation status 0x%04X, CIP reply %r, session %s" % (
            sts, rpy, "usable" if alive else "closed" ))
        if sts != 0 or not rpy or rpy[0:1] != b'\xd2' or not alive:
            print( "CONTRADICTION: observed encapsulation status 0x%04X, %s, session %s; expected encapsulation status 0, "
                   "a CIP reply 0xD2 with a non-zero general status, session usable" % (
                       sts, "no CIP reply" if not rpy else "reply %r" % ( rpy, ), "usable" if alive else "closed" ))
            return 1
        return 0
    finally:
        stop( control, server )


if __name__ == "__main__":
    sys.exit( main() )
