#!/usr/bin/env python
"""C14 defect 5: a closed (or never opened) CIP connection keeps being served, and closing a connection that doesn't exist succeeds.

Input:    Forward Open, Forward Close (both succeed), then on the same session:
          (a) SendUnitData on the connection ID just closed; (b) SendUnitData on connection ID 0xDEADBEEF;
          (c) a second Forward Close of the same connection triad; (d) Forward Close of a triad never opened.
Observed: (a) and (b) are executed and answered 0xCC status 0 with the tag's value; (c) and (d) are answered 0xCE status 0.
Expected: the connection table ( Connection_Manager.forwards ) decides: data for a connection that is not open
          is not delivered ( no CIP reply; the encapsulation may report an error ), and Forward Close of an unknown
          connection is refused with general status 0x01, extended 0x0107 (connection not found) - CIP Vol 1, 3-5.5.
          ( Connection_Manager.request falls back to treating the data as an unconnected request when the key is not
          in .forwards; forward_close() never reports that nothing matched. )
"""
from __future__ import print_function

import socket
import struct
import sys
import threading
import time
import traceback

import cpppo
from cpppo.server import enip
from cpppo.server.enip import logix
from cpppo.server.enip import main as enip_main

PORT				= 44818


def start( tags, port=PORT ):
    """Run the simulator (cpppo.server.enip.main) in a thread; returns (control, thread)"""
    enip.lookup_reset()
    logix.setup_reset()
    control			= cpppo.apidict( enip.timeout, { 'done': False } )
    argv			= [ '--no-config', '--address', 'localhost:%d' % port ] + list( tags )
    server			= threading.Thread( target=enip_main.main,
                                                    kwargs=dict( argv=argv, server={ 'control': control } ))
    server.daemon		= True
    server.start()
    for _ in range( 100 ):
        try:
            socket.create_connection( ('localhost', port), timeout=.2 ).close()
            break
        except Exception:
            time.sleep( .1 )
    return control, server


def stop( control, server ):
    control.done		= True
    server.join( 10 )


def attribute( name ):
    return dict.__getitem__( enip_main.tags, name ).attribute


class reference( object ):
    """Reference EtherNet/IP + CIP encoder / decoder: struct only, shares no code with cpppo or pylogix"""
    def __init__( self, port=PORT, register=True ):
        self.sock		= socket.create_connection( ('localhost', port), timeout=5 )
        self.session		= 0
        self.sequence		= 0
        if register:
            self.session,sts,body = self.transact( 0x65, struct.pack( '<HH', 1, 0 ))
            assert sts == 0 and self.session

    def recv( self, n ):
        buf			= b''
        while len( buf ) < n:
            got			= self.sock.recv( n - len( buf ))
            if not got:
                raise EOFError( "EOF from simulator after %d of %d bytes" % ( len( buf ), n ))
            buf		       += got
        return buf

    def send( self, command, payload=b'', context=b'refcoder' ):
        self.sock.sendall( struct.pack( '<HHII8sI', command, len( payload ), self.session, 0, context, 0 ) + payload )

    def reply( self ):
        cmd,length,ses,sts,ctx,opt = struct.unpack( '<HHII8sI', self.recv( 24 ))
        return cmd,ses,sts,ctx,self.recv( length )

    def transact( self, command, payload=b'' ):
        self.send( command, payload )
        cmd,ses,sts,ctx,body	= self.reply()
        assert cmd == command and ctx == b'refcoder', "encapsulation reply doesn't match the request"
        return ses,sts,body

    @staticmethod
    def items( body ):
        count,			= struct.unpack_from( '<H', body, 6 )
        off,res			= 8,[]
        for _ in range( count ):
            typ,siz		= struct.unpack_from( '<HH', body, off )
            res.append( (typ, body[off+4:off+4+siz]) )
            off		       += 4 + siz
        assert off == len( body ), "CPF items don't fill the encapsulated data"
        return res

    def unconnected( self, cip ):
        """SendRRData: null address item + unconnected data item; returns (encap. status, CIP reply)"""
        _,sts,body		= self.transact( 0x6F, struct.pack( '<IHHHHHH', 0, 5, 2, 0, 0, 0xB2, len( cip )) + cip )
        if sts:
            return sts,None
        (t0,d0),(t1,d1)		= self.items( body )
        assert ( t0, d0, t1 ) == ( 0, b'', 0xB2 )
        return sts,d1

    def forward_open( self, serial=0x0BAD, vendor=0x1337, originator=42, to_id=0x00C0FFEE, size=504 ):
        """Small Forward Open to the Message Router via backplane port 1, slot 0"""
        self.triad		= struct.pack( '<HHI', serial, vendor, originator )
        self.to_id		= to_id
        cip			= b'\x54\x02\x20\x06\x24\x01\x0A\x0E' + struct.pack( '<II', 0x20000002, to_id ) + self.triad \
                                  + struct.pack( '<B3xIHIHB', 3, 0x00201234, 0x4200 | size, 0x00204001, 0x4200 | size, 0xA3 ) \
                                  + b'\x03\x01\x00\x20\x02\x24\x01'
        sts,rpy			= self.unconnected( cip )
        assert sts == 0 and rpy[:4] == b'\xd4\x00\x00\x00', "Forward Open failed: %r" % ( rpy, )
        self.ot_id,to		= struct.unpack_from( '<II', rpy, 4 )
        assert to == to_id, "Forward Open reply doesn't echo the T->O connection ID"
        return rpy

    def forward_close( self, triad=None ):
        cip			= b'\x4e\x02\x20\x06\x24\x01\x0A\x0E' + ( triad or self.triad ) + b'\x03\x00\x01\x00\x20\x02\x24\x01'
        return self.unconnected( cip )

    def connected( self, cip, connection=None ):
        """SendUnitData; returns (encap. status, connection ID of the reply, sequence count of the reply, CIP reply)"""
        self.sequence		= ( self.sequence + 1 ) & 0xFFFF
        data			= struct.pack( '<H', self.sequence ) + cip
        _,sts,body		= self.transact( 0x70, struct.pack( '<IHHHHIHH', 0, 0, 2, 0xA1, 4,
                                                                    self.ot_id if connection is None else connection,
                                                                    0xB1, len( data )) + data )
        if sts:
            return sts,None,None,None
        (t0,d0),(t1,d1)		= self.items( body )
        assert ( t0, len( d0 ), t1 ) == ( 0xA1, 4, 0xB1 )
        return sts,struct.unpack( '<I', d0 )[0],struct.unpack_from( '<H', d1 )[0],d1[2:]


def epath( tag, *elements ):
    name			= tag.encode( 'ascii' )
    path			= b'\x91' + struct.pack( '<B', len( name )) + name + ( b'\x00' if len( name ) % 2 else b'' )
    for e in elements:
        path		       += struct.pack( '<BB', 0x28, e ) if e < 256 else struct.pack( '<BBH', 0x29, 0, e )
    return struct.pack( '<B', len( path ) // 2 ) + path


def read_tag( tag, elements=1, *index ):
    return b'\x4c' + epath( tag, *index ) + struct.pack( '<H', elements )


def cip_reply( reply ):
    """--> (service, general status, [extended status words], data)"""
    service,_,status,extsize	= struct.unpack_from( '<BBBB', reply )
    return service,status,list( struct.unpack_from( '<%dH' % extsize, reply, 4 )),reply[4+2*extsize:]


def main():
    control,server		= start( [ 'X=DINT' ] )
    try:
        attribute( 'X' )[0]	= 99
        ref			= reference()
        ref.forward_open()
        assert ref.connected( read_tag( 'X' ))[3][:4] == b'\xcc\x00\x00\x00'
        sts,rpy			= ref.forward_close()
        assert sts == 0 and cip_reply( rpy )[:2] == ( 0xCE, 0 ), "Forward Close failed"
        bad			= []
        for what,conn in ( ( "the closed connection", ref.ot_id ), ( "a connection never opened", 0xDEADBEEF ) ):
            try:
                sts,_,_,rpy	= ref.connected( read_tag( 'X' ), connection=conn )
            except ( EOFError, socket.timeout ):
                print( "SendUnitData on %s: no reply" % what )
                ref		= reference()
                continue
            print( "SendUnitData on %s (0x%08X): encapsulation status %d, CIP reply %r" % ( what, conn, sts, rpy ))
            if sts == 0 and rpy and cip_reply( rpy )[1] == 0:
                bad.append( "request on %s was executed and answered with status 0" % what )
        ref.triad		= getattr( ref, 'triad', struct.pack( '<HHI', 0x0BAD, 0x1337, 42 ))
        for what,triad in ( ( "the connection closed before", ref.triad ), ( "a connection never opened", struct.pack( '<HHI', 0x7777, 1, 1 ))):
            sts,rpy		= ref.forward_close( triad )
            print( "Forward Close of %s: encapsulation status %d, CIP reply %r" % ( what, sts, rpy ))
            if sts == 0 and cip_reply( rpy )[1] == 0:
                bad.append( "Forward Close of %s succeeded" % what )
        if bad:
            print( "CONTRADICTION: observed: %s; expected: no service on connections that are not open, and status 0x01/0x0107 for the Forward Close" % '; '.join( bad ))
            return 1
        return 0
    finally:
        stop( control, server )


if __name__ == "__main__":
    sys.exit( main() )
