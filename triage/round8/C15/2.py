#!/usr/bin/env python
"""
C15 defect 2 (UNCHANGED code): the gateway's route table look-up does not tell a numeric link from a
link address that happens to spell a number.

A simple (non-routing, route_path = False) simulator with the route table { "1/5": <target> } must
forward a request whose first route path segment is port 1 / numeric link 5 (wire: 01 05), and must
refuse everything else that carries a route path.  A request with the segment port 1 / link ADDRESS
"5" (wire: 11 01 '5' 00) differs from "1/5" in the kind of its link -- the local route path filter
tells the two apart ( {'port':1,'link':'5'} != {'port':1,'link':5} ) -- but UCMM.request's
find_route() formats both as the text "1/5", so the request is forwarded to the target of "1/5".

  input:     Unconnected Send w/ route path 11 01 35 00 to a -S style simulator w/ Route {"1/5": target}
  expected:  refused with EtherNet/IP status 0x08, no connection made to the route target
  observed:  a connection is made to the target of "1/5" (and, as the stand-in target here does not
             answer, status 0x65)

Exits 1 (printing observed vs expected) while the contradiction is present, 0 otherwise.
"""
from __future__ import print_function

import logging
import socket
import struct
import sys
import threading
import time

import cpppo
from cpppo.server.enip import client, device, logix, parser, ucmm
from cpppo.server.enip.main import main as enip_main

logging.basicConfig( level=logging.CRITICAL )

ADDR				= ( '127.0.0.1', 44894 )
TARGET				= ( '127.0.0.1', 44895 )


def unconnected_send( rp_bytes, value, session ):
    """SendRRData carrying an Unconnected Send (0x52 to @6/1) of Write Tag T = INT <value>, with the
    route path EPATH octets given (w/o its size/pad)."""
    tag				= b'\x91\x01T\x00'
    req				= b'\x4d' + bytes( bytearray( [len( tag ) // 2] )) + tag \
                                  + struct.pack( '<HHh', 0x00c3, 1, value )
    uns				= b'\x52\x02\x20\x06\x24\x01' + b'\x01\x64' \
                                  + struct.pack( '<H', len( req )) + req + ( b'\x00' if len( req ) % 2 else b'' )
    uns			       += bytes( bytearray( [len( rp_bytes ) // 2, 0] )) + rp_bytes
    cpf				= struct.pack( '<HHHHH', 2, 0, 0, 0xb2, len( uns )) + uns
    pay				= struct.pack( '<IH', 0, 5 ) + cpf
    return struct.pack( '<HHII', 0x6f, len( pay ), session, 0 ) + b'\x00' * 8 + struct.pack( '<I', 0 ) + pay


def transact( rp_bytes, value ):
    with client.connector( host=ADDR[0], port=ADDR[1], timeout=5.0 ) as conn:
        conn.send( unconnected_send( rp_bytes, value, conn.session ), timeout=5.0 )
        rsp,_			= client.await_response( conn, timeout=5.0 )
        return rsp.enip.status if rsp else None


class UCMM_simple_gateway( ucmm.UCMM ):
    """As  -S  with  [UCMM] Route = { "1/5": "127.0.0.1:44895" }"""
    route_path			= False
    route			= { "1/5": "%s:%d" % TARGET }


def main():
    device.lookup_reset()
    logix.setup_reset()

    # The stand-in route target only counts who comes knocking (and hangs up)
    knocks			= []
    listener			= socket.socket( socket.AF_INET, socket.SOCK_STREAM )
    listener.setsockopt( socket.SOL_SOCKET, socket.SO_REUSEADDR, 1 )
    listener.bind( TARGET )
    listener.listen( 5 )
    listener.settimeout( .1 )
    finished			= threading.Event()

    def target():
        while not finished.is_set():
            try:
                conn,peer	= listener.accept()
            except socket.timeout:
                continue
            knocks.append( peer )
            conn.close()

    knocker			= threading.Thread( target=target )
    knocker.daemon		= True
    knocker.start()

    control			= cpppo.apidict( 2.0, { 'done': False } )
    failure			= []

    def server():
        try:
            enip_main( argv=[ '--no-config', '--no-udp', '-a', '%s:%d' % ADDR, 'T=INT' ],
                       UCMM_class=UCMM_simple_gateway, server={ 'control': control } )
        except BaseException as exc:
            failure.append( exc )

    thread			= threading.Thread( target=server )
    thread.daemon		= True
    thread.start()
    problems			= []
    try:
        for _ in range( 100 ):
            assert not failure, "Simulator failed to start: %r" % ( failure, )
            try:
                socket.create_connection( ADDR, timeout=.2 ).close()
                break
            except Exception:
                time.sleep( .1 )

        # A route path that is neither routed nor acceptable to a simple device: refused locally
        status			= transact( b'\x01\x06', 1 )
        time.sleep( .2 )
        print( "route path 1/6 (numeric, no route):  status %r, connections to route target: %d" % ( status, len( knocks )))
        if status != 0x08 or knocks:
            problems.append( "route path 1/6: observed status %r, %d connections to the route target;"
                             " expected status 8 and none" % ( status, len( knocks )))

        # The link ADDRESS "5" is not the numeric link 5 of the route "1/5"
        del knocks[:]
        status			= transact( b'\x11\x01\x35\x00', 2 )
        time.sleep( .2 )
        print( "route path port 1, link address '5': status %r, connections to route target: %d" % ( status, len( knocks )))
        if status != 0x08 or knocks:
            problems.append( "route path [port 1, link ADDRESS '5'] w/ Route {\"1/5\": target}: observed status %r"
                             " and %d connection(s) made to the target of route 1/5; expected the request to be"
                             " refused locally (status 8, no connection): it differs from 1/5 in link kind" % (
                                 status, len( knocks )))
    finally:
        control['done']		= True
        finished.set()
        thread.join( 10 )
        knocker.join( 2 )
        listener.close()

    if problems:
        print( "CONTRADICTION: " + "\n               ".join( problems ))
        return 1
    print( "OK" )
    return 0


if __name__ == "__main__":
    sys.exit( main() )
