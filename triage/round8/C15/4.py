#!/usr/bin/env python
"""
C15 defect 4 (UNCHANGED code): the gateway rewrites the kind of a link it forwards.

When UCMM.request forwards a routed request, it hands the remaining (already parsed) route path
segments to client.unconnected_send, which runs them through device.parse_route_path / port_link
again -- the helper for TEXT / JSON configuration, which tries int() on every link first.  A remaining
segment  port 1 / link ADDRESS "5"  (wire: 11 01 '5' 00) leaves the gateway as  port 1 / numeric
link 5  (wire: 01 05).  The target simulator, configured with --route-path 1/5, then serves a request
whose route path -- as its originator sent it -- differs from 1/5 in link kind.  Sent to the target
directly, the same segment is (correctly) refused.

  input:     gateway w/ Route {"1/3": target};  target (own process) w/ --route-path 1/5;
             Unconnected Send to the gateway w/ route path  01 03  11 01 35 00
  expected:  the target refuses (it gets port 1 / link address "5"): gateway answers with an error
             status, the target's tag is untouched
  observed:  status 0, the target's tag is written

Exits 1 (printing observed vs expected) while the contradiction is present, 0 otherwise.
"""
from __future__ import print_function

import logging
import os
import socket
import struct
import subprocess
import sys
import threading
import time

import cpppo
from cpppo.server.enip import client, device, logix, parser, ucmm
from cpppo.server.enip.main import main as enip_main

logging.basicConfig( level=logging.CRITICAL )

GATEWAY				= ( '127.0.0.1', 44897 )
TARGET				= ( '127.0.0.1', 44898 )


def unconnected_send( rp_bytes, value, session ):
    """SendRRData carrying an Unconnected Send (0x52 to @6/1) of Write Tag T = INT <value>, with the
    route path EPATH octets given (w/o its size/pad)."""
    tag				= b'\x91\x01T\x00'
    req				= b'\x4d' + bytes( bytearray( [len( tag ) // 2] )) + tag \
                                  + struct.pack( '<HHh', 0x00c3, 1, value )
    uns				= b'\x52\x02\x20\x06\x24\x01' + b'\x05\x9d' \
                                  + struct.pack( '<H', len( req )) + req + ( b'\x00' if len( req ) % 2 else b'' )
    uns			       += bytes( bytearray( [len( rp_bytes ) // 2, 0] )) + rp_bytes
    cpf				= struct.pack( '<HHHHH', 2, 0, 0, 0xb2, len( uns )) + uns
    pay				= struct.pack( '<IH', 0, 5 ) + cpf
    return struct.pack( '<HHII', 0x6f, len( pay ), session, 0 ) + b'\x00' * 8 + struct.pack( '<I', 0 ) + pay


def transact( addr, rp_bytes, value ):
    with client.connector( host=addr[0], port=addr[1], timeout=5.0 ) as conn:
        conn.send( unconnected_send( rp_bytes, value, conn.session ), timeout=5.0 )
        rsp,_			= client.await_response( conn, timeout=5.0 )
        return rsp.enip.status if rsp else None


def tag_value( addr ):
    with client.connector( host=addr[0], port=addr[1], timeout=5.0 ) as conn:
        conn.read( path=[{'symbolic': 'T'}], elements=1, offset=None, route_path=False, send_path='' )
        rsp,_			= client.await_response( conn, timeout=5.0 )
        return rsp.enip.CIP.send_data.CPF.item[1].unconnected_send.request.read_tag.data[0]


def await_listener( addr, check=lambda: None ):
    for _ in range( 150 ):
        check()
        try:
            socket.create_connection( addr, timeout=.2 ).close()
            return
        except Exception:
            time.sleep( .1 )
    raise AssertionError( "No simulator at %r" % ( addr, ))


class UCMM_gateway( ucmm.UCMM ):
    """As  --route-path 1/0  with  [UCMM] Route = { "1/3": "127.0.0.1:44898" }"""
    route_path			= [{ 'port': 1, 'link': 0 }]
    route			= { "1/3": "%s:%d" % TARGET }


def main():
    device.lookup_reset()
    logix.setup_reset()

    # The target simulator has its own CIP Objects and Tag T: it needs its own process
    target			= subprocess.Popen(
        [ sys.executable, '-m', 'cpppo.server.enip', '--no-config', '--no-udp', '-a', '%s:%d' % TARGET,
          '--route-path', '1/5', 'T=INT' ],
        env=dict( os.environ ), stdout=subprocess.PIPE, stderr=subprocess.STDOUT )

    control			= cpppo.apidict( 2.0, { 'done': False } )
    failure			= []

    def server():
        try:
            enip_main( argv=[ '--no-config', '--no-udp', '-a', '%s:%d' % GATEWAY, 'T=INT' ],
                       UCMM_class=UCMM_gateway, server={ 'control': control } )
        except BaseException as exc:
            failure.append( exc )

    thread			= threading.Thread( target=server )
    thread.daemon		= True
    thread.start()
    problems			= []
    try:
        def check():
            assert not failure, "Gateway failed to start: %r" % ( failure, )
            assert target.poll() is None, "Target simulator exited: %r" % ( target.stdout.read(), )
        await_listener( GATEWAY, check )
        await_listener( TARGET, check )

        # Directly to the target: numeric 1/5 is served, link address "5" is refused
        status			= transact( TARGET, b'\x01\x05', 1 )
        value			= tag_value( TARGET )
        print( "target  <-- 1/5 (numeric):                  status %r, target T == %r" % ( status, value ))
        assert status == 0 and value == 1, "target does not serve its configured route path"
        status			= transact( TARGET, b'\x11\x01\x35\x00', 2 )
        value			= tag_value( TARGET )
        print( "target  <-- port 1, link address '5':       status %r, target T == %r" % ( status, value ))
        assert status and value == 1, "target does not refuse the link address '5'"

        # Via the gateway: 1/3, then numeric 1/5: served by the target
        status			= transact( GATEWAY, b'\x01\x03' + b'\x01\x05', 3 )
        value			= tag_value( TARGET )
        print( "gateway <-- 1/3, 1/5 (numeric):             status %r, target T == %r" % ( status, value ))
        if status != 0 or value != 3:
            problems.append( "via gateway, 1/3/1/5: observed status %r, target T == %r; expected 0, 3" % ( status, value ))

        # Via the gateway: 1/3, then port 1 / link address "5": must arrive as such, and be refused
        status			= transact( GATEWAY, b'\x01\x03' + b'\x11\x01\x35\x00', 4 )
        value			= tag_value( TARGET )
        print( "gateway <-- 1/3, port 1, link address '5':  status %r, target T == %r" % ( status, value ))
        if not status or value == 4:
            problems.append( "via gateway, route path [1/3][port 1, link ADDRESS '5'] to a target configured with"
                             " --route-path 1/5: observed status %r, target T == %r; expected an error status and"
                             " T == 3 (the target refuses this segment when it gets it as sent)" % ( status, value ))
    finally:
        control['done']		= True
        thread.join( 10 )
        target.terminate()
        target.wait()

    if problems:
        print( "CONTRADICTION: " + "\n               ".join( problems ))
        return 1
    print( "OK" )
    return 0


if __name__ == "__main__":
    sys.exit( main() )
