#!/usr/bin/env python
"""
C15 defect 1 (UNCHANGED code): the route-path personality of the FIRST simulator started in a process
sticks to every later one.

cpppo.server.enip.main.main() keeps its configuration in the module-level dotdict 'options', and
records the UCMM class that carries --route-path / -S with options.setdefault( 'UCMM_class', ... ).
A second main() in the same process (as the test-suite itself does, after device.lookup_reset() and
logix.setup_reset()) therefore gets the UCMM class of the first invocation:

  1st: main( --route-path 1/0 )            2nd: main( <no route path configuration> )
  expected of the 2nd: accepts any route path (eg. 1/1);  observed: refuses 1/1 with status 0x08

  3rd: main( --route-path 2/3 )
  expected of the 3rd: accepts 2/3 and refuses 1/0;       observed: refuses 2/3, accepts 1/0

Exits 1 (printing observed vs expected) while the contradiction is present, 0 otherwise.
"""
from __future__ import print_function

import logging
import socket
import sys
import threading
import time

import cpppo
from cpppo.server.enip import client, device, logix, parser
from cpppo.server.enip.main import main as enip_main

logging.basicConfig( level=logging.CRITICAL )


class simulator( object ):
    def __init__( self, port, argv ):
        self.addr		= ( '127.0.0.1', port )
        self.argv		= [ '--no-config', '--no-udp', '-a', '%s:%d' % self.addr ] + argv
        self.control		= cpppo.apidict( 2.0, { 'done': False } )
        self.failure		= []
        self.thread		= threading.Thread( target=self.run )
        self.thread.daemon	= True

    def run( self ):
        try:
            enip_main( argv=self.argv, server={ 'control': self.control } )
        except BaseException as exc:
            self.failure.append( exc )

    def __enter__( self ):
        # A completely fresh CIP Object directory and UCMM for every simulator
        device.lookup_reset()
        logix.setup_reset()
        self.thread.start()
        for _ in range( 100 ):
            assert not self.failure, "Simulator failed to start: %r" % ( self.failure, )
            try:
                socket.create_connection( self.addr, timeout=.2 ).close()
                break
            except Exception:
                time.sleep( .1 )
        return self

    def __exit__( self, *exc ):
        self.control['done']	= True
        self.thread.join( 10 )

    def write( self, route_path, value ):
        with client.connector( host=self.addr[0], port=self.addr[1], timeout=5.0 ) as conn:
            conn.write( path=[{'symbolic': 'T'}], data=[value], elements=1, tag_type=parser.INT.tag_type,
                        route_path=route_path )
            rsp,_		= client.await_response( conn, timeout=5.0 )
            return rsp.enip.status if rsp else None

    def value( self ):
        with client.connector( host=self.addr[0], port=self.addr[1], timeout=5.0 ) as conn:
            conn.read( path=[{'symbolic': 'T'}], elements=1, offset=None, route_path=False, send_path='' )
            rsp,_		= client.await_response( conn, timeout=5.0 )
            return rsp.enip.CIP.send_data.CPF.item[1].unconnected_send.request.read_tag.data[0]


def main():
    problems			= []

    with simulator( 44891, [ '--route-path', '1/0', 'T=INT' ] ) as sim:
        status			= sim.write( '1/0', 1 )
        print( "1st simulator (--route-path 1/0): route path 1/0 --> status %r, T == %r" % ( status, sim.value() ))
        status			= sim.write( '1/1', 2 )
        print( "1st simulator (--route-path 1/0): route path 1/1 --> status %r, T == %r" % ( status, sim.value() ))

    with simulator( 44892, [ 'T=INT' ] ) as sim:
        status			= sim.write( '1/1', 3 )
        value			= sim.value()
        print( "2nd simulator (no configuration): route path 1/1 --> status %r, T == %r" % ( status, value ))
        if status != 0 or value != 3:
            problems.append( "2nd simulator, started with no route path configuration: request with route path 1/1"
                             " observed status %r, T == %r; expected status 0, T == 3 (any route path accepted)" % (
                                 status, value ))

    with simulator( 44893, [ '--route-path', '2/3', 'T=INT' ] ) as sim:
        status			= sim.write( '2/3', 4 )
        value			= sim.value()
        print( "3rd simulator (--route-path 2/3): route path 2/3 --> status %r, T == %r" % ( status, value ))
        if status != 0 or value != 4:
            problems.append( "3rd simulator, started with --route-path 2/3: request with route path 2/3"
                             " observed status %r, T == %r; expected status 0, T == 4" % ( status, value ))
        status			= sim.write( '1/0', 5 )
        value			= sim.value()
        print( "3rd simulator (--route-path 2/3): route path 1/0 --> status %r, T == %r" % ( status, value ))
        if not status or value == 5:
            problems.append( "3rd simulator, started with --route-path 2/3: request with route path 1/0"
                             " observed status %r, T == %r; expected an error status, T untouched" % ( status, value ))

    if problems:
        print( "CONTRADICTION: " + "\n               ".join( problems ))
        return 1
    print( "OK" )
    return 0


if __name__ == "__main__":
    sys.exit( main() )
