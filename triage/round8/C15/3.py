#!/usr/bin/env python
"""
C15 defect 3 (UNCHANGED code): the multi-segment route path that README.org lists among the
simulator's own --route-path examples

    : --route-path 1/0/2/192.168.1.2 # { backplane, slot 0 }, { port 2, link 192.168.1.2 }

cannot be configured on the command line: cpppo.server.enip.main.main() asserts that the parsed route
path has exactly one segment and dies at start-up, although the UCMM itself compares the whole list
(the same route path is honoured when it comes from "[UCMM] Route Path = 1/0/2/192.168.1.2" in a
configuration file).

  input:     main( --route-path 1/0/2/192.168.1.2 T=INT ), then requests w/ route paths
             1/0/2/192.168.1.2 (equal), 1/0 (shorter), 1/0/2/192.168.1.3 (differs in link)
  expected:  the simulator starts; serves the first, refuses the other two
  observed:  AssertionError "route_path: must be JSON null/0/false, or a single [port/link], not: ..."

Exits 1 (printing observed vs expected) while the contradiction is present, 0 otherwise.
"""
from __future__ import print_function

import logging
import socket
import sys
import threading
import time

import cpppo
from cpppo.server.enip import client, device, logix, parser
from cpppo.server.enip.main import main as enip_main

logging.basicConfig( level=logging.CRITICAL )

ADDR				= ( '127.0.0.1', 44896 )
ROUTE_PATH			= '1/0/2/192.168.1.2'	# from README.org, "EtherNet/IP Controller Communications Simulator"


def write( route_path, value ):
    with client.connector( host=ADDR[0], port=ADDR[1], timeout=5.0 ) as conn:
        conn.write( path=[{'symbolic': 'T'}], data=[value], elements=1, tag_type=parser.INT.tag_type,
                    route_path=route_path )
        rsp,_			= client.await_response( conn, timeout=5.0 )
        return rsp.enip.status if rsp else None


def tag_value():
    with client.connector( host=ADDR[0], port=ADDR[1], timeout=5.0 ) as conn:
        conn.read( path=[{'symbolic': 'T'}], elements=1, offset=None, route_path=False, send_path='' )
        rsp,_			= client.await_response( conn, timeout=5.0 )
        return rsp.enip.CIP.send_data.CPF.item[1].unconnected_send.request.read_tag.data[0]


def main():
    device.lookup_reset()
    logix.setup_reset()
    control			= cpppo.apidict( 2.0, { 'done': False } )
    failure			= []

    def server():
        try:
            enip_main( argv=[ '--no-config', '--no-udp', '-a', '%s:%d' % ADDR, '--route-path', ROUTE_PATH, 'T=INT' ],
                       server={ 'control': control } )
        except BaseException as exc:
            failure.append( exc )

    thread			= threading.Thread( target=server )
    thread.daemon		= True
    thread.start()
    problems			= []
    try:
        started			= False
        for _ in range( 100 ):
            if failure:
                break
            try:
                socket.create_connection( ADDR, timeout=.2 ).close()
                started		= True
                break
            except Exception:
                time.sleep( .1 )
        if not started:
            problems.append( "main( --route-path %s ): observed %r at start-up; expected a simulator that accepts"
                             " exactly this two-segment route path (README.org lists it as an example)" % (
                                 ROUTE_PATH, failure[0] if failure else "no listener" ))
        else:
            for rp,val,accept in (( ROUTE_PATH, 1, True ), ( '1/0', 2, False ), ( '1/0/2/192.168.1.3', 3, False )):
                before		= tag_value()
                status		= write( rp, val )
                value		= tag_value()
                print( "route path %-20s --> status %r, T == %r" % ( rp, status, value ))
                if accept and ( status != 0 or value != val ):
                    problems.append( "route path %s: observed status %r, T == %r; expected 0, %r" % ( rp, status, value, val ))
                if not accept and ( not status or value != before ):
                    problems.append( "route path %s: observed status %r, T == %r; expected error status, T == %r" % (
                        rp, status, value, before ))
    finally:
        control['done']		= True
        thread.join( 10 )

    if problems:
        print( "CONTRADICTION: " + "\n               ".join( problems ))
        return 1
    print( "OK" )
    return 0


if __name__ == "__main__":
    sys.exit( main() )
