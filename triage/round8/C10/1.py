#!/usr/bin/env python
"""
C10 defect 1: a dfa with a repeat count reports .terminal == True as soon as its LAST cycle has
*begun* -- before the sub-grammar of that cycle has run (dfa_base.delegate advances self.cycle at
the top of the cycle; its own docstring says "Unless a cycle of the sub-machine completes ... we
will not advance cycle; hence, self.terminal will remain False on any early exit").

So a machine that was given repeat=N (a fixed number, or a length field parsed earlier) claims to
be complete after only N-1 runs of its sub-grammar, whenever that sub-grammar's initial state is
itself terminal (octets, octets_drop, every TYPE, the enip_machine payload, tnet's DATA, ...).

Expected: exit 0 (not terminal while a cycle is outstanding).  Observed: exit 1.
"""
from __future__ import print_function

import contextlib
import struct
import sys

import cpppo
from cpppo.server.enip import parser


def starve( machine, raw ):
    """Run the machine over raw the way every caller in the library does -- 'til it asks for more
    input than there is -- and then abandon it.  Returns (terminal while waiting, terminal after
    abandoning, symbols sent, data, exception)."""
    data			= cpppo.dotdict()
    source			= cpppo.chainable( raw )
    waiting = after = exc	= None
    try:
        with machine:
            with contextlib.closing( machine.run( source=source, data=data )) as engine:
                for m,s in engine:
                    if s is None and source.peek() is None:
                        waiting	= machine.terminal
                        break
    except Exception as e:
        exc			= e
    after			= machine.terminal
    return waiting, after, source.sent, data, exc


problems			= []
frame				= struct.pack( '<HHII8sI', 0x006f, 5, 1, 0, b'01234567', 0 ) + b'abcd' # .length 5, 4 present
for name,machine,raw,need in [
        ( "octets( repeat=3 )",		parser.octets( context='x', repeat=3, terminal=True ),	b'\x01\x02',	3 ),
        ( "octets_drop( repeat=2 )",	parser.octets_drop( 'pad', repeat=2, terminal=True ),	b'\x00',	2 ),
        ( "UDINT",			parser.UDINT( terminal=True ),				b'\x01\x02\x03',4 ),
        ( "enip_machine, .length 5",	parser.enip_machine( terminal=True ),			frame,		29 ),
]:
    waiting,after,sent,data,exc	= starve( machine, raw )
    print( "%-26s needs %2d symbols, got %2d: .terminal while awaiting input: %-5s after abandoning: %-5s%s" % (
        name, need, sent, waiting, after, ( "; abandoning raised %r" % ( exc, )) if exc else "" ))
    if waiting or after:
        problems.append( "%s: observed .terminal == True after %d of %d symbols (its last cycle never ran); expected False" % (
            name, sent, need ))
    if exc is not None:
        problems.append( "%s: abandoning the unfinished machine raised %r (it took itself for complete, and decoded); expected no decoding" % (
            name, exc ))

if problems:
    print()
    for p in problems:
        print( p )
    sys.exit( 1 )
print( "OK: no machine is terminal before its last repeat cycle has run" )
