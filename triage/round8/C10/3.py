#!/usr/bin/env python
"""
C10 defect 3 (minor): a repeat count of 0.  dfa_base.delegate runs the sub-grammar 0 times, as it
must -- but whether the machine then counts as complete (.terminal) is taken from self.current,
which a run of 0 cycles never sets: it is the sub-machine's *initial* state on a fresh machine, and
*whatever state the previous message ended in* on a used one.

  - parser.octets( repeat=0 ) is complete after 0 octets (the enip_machine relies on this for every
    header-only frame), but parser.words( repeat=0 ) -- same thing, in 2-octet units -- never is;
  - with a repeat taken from a length field, the very same input ( count 0 ) is refused by a fresh
    parser and accepted by one that parsed a message with count >= 1 before.

Expected: repeat 0 --> 0 runs and a result that does not depend on the machine's history; exit 0.
Observed: exit 1.
"""
from __future__ import print_function

import sys

import cpppo
from cpppo.server.enip import parser


def run( machine, raw, data ):
    source			= cpppo.peekable( raw )
    exc				= None
    try:
        with machine:
            for m,s in machine.run( source=source, data=data ):
                pass
    except Exception as e:
        exc			= e
    return exc, source.sent, machine.terminal


problems			= []

o_exc,o_sent,o_term		= run( parser.octets( context='x', repeat=0, terminal=True ), b'\x01\x02', cpppo.dotdict() )
w_exc,w_sent,w_term		= run( parser.words(  context='x', repeat=0, terminal=True ), b'\x01\x02', cpppo.dotdict() )
print( "octets( repeat=0 ): consumed %d, terminal %s, %r" % ( o_sent, o_term, o_exc ))
print( "words(  repeat=0 ): consumed %d, terminal %s, %r" % ( w_sent, w_term, w_exc ))
if ( o_sent, w_sent ) != ( 0, 0 ):
    problems.append( "repeat=0 consumed input: octets %d, words %d" % ( o_sent, w_sent ))
if o_term != w_term:
    problems.append( "octets( repeat=0 ).terminal == %s, but words( repeat=0 ).terminal == %s; expected both complete" % (
        o_term, w_term ))

# The count comes from a length field parsed earlier ( here: supplied in the data ), one machine, three messages
machine				= parser.words( context='x', repeat='..count', terminal=True )
history				= []
for count,raw in [ (0, b''), (1, b'\xAA\xBB'), (0, b'') ]:
    data			= cpppo.dotdict( count=count )
    exc,sent,term		= run( machine, raw + b'\xEE\xEE', data )
    history.append( (count,sent,term) )
    print( "words( repeat='..count' ), count %d: consumed %d, terminal %s, %r" % ( count, sent, term, exc ))
if history[0] != history[2]:
    problems.append( "the same message ( count 0 ) gives (count,consumed,terminal) %r on a fresh machine, but %r after a message with count 1" % (
        history[0], history[2] ))

if problems:
    print()
    for p in problems:
        print( p )
    sys.exit( 1 )
print( "OK" )
