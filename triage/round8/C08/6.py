"""C08 defect 6: the time to process nested Multiple Service Packets grows with the SQUARE of the input length.

A Multiple Service Packet may carry a Multiple Service Packet as its (only) member, and so on.  Every
level is scanned octet by octet by its parent (as opaque request data) and then once more by its own
parser (state_multiple_service.closure), which again hands all that remains to the next level: a frame
of n levels (10 octets each) costs ~ n*n/2 octet scans, each of them through the Python DFA machinery.
Measured on an idle machine: 250 levels (2.5 KB) 7 s, 400 levels (4 KB) 22 s, 1200 levels (12 KB) 105 s
of one thread -- for ONE frame that is far below the 64 KB a frame may have.

The property asks for processing time bounded by (ie. proportional to) the input length.  This program
measures depths 60, 120 and 240: linear growth quadruples the time from 60 to 240, quadratic growth
multiplies it by 16.  Exit 1 if the factor is above 8."""
from __future__ import print_function
import logging, socket, struct, sys, threading, time

import cpppo
from cpppo.server.enip.main import main as enip_main

PORT				= 44818
ADDR				= ( 'localhost', PORT )

def frame( command, payload, session=0 ):
    return struct.pack( '<HHII8sI', command, len( payload ), session, 0, b'\0' * 8, 0 ) + payload

def recv_frame( sock, timeout=10.0 ):
    """One EtherNet/IP frame (b'' on EOF / nothing within timeout)"""
    sock.settimeout( timeout )
    buf				= b''
    try:
        while len( buf ) < 24 or len( buf ) < 24 + struct.unpack( '<H', buf[2:4] )[0]:
            got			= sock.recv( 4096 )
            if not got:
                break
            buf		       += got
    except socket.timeout:
        pass
    return buf

def session():
    sock			= socket.create_connection( ADDR, timeout=5 )
    sock.sendall( frame( 0x0065, b'\x01\x00\x00\x00' ))
    return sock, struct.unpack( '<I', recv_frame( sock )[4:8] )[0]

def send_rr( request, handle, item0=( 0x0000, b'' ), item1_length=None, trailer=b'' ):
    """SendRRData: address item (default: Null) + Unconnected Data item carrying the bare request"""
    cpf				= struct.pack( '<IHH', 0, 8, 2 ) \
                                  + struct.pack( '<HH', item0[0], len( item0[1] )) + item0[1] \
                                  + struct.pack( '<HH', 0x00b2, len( request ) if item1_length is None else item1_length ) \
                                  + request + trailer
    return frame( 0x006f, cpf, session=handle )

def symbolic( name ):
    name			= name.encode( 'iso-8859-1' )
    return b'\x91' + struct.pack( 'B', len( name )) + name + ( b'\0' if len( name ) % 2 else b'' )

def read_tag( name, elements ):
    path			= symbolic( name )
    return b'\x4c' + struct.pack( 'B', len( path ) // 2 ) + path + struct.pack( '<H', elements )

def read_dints( name, elements ):
    """Read Tag from a fresh session, to see what the tag holds."""
    sock, handle		= session()
    try:
        sock.sendall( send_rr( read_tag( name, elements ), handle ))
        reply			= recv_frame( sock )[40:]
        assert reply[:6] == b'\xcc\x00\x00\x00\xc4\x00', "Read Tag %s failed: %r" % ( name, reply )
        return list( struct.unpack( '<%di' % elements, reply[6:6+4*elements] ))
    finally:
        sock.close()

def start( *tags ):
    logging.disable( logging.CRITICAL )
    control			= cpppo.apidict( 1.0, { 'done': False } )
    server			= threading.Thread( target=enip_main, kwargs=dict(
        argv=[ '--no-udp', '--address', '%s:%d' % ADDR ] + list( tags ),
        server=dict( control=control )))
    server.daemon		= True
    server.start()
    for _ in range( 100 ):
        try:
            socket.create_connection( ADDR, timeout=1 ).close()
            return control
        except Exception:
            time.sleep( .1 )
    raise RuntimeError( "simulator did not start" )

def nested( depth ):
    request			= read_tag( 'DI', 1 )
    for _ in range( depth ):
        request			= b'\x0a\x02\x20\x02\x24\x01' + struct.pack( '<HH', 1, 4 ) + request
    return request

def main():
    control			= start( 'DI=DINT[4]' )
    try:
        sock, handle		= session()
        elapsed			= {}
        for attempt in range( 2 ):				# the best of two, to shed other load on the machine
            for depth in ( 60, 120, 240 ):
                request		= nested( depth )
                begun		= time.time()
                sock.sendall( send_rr( request, handle ))
                reply		= recv_frame( sock, timeout=120 )
                took		= time.time() - begun
                assert reply[40:44] == b'\x8a\x00\x00\x00', "Unexpected reply: %r" % reply[40:]
                elapsed[depth]	= min( took, elapsed.get( depth, took ))
        sock.close()
        for depth in sorted( elapsed ):
            print( "%4d levels, %5d octets: %7.3fs" % ( depth, len( nested( depth )), elapsed[depth] ))
        factor			= elapsed[240] / elapsed[60]
        print( "4 x the input takes %.1f x the time" % factor )
        if factor > 8:
            print( "observed: processing time grows about with the square of the input length (factor %.1f for 4 x the"
                   " length); expected: about proportional to it (factor ~4)" % factor )
            return 1
        return 0
    finally:
        control['done']		= True

if __name__ == "__main__":
    sys.exit( main() )
