"""C08 defect 3: the length of an ANSI Extended Symbolic segment (0x91 <length> <name>) only limits the name;
a Write Tag whose symbolic segment announces more octets than the request path holds is executed against
the tag named by the octets that happen to be there.

  a) 4d 02 91 06 "DI" ...   name length 6, but the 2-word path ends after "DI"
  b) 4d 02 91 03 "DI" ...   name length 3 (odd: a pad would follow), the path ends after "DI"

Both are taken for tag "DI" and written.  (Same family as the STRING repair 6db9b7e; the symbolic
segment in EPATH was left as it was.)

Expected: refused (path syntax error 0x04 / 0x26), tag unchanged; observed: success, tag altered.
Exit 1 while the contradiction is present."""
from __future__ import print_function
import logging, socket, struct, sys, threading, time

import cpppo
from cpppo.server.enip.main import main as enip_main

PORT				= 44818
ADDR				= ( 'localhost', PORT )

def frame( command, payload, session=0 ):
    return struct.pack( '<HHII8sI', command, len( payload ), session, 0, b'\0' * 8, 0 ) + payload

def recv_frame( sock, timeout=10.0 ):
    """One EtherNet/IP frame (b'' on EOF / nothing within timeout)"""
    sock.settimeout( timeout )
    buf				= b''
    try:
        while len( buf ) < 24 or len( buf ) < 24 + struct.unpack( '<H', buf[2:4] )[0]:
            got			= sock.recv( 4096 )
            if not got:
                break
            buf		       += got
    except socket.timeout:
        pass
    return buf

def session():
    sock			= socket.create_connection( ADDR, timeout=5 )
    sock.sendall( frame( 0x0065, b'\x01\x00\x00\x00' ))
    return sock, struct.unpack( '<I', recv_frame( sock )[4:8] )[0]

def send_rr( request, handle, item0=( 0x0000, b'' ), item1_length=None, trailer=b'' ):
    """SendRRData: address item (default: Null) + Unconnected Data item carrying the bare request"""
    cpf				= struct.pack( '<IHH', 0, 8, 2 ) \
                                  + struct.pack( '<HH', item0[0], len( item0[1] )) + item0[1] \
                                  + struct.pack( '<HH', 0x00b2, len( request ) if item1_length is None else item1_length ) \
                                  + request + trailer
    return frame( 0x006f, cpf, session=handle )

def symbolic( name ):
    name			= name.encode( 'iso-8859-1' )
    return b'\x91' + struct.pack( 'B', len( name )) + name + ( b'\0' if len( name ) % 2 else b'' )

def read_tag( name, elements ):
    path			= symbolic( name )
    return b'\x4c' + struct.pack( 'B', len( path ) // 2 ) + path + struct.pack( '<H', elements )

def read_dints( name, elements ):
    """Read Tag from a fresh session, to see what the tag holds."""
    sock, handle		= session()
    try:
        sock.sendall( send_rr( read_tag( name, elements ), handle ))
        reply			= recv_frame( sock )[40:]
        assert reply[:6] == b'\xcc\x00\x00\x00\xc4\x00', "Read Tag %s failed: %r" % ( name, reply )
        return list( struct.unpack( '<%di' % elements, reply[6:6+4*elements] ))
    finally:
        sock.close()

def start( *tags ):
    logging.disable( logging.CRITICAL )
    control			= cpppo.apidict( 1.0, { 'done': False } )
    server			= threading.Thread( target=enip_main, kwargs=dict(
        argv=[ '--no-udp', '--address', '%s:%d' % ADDR ] + list( tags ),
        server=dict( control=control )))
    server.daemon		= True
    server.start()
    for _ in range( 100 ):
        try:
            socket.create_connection( ADDR, timeout=1 ).close()
            return control
        except Exception:
            time.sleep( .1 )
    raise RuntimeError( "simulator did not start" )

def main():
    control			= start( 'DI=DINT[4]' )
    try:
        bad			= 0
        for label,path in (( "length 6 in a 2-word path", b'\x91\x06DI' ), ( "length 3 (odd) in a 2-word path", b'\x91\x03DI' )):
            before		= read_dints( 'DI', 4 )
            sock, handle	= session()
            write		= b'\x4d\x02' + path + struct.pack( '<HH', 0x00c4, 2 ) + struct.pack( '<ii', before[0] + 5, before[1] + 6 )
            sock.sendall( send_rr( write, handle ))
            reply		= recv_frame( sock )[40:]
            sock.close()
            after		= read_dints( 'DI', 4 )
            print( "symbolic segment %s: reply %r; DI %r --> %r" % ( label, reply, before, after ))
            if after != before:
                print( "  observed: tag altered through a symbolic segment whose .length exceeds the path;"
                       " expected: request refused, tag unchanged" )
                bad	       += 1
        return 1 if bad else 0
    finally:
        control['done']		= True

if __name__ == "__main__":
    sys.exit( main() )
