"""C08 defect 2: the size of a request path (EPATH .size, in words) only limits the segments parsed; a Write
Tag whose path announces far more words than the request even contains is executed.

Request:  4d 57 91 02 "DI" c4 00 02 00 <2 DINTs>:  path size 0x57 = 87 words = 174 octets, but only 2
words of segments follow (and the whole request is 20 octets).  The segment parser stops at the first
octet that begins no segment (0xc4, the data type) and nothing checks that .size words were consumed,
so the inconsistent length field goes unnoticed and the tag is written.

Expected: refused (eg. status 0x26 "path size invalid" / 0x04), tag unchanged; observed: success, tag
altered.  Exit 1 while the contradiction is present."""
from __future__ import print_function
import logging, socket, struct, sys, threading, time

import cpppo
from cpppo.server.enip.main import main as enip_main

PORT				= 44818
ADDR				= ( 'localhost', PORT )

def frame( command, payload, session=0 ):
    return struct.pack( '<HHII8sI', command, len( payload ), session, 0, b'\0' * 8, 0 ) + payload

def recv_frame( sock, timeout=10.0 ):
    """One EtherNet/IP frame (b'' on EOF / nothing within timeout)"""
    sock.settimeout( timeout )
    buf				= b''
    try:
        while len( buf ) < 24 or len( buf ) < 24 + struct.unpack( '<H', buf[2:4] )[0]:
            got			= sock.recv( 4096 )
            if not got:
                break
            buf		       += got
    except socket.timeout:
        pass
    return buf

def session():
    sock			= socket.create_connection( ADDR, timeout=5 )
    sock.sendall( frame( 0x0065, b'\x01\x00\x00\x00' ))
    return sock, struct.unpack( '<I', recv_frame( sock )[4:8] )[0]

def send_rr( request, handle, item0=( 0x0000, b'' ), item1_length=None, trailer=b'' ):
    """SendRRData: address item (default: Null) + Unconnected Data item carrying the bare request"""
    cpf				= struct.pack( '<IHH', 0, 8, 2 ) \
                                  + struct.pack( '<HH', item0[0], len( item0[1] )) + item0[1] \
                                  + struct.pack( '<HH', 0x00b2, len( request ) if item1_length is None else item1_length ) \
                                  + request + trailer
    return frame( 0x006f, cpf, session=handle )

def symbolic( name ):
    name			= name.encode( 'iso-8859-1' )
    return b'\x91' + struct.pack( 'B', len( name )) + name + ( b'\0' if len( name ) % 2 else b'' )

def read_tag( name, elements ):
    path			= symbolic( name )
    return b'\x4c' + struct.pack( 'B', len( path ) // 2 ) + path + struct.pack( '<H', elements )

def read_dints( name, elements ):
    """Read Tag from a fresh session, to see what the tag holds."""
    sock, handle		= session()
    try:
        sock.sendall( send_rr( read_tag( name, elements ), handle ))
        reply			= recv_frame( sock )[40:]
        assert reply[:6] == b'\xcc\x00\x00\x00\xc4\x00', "Read Tag %s failed: %r" % ( name, reply )
        return list( struct.unpack( '<%di' % elements, reply[6:6+4*elements] ))
    finally:
        sock.close()

def start( *tags ):
    logging.disable( logging.CRITICAL )
    control			= cpppo.apidict( 1.0, { 'done': False } )
    server			= threading.Thread( target=enip_main, kwargs=dict(
        argv=[ '--no-udp', '--address', '%s:%d' % ADDR ] + list( tags ),
        server=dict( control=control )))
    server.daemon		= True
    server.start()
    for _ in range( 100 ):
        try:
            socket.create_connection( ADDR, timeout=1 ).close()
            return control
        except Exception:
            time.sleep( .1 )
    raise RuntimeError( "simulator did not start" )

def main():
    control			= start( 'DI=DINT[4]' )
    try:
        before			= read_dints( 'DI', 4 )
        sock, handle		= session()
        write			= b'\x4d\x57' + symbolic( 'DI' ) + struct.pack( '<HH', 0x00c4, 2 ) + struct.pack( '<ii', 17, 18 )
        sock.sendall( send_rr( write, handle ))
        reply			= recv_frame( sock )[40:]
        sock.close()
        after			= read_dints( 'DI', 4 )
        print( "Write Tag with path size 87 words (2 present): reply %r; DI %r --> %r" % ( reply, before, after ))
        if after != before:
            print( "observed: tag altered by a request whose path .size (87 words) contradicts its contents (2 words);"
                   " expected: request refused, tag unchanged" )
            return 1
        return 0
    finally:
        control['done']		= True

if __name__ == "__main__":
    sys.exit( main() )
