"""C08 defect 7: a TCP session that ends INSIDE a frame leaves its Forward Open behind; a new session that
happens to come from the same address and port inherits it.

enip_srv_tcp tells the protocol layer that a session is over (enip_process( addr, data={} ), which
makes Connection_Manager.forward_close purge the session's connections) in two cases: when the peer
closes between two frames, and when processing a request raises.  When the frame parser fails -- the
peer sends part of a frame and closes / resets -- the outer except/finally only closes the socket: the
Connection_Manager.forwards entries keyed ( host, port, O->T connection ID ) stay for ever.

Here a first session opens a connection whose O->T connection ID is the originator's (O->T type
Multicast), then dies; a second session from the same source port asks for the same connection ID with
another RPI, as it may on a fresh session:
  - first session reset between two frames:   second Forward Open succeeds (state was purged)
  - first session reset 10 octets into a frame: second Forward Open is refused, status 0x08
    ("Already have an incompatible Forward Open ...")
  - first session ended by UnregisterSession:   likewise refused (reported, not part of the verdict)

Expected: what one session leaves behind never depends on where in a frame it died, and a new session
starts from nothing; observed: the new session is refused.  Exit 1 while the contradiction is present."""
from __future__ import print_function
import logging, socket, struct, sys, threading, time

import cpppo
from cpppo.server.enip.main import main as enip_main

PORT				= 44818
ADDR				= ( 'localhost', PORT )

def frame( command, payload, session=0 ):
    return struct.pack( '<HHII8sI', command, len( payload ), session, 0, b'\0' * 8, 0 ) + payload

def recv_frame( sock, timeout=10.0 ):
    """One EtherNet/IP frame (b'' on EOF / nothing within timeout)"""
    sock.settimeout( timeout )
    buf				= b''
    try:
        while len( buf ) < 24 or len( buf ) < 24 + struct.unpack( '<H', buf[2:4] )[0]:
            got			= sock.recv( 4096 )
            if not got:
                break
            buf		       += got
    except socket.timeout:
        pass
    return buf

def session():
    sock			= socket.create_connection( ADDR, timeout=5 )
    sock.sendall( frame( 0x0065, b'\x01\x00\x00\x00' ))
    return sock, struct.unpack( '<I', recv_frame( sock )[4:8] )[0]

def send_rr( request, handle, item0=( 0x0000, b'' ), item1_length=None, trailer=b'' ):
    """SendRRData: address item (default: Null) + Unconnected Data item carrying the bare request"""
    cpf				= struct.pack( '<IHH', 0, 8, 2 ) \
                                  + struct.pack( '<HH', item0[0], len( item0[1] )) + item0[1] \
                                  + struct.pack( '<HH', 0x00b2, len( request ) if item1_length is None else item1_length ) \
                                  + request + trailer
    return frame( 0x006f, cpf, session=handle )

def symbolic( name ):
    name			= name.encode( 'iso-8859-1' )
    return b'\x91' + struct.pack( 'B', len( name )) + name + ( b'\0' if len( name ) % 2 else b'' )

def read_tag( name, elements ):
    path			= symbolic( name )
    return b'\x4c' + struct.pack( 'B', len( path ) // 2 ) + path + struct.pack( '<H', elements )

def read_dints( name, elements ):
    """Read Tag from a fresh session, to see what the tag holds."""
    sock, handle		= session()
    try:
        sock.sendall( send_rr( read_tag( name, elements ), handle ))
        reply			= recv_frame( sock )[40:]
        assert reply[:6] == b'\xcc\x00\x00\x00\xc4\x00', "Read Tag %s failed: %r" % ( name, reply )
        return list( struct.unpack( '<%di' % elements, reply[6:6+4*elements] ))
    finally:
        sock.close()

def start( *tags ):
    logging.disable( logging.CRITICAL )
    control			= cpppo.apidict( 1.0, { 'done': False } )
    server			= threading.Thread( target=enip_main, kwargs=dict(
        argv=[ '--no-udp', '--address', '%s:%d' % ADDR ] + list( tags ),
        server=dict( control=control )))
    server.daemon		= True
    server.start()
    for _ in range( 100 ):
        try:
            socket.create_connection( ADDR, timeout=1 ).close()
            return control
        except Exception:
            time.sleep( .1 )
    raise RuntimeError( "simulator did not start" )

SOURCE_PORTS			= iter( range( 50123, 50200 ))

def session_from( port ):
    sock			= socket.socket( socket.AF_INET, socket.SOCK_STREAM )
    sock.setsockopt( socket.SOL_SOCKET, socket.SO_REUSEADDR, 1 )
    sock.bind(( '127.0.0.1', port ))
    sock.settimeout( 5 )
    sock.connect(( '127.0.0.1', PORT ))
    sock.sendall( frame( 0x0065, b'\x01\x00\x00\x00' ))
    return sock, struct.unpack( '<I', recv_frame( sock )[4:8] )[0]

def reset( sock ):
    """Abortive close (RST): the peer sees the connection end at once, and the port is free again."""
    sock.setsockopt( socket.SOL_SOCKET, socket.SO_LINGER, struct.pack( 'ii', 1, 0 ))
    sock.close()

def forward_open( rpi, serial ):
    """Forward Open (0x54) to the Connection Manager; O->T Multicast (the originator picks the O->T ID 0x1111)"""
    return ( b'\x54\x02\x20\x06\x24\x01' + struct.pack( '<BBIIHHIB3x', 5, 157, 0x1111, 0x2222, serial, 2, 1, 0 )
             + struct.pack( '<IH', rpi, 0x23f4 )		# O->T RPI, NCP: Multicast, variable, 500 bytes
             + struct.pack( '<IH', rpi, 0x43f4 )		# T->O RPI, NCP: Point-to-Point, variable, 500 bytes
             + b'\xa3' + b'\x03\x01\x00\x20\x02\x24\x01' )	# transport class/trigger, connection path 1/0/@2/1

def scenario( port, die_inside_frame, unregister=False ):
    first, handle		= session_from( port )
    first.sendall( send_rr( forward_open( rpi=2000, serial=3 ), handle ))
    reply			= recv_frame( first )[40:]
    assert reply[:4] == b'\xd4\x00\x00\x00', "first Forward Open failed: %r" % reply
    if die_inside_frame:
        first.sendall( send_rr( read_tag( 'DI', 1 ), handle )[:10] )
        time.sleep( .3 )
    if unregister:
        first.sendall( frame( 0x0066, b'', session=handle ))	# UnregisterSession: the simulator closes
        recv_frame( first, timeout=2 )
    reset( first )
    time.sleep( 1.0 )						# let the simulator notice, and finish with the session

    second, handle		= session_from( port )
    second.sendall( send_rr( forward_open( rpi=3000, serial=4 ), handle ))
    reply			= recv_frame( second )[40:]
    reset( second )
    time.sleep( .5 )
    return reply

def main():
    control			= start( 'DI=DINT[4]' )
    try:
        between			= scenario( next( SOURCE_PORTS ), die_inside_frame=False )
        inside			= scenario( next( SOURCE_PORTS ), die_inside_frame=True )
        unregd			= scenario( next( SOURCE_PORTS ), die_inside_frame=False, unregister=True )
        print( "new session's Forward Open after the old one was reset between frames: %r" % between[:4] )
        print( "new session's Forward Open after the old one was reset inside a frame: %r" % inside[:4] )
        print( "new session's Forward Open after the old one sent UnregisterSession:   %r" % unregd[:4] )
        if between[:4] == b'\xd4\x00\x00\x00' and inside[:4] != b'\xd4\x00\x00\x00':
            print( "observed: the new session is refused (status 0x%02x) because the dead session's Forward Open was never"
                   " purged; expected: success, as after a session that ended between two frames" % bytearray( inside )[2] )
            return 1
        if between[:4] != b'\xd4\x00\x00\x00':
            print( "(the control scenario failed too: %r)" % between )
            return 1
        return 0
    finally:
        control['done']		= True

if __name__ == "__main__":
    sys.exit( main() )
