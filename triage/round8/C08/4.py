"""C08 defect 4: lengths of the CPF encapsulation that contradict the frame are not noticed.

  a) the Unconnected Data item (0x00b2) announces 40 octets more than the frame contains
  b) the frame carries 8 more octets behind its last CPF item than any length accounts for

In both cases the Write Tag carried is executed and acknowledged.  The item .length is only used as
a limit for the item parser (it is satisfied when the input simply ends), and logix.process never
checks that the CIP parser consumed all of enip.input.  (The repair 5dcf0ae made the .length exact
for items of *unrecognized* type only.)

Expected: refused, tag unchanged; observed: success, tag altered.  Exit 1 while present."""
from __future__ import print_function
import logging, socket, struct, sys, threading, time

import cpppo
from cpppo.server.enip.main import main as enip_main

PORT				= 44818
ADDR				= ( 'localhost', PORT )

def frame( command, payload, session=0 ):
    return struct.pack( '<HHII8sI', command, len( payload ), session, 0, b'\0' * 8, 0 ) + payload

def recv_frame( sock, timeout=10.0 ):
    """One EtherNet/IP frame (b'' on EOF / nothing within timeout)"""
    sock.settimeout( timeout )
    buf				= b''
    try:
        while len( buf ) < 24 or len( buf ) < 24 + struct.unpack( '<H', buf[2:4] )[0]:
            got			= sock.recv( 4096 )
            if not got:
                break
            buf		       += got
    except socket.timeout:
        pass
    return buf

def session():
    sock			= socket.create_connection( ADDR, timeout=5 )
    sock.sendall( frame( 0x0065, b'\x01\x00\x00\x00' ))
    return sock, struct.unpack( '<I', recv_frame( sock )[4:8] )[0]

def send_rr( request, handle, item0=( 0x0000, b'' ), item1_length=None, trailer=b'' ):
    """SendRRData: address item (default: Null) + Unconnected Data item carrying the bare request"""
    cpf				= struct.pack( '<IHH', 0, 8, 2 ) \
                                  + struct.pack( '<HH', item0[0], len( item0[1] )) + item0[1] \
                                  + struct.pack( '<HH', 0x00b2, len( request ) if item1_length is None else item1_length ) \
                                  + request + trailer
    return frame( 0x006f, cpf, session=handle )

def symbolic( name ):
    name			= name.encode( 'iso-8859-1' )
    return b'\x91' + struct.pack( 'B', len( name )) + name + ( b'\0' if len( name ) % 2 else b'' )

def read_tag( name, elements ):
    path			= symbolic( name )
    return b'\x4c' + struct.pack( 'B', len( path ) // 2 ) + path + struct.pack( '<H', elements )

def read_dints( name, elements ):
    """Read Tag from a fresh session, to see what the tag holds."""
    sock, handle		= session()
    try:
        sock.sendall( send_rr( read_tag( name, elements ), handle ))
        reply			= recv_frame( sock )[40:]
        assert reply[:6] == b'\xcc\x00\x00\x00\xc4\x00', "Read Tag %s failed: %r" % ( name, reply )
        return list( struct.unpack( '<%di' % elements, reply[6:6+4*elements] ))
    finally:
        sock.close()

def start( *tags ):
    logging.disable( logging.CRITICAL )
    control			= cpppo.apidict( 1.0, { 'done': False } )
    server			= threading.Thread( target=enip_main, kwargs=dict(
        argv=[ '--no-udp', '--address', '%s:%d' % ADDR ] + list( tags ),
        server=dict( control=control )))
    server.daemon		= True
    server.start()
    for _ in range( 100 ):
        try:
            socket.create_connection( ADDR, timeout=1 ).close()
            return control
        except Exception:
            time.sleep( .1 )
    raise RuntimeError( "simulator did not start" )

def main():
    control			= start( 'DI=DINT[4]' )
    try:
        bad			= 0
        for label,kwds in (( "item length 40 octets beyond the frame", dict( item1_length=+40 )),
                           ( "8 octets behind the last CPF item", dict( trailer=b'GARBAGE!' ))):
            before		= read_dints( 'DI', 4 )
            write		= b'\x4d\x02' + symbolic( 'DI' ) + struct.pack( '<HH', 0x00c4, 2 ) + struct.pack( '<ii', before[0] + 1, before[1] + 2 )
            if 'item1_length' in kwds:
                kwds		= dict( item1_length=len( write ) + kwds['item1_length'] )
            sock, handle	= session()
            sock.sendall( send_rr( write, handle, **kwds ))
            reply		= recv_frame( sock, timeout=5 )[40:]
            sock.close()
            after		= read_dints( 'DI', 4 )
            print( "%s: reply %r; DI %r --> %r" % ( label, reply, before, after ))
            if after != before:
                print( "  observed: tag altered by a frame whose CPF lengths contradict its contents;"
                       " expected: request refused, tag unchanged" )
                bad	       += 1
        return 1 if bad else 0
    finally:
        control['done']		= True

if __name__ == "__main__":
    sys.exit( main() )
