"""C08 defect 5: device.resolve ignores every non-symbolic segment that follows once class, instance and
attribute are known -- not only the element index it means to pass over -- so a Write Tag whose path
goes on with a second, contradicting address is executed against the first.

Tags DI (@2/1/1) and SC (@2/1/2):
  a) 20 02 24 01 30 01 30 02   class 2, instance 1, attribute 1, attribute 2 --> writes attribute 1 (DI)
  b) 91 02 "DI" 24 07           tag DI, then "instance 7"                       --> writes DI
  c) 91 02 "DI" 01 00           tag DI, then a port segment (port 1, link 0)    --> writes DI
A duplicate that arrives *before* the address is complete (20 02 20 03 ...) is refused ("Failed to
override"), so the leniency is an accident of the skip condition in resolve() ("All desired terms
specified; done! (ie. ignore subsequent element)"), which 7865e2c narrowed for symbolic terms only.

Expected: path refused (0x04 / 0x05), tags unchanged; observed: success, DI altered.
Exit 1 while the contradiction is present."""
from __future__ import print_function
import logging, socket, struct, sys, threading, time

import cpppo
from cpppo.server.enip.main import main as enip_main

PORT				= 44818
ADDR				= ( 'localhost', PORT )

def frame( command, payload, session=0 ):
    return struct.pack( '<HHII8sI', command, len( payload ), session, 0, b'\0' * 8, 0 ) + payload

def recv_frame( sock, timeout=10.0 ):
    """One EtherNet/IP frame (b'' on EOF / nothing within timeout)"""
    sock.settimeout( timeout )
    buf				= b''
    try:
        while len( buf ) < 24 or len( buf ) < 24 + struct.unpack( '<H', buf[2:4] )[0]:
            got			= sock.recv( 4096 )
            if not got:
                break
            buf		       += got
    except socket.timeout:
        pass
    return buf

def session():
    sock			= socket.create_connection( ADDR, timeout=5 )
    sock.sendall( frame( 0x0065, b'\x01\x00\x00\x00' ))
    return sock, struct.unpack( '<I', recv_frame( sock )[4:8] )[0]

def send_rr( request, handle, item0=( 0x0000, b'' ), item1_length=None, trailer=b'' ):
    """SendRRData: address item (default: Null) + Unconnected Data item carrying the bare request"""
    cpf				= struct.pack( '<IHH', 0, 8, 2 ) \
                                  + struct.pack( '<HH', item0[0], len( item0[1] )) + item0[1] \
                                  + struct.pack( '<HH', 0x00b2, len( request ) if item1_length is None else item1_length ) \
                                  + request + trailer
    return frame( 0x006f, cpf, session=handle )

def symbolic( name ):
    name			= name.encode( 'iso-8859-1' )
    return b'\x91' + struct.pack( 'B', len( name )) + name + ( b'\0' if len( name ) % 2 else b'' )

def read_tag( name, elements ):
    path			= symbolic( name )
    return b'\x4c' + struct.pack( 'B', len( path ) // 2 ) + path + struct.pack( '<H', elements )

def read_dints( name, elements ):
    """Read Tag from a fresh session, to see what the tag holds."""
    sock, handle		= session()
    try:
        sock.sendall( send_rr( read_tag( name, elements ), handle ))
        reply			= recv_frame( sock )[40:]
        assert reply[:6] == b'\xcc\x00\x00\x00\xc4\x00', "Read Tag %s failed: %r" % ( name, reply )
        return list( struct.unpack( '<%di' % elements, reply[6:6+4*elements] ))
    finally:
        sock.close()

def start( *tags ):
    logging.disable( logging.CRITICAL )
    control			= cpppo.apidict( 1.0, { 'done': False } )
    server			= threading.Thread( target=enip_main, kwargs=dict(
        argv=[ '--no-udp', '--address', '%s:%d' % ADDR ] + list( tags ),
        server=dict( control=control )))
    server.daemon		= True
    server.start()
    for _ in range( 100 ):
        try:
            socket.create_connection( ADDR, timeout=1 ).close()
            return control
        except Exception:
            time.sleep( .1 )
    raise RuntimeError( "simulator did not start" )

def main():
    control			= start( 'DI=DINT[4]', 'SC=DINT[4]' )
    try:
        bad			= 0
        for label,path in (( "@2/1/1 followed by a second attribute segment (2)", b'\x20\x02\x24\x01\x30\x01\x30\x02' ),
                           ( "tag DI followed by an instance segment (7)", symbolic( 'DI' ) + b'\x24\x07' ),
                           ( "tag DI followed by a port segment (1/0)", symbolic( 'DI' ) + b'\x01\x00' )):
            before		= read_dints( 'DI', 4 ), read_dints( 'SC', 4 )
            sock, handle	= session()
            write		= b'\x4d' + struct.pack( 'B', len( path ) // 2 ) + path + struct.pack( '<HH', 0x00c4, 4 ) \
                                  + struct.pack( '<4i', *[ v + 1 for v in before[0] ] )
            sock.sendall( send_rr( write, handle ))
            reply		= recv_frame( sock )[40:]
            sock.close()
            after		= read_dints( 'DI', 4 ), read_dints( 'SC', 4 )
            print( "%s: reply %r; DI %r --> %r, SC %r --> %r" % ( label, reply, before[0], after[0], before[1], after[1] ))
            if after != before:
                print( "  observed: tag altered through a path that continues with another address after the one used;"
                       " expected: request refused, tags unchanged" )
                bad	       += 1
        return 1 if bad else 0
    finally:
        control['done']		= True

if __name__ == "__main__":
    sys.exit( main() )
