"""C06 defect 1: a (supported) Read Tag Fragmented request that travels through the gateway's route
table over ONE hop is answered with encapsulation status 0x65 and the session is dropped.

A gateway simulator is configured ([UCMM] Route) to forward port/link 1/1 to a second simulator
(the target, a separate process on localhost:44819).  Over one session to the gateway we send, each
wrapped in a proper Unconnected Send with route path 1/1:

    Read Tag            T[0]   (0x4C)  -- forwarded, answered 0xCC                 (control)
    Read Tag Fragmented T[0-2] (0x52)  -- expected 0xD2 reply in SendRRData framing
    Read Tag            T[0]   (0x4C)  -- expected 0xCC

Observed on the unchanged code: the 2nd request is answered by an empty frame with EtherNet/IP
status 0x65, and the session ends (the 3rd request is never answered).  The gateway strips the last
hop and re-issues the request to the target WITHOUT any Unconnected Send wrapper (ucmm.UCMM.request:
sub_sp = unc_send.path.segment if sub_rp else ''); the target's parser.unconnected_send takes every
unwrapped 0x52 for an Unconnected Send, fails, and answers status 0x08.

"""
import os, socket, struct, subprocess, sys, tempfile, threading, time

import cpppo
from cpppo.server import enip
from cpppo.server.enip.main import main as enip_main

GATEWAY				= 44818
TARGET				= 44819

def frame( command, session=0, ctx=b'\0'*8, payload=b'' ):
    return struct.pack( '<HHII', command, len( payload ), session, 0 ) + ctx + struct.pack( '<I', 0 ) + payload

def symbolic( tag ):
    path			= b'\x91' + bytes( bytearray( [len( tag )] )) + tag + ( b'\0' if len( tag ) % 2 else b'' )
    return bytes( bytearray( [len( path ) // 2] )) + path

def rrdata( session, ctx, cip, route ):
    usend			= b'\x52\x02\x20\x06\x24\x01\x05\x9d' + struct.pack( '<H', len( cip )) + cip \
                                  + ( b'\0' if len( cip ) % 2 else b'' ) \
                                  + bytes( bytearray( [len( route ) // 2, 0] )) + route
    cpf				= struct.pack( '<HHHHH', 2, 0, 0, 0xb2, len( usend )) + usend
    return frame( 0x6f, session=session, ctx=ctx, payload=struct.pack( '<IH', 0, 5 ) + cpf )

def recv_frames( sock, timeout=4.0 ):
    sock.settimeout( timeout )
    buf,eof			= b'',False
    try:
        while True:
            d			= sock.recv( 65536 )
            if not d:
                eof		= True
                break
            buf		       += d
    except socket.timeout:
        pass
    except socket.error:
        eof			= True
    frames			= []
    while len( buf ) >= 24:
        cmd,ln,ses,sta		= struct.unpack( '<HHII', buf[:12] )
        if len( buf ) < 24 + ln:
            break
        frames.append( dict( command=cmd, session=ses, status=sta, context=buf[12:20], payload=buf[24:24+ln] ))
        buf			= buf[24+ln:]
    return frames,eof

def connect( port ):
    for _ in range( 100 ):
        try:
            return socket.create_connection( ('localhost', port), timeout=1 )
        except socket.error:
            time.sleep( .1 )
    raise RuntimeError( "no simulator on port %d" % port )

def main():
    cfg				= tempfile.NamedTemporaryFile( 'w', suffix='.cfg', delete=False )
    cfg.write( '[UCMM]\nRoute Path = 1/0\nRoute = {\n        "1/1": "localhost:%d"\n    }\n' % TARGET )
    cfg.close()
    env				= dict( os.environ )
    target			= subprocess.Popen(
        [ sys.executable, '-m', 'cpppo.server.enip', '--no-config', '--address', 'localhost:%d' % TARGET, 'T=DINT[3]' ],
        stdout=subprocess.DEVNULL, stderr=subprocess.DEVNULL, env=env )
    control			= cpppo.apidict( enip.timeout, { 'done': False } )
    gateway			= threading.Thread( target=enip_main, kwargs=dict(
        argv=[ '--config', cfg.name, '--address', 'localhost:%d' % GATEWAY, 'G=INT[2]' ],
        server={ 'control': control } ))
    gateway.daemon		= True
    gateway.start()
    try:
        connect( TARGET ).close()
        sock			= connect( GATEWAY )
        sock.sendall( frame( 0x65, payload=struct.pack( '<HH', 1, 0 )))
        rpy			= b''
        while len( rpy ) < 28:
            rpy		       += sock.recv( 28 - len( rpy ))
        session,		= struct.unpack( '<I', rpy[4:8] )

        read_tag		= b'\x4c' + symbolic( b'T' ) + struct.pack( '<H', 1 )
        read_frag		= b'\x52' + symbolic( b'T' ) + struct.pack( '<HI', 3, 0 )
        requests		= [ (b'READTAG1',read_tag,0xcc), (b'READFRAG',read_frag,0xd2), (b'READTAG2',read_tag,0xcc) ]
        sock.sendall( b''.join( rrdata( session, ctx, cip, route=b'\x01\x01' ) for ctx,cip,_ in requests ))
        frames,eof		= recv_frames( sock )

        problems		= []
        if len( frames ) != len( requests ):
            problems.append( "%d requests written, %d reply frames received (eof: %r)" % ( len( requests ), len( frames ), eof ))
        for (ctx,cip,svc),f in zip( requests, frames ):
            p			= f['payload']
            if f['context'] != ctx:
                problems.append( "reply context %r; expected %r" % ( f['context'], ctx ))
            elif f['status'] != 0 or len( p ) < 20 or bytearray( p[16:17] )[0] != svc:
                problems.append( "request %r (service 0x%02x): reply has EtherNet/IP status 0x%02x, payload %r; expected status 0 and a 0x%02x reply" % (
                    ctx, bytearray( cip[:1] )[0], f['status'], p, svc ))
        if problems:
            print( "CONTRADICTION: routed Read Tag Fragmented is not answered by its reply:\n  " + "\n  ".join( problems ))
            return 1
        print( "OK: all routed requests answered" )
        return 0
    finally:
        control['done']		= True
        target.terminate()
        gateway.join( timeout=5 )
        os.unlink( cfg.name )

if __name__ == "__main__":
    sys.exit( main() )
