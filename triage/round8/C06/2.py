"""C06 defect 2: an unsupported EtherNet/IP encapsulation command is not answered at all.

Over a registered session we write (pipelined) a frame with an encapsulation command the simulator
does not implement -- 0x0072 (Indicate Status), 0x0073 (Cancel), 0x00C8 (vendor specific) -- with the
correct session handle and an empty payload, followed by an ordinary Read Tag request.

Expected (property: "an unsupported or unroutable request is answered by one frame with a non-zero
encapsulation status"; EtherNet/IP: status 0x0001 "invalid or unsupported encapsulation command"):
exactly one reply frame for the unsupported command, carrying its command code, sender context and
session handle and a non-zero status.  (A CIP-level unsupported service, or an unroutable Unconnected
Send, IS answered that way.)

Observed on the unchanged code: no frame at all; the connection is simply closed.  parser.CIP has no
transition for an unknown command (unrec_CIP), so the ucmm.parser run in logix.process raises
NonTerminal before any response exists, and main.enip_srv_tcp drops the session.

"""
import socket, struct, sys, threading, time

import cpppo
from cpppo.server import enip
from cpppo.server.enip.main import main as enip_main

PORT				= 44818

def frame( command, session=0, ctx=b'\0'*8, payload=b'' ):
    return struct.pack( '<HHII', command, len( payload ), session, 0 ) + ctx + struct.pack( '<I', 0 ) + payload

def read_tag( session, ctx, tag=b'SCADA' ):
    path			= b'\x91' + bytes( bytearray( [len( tag )] )) + tag + ( b'\0' if len( tag ) % 2 else b'' )
    cip				= b'\x4c' + bytes( bytearray( [len( path ) // 2] )) + path + struct.pack( '<H', 1 )
    usend			= b'\x52\x02\x20\x06\x24\x01\x05\x9d' + struct.pack( '<H', len( cip )) + cip \
                                  + ( b'\0' if len( cip ) % 2 else b'' ) + b'\x01\x00\x01\x00'
    cpf				= struct.pack( '<HHHHH', 2, 0, 0, 0xb2, len( usend )) + usend
    return frame( 0x6f, session=session, ctx=ctx, payload=struct.pack( '<IH', 0, 5 ) + cpf )

def recv_frames( sock, timeout=2.0 ):
    sock.settimeout( timeout )
    buf,eof			= b'',False
    try:
        while True:
            d			= sock.recv( 65536 )
            if not d:
                eof		= True
                break
            buf		       += d
    except socket.timeout:
        pass
    except socket.error:
        eof			= True
    frames			= []
    while len( buf ) >= 24:
        cmd,ln,ses,sta		= struct.unpack( '<HHII', buf[:12] )
        if len( buf ) < 24 + ln:
            break
        frames.append( dict( command=cmd, session=ses, status=sta, context=buf[12:20], payload=buf[24:24+ln] ))
        buf			= buf[24+ln:]
    return frames,eof

def connect():
    for _ in range( 100 ):
        try:
            return socket.create_connection( ('localhost', PORT), timeout=1 )
        except socket.error:
            time.sleep( .1 )
    raise RuntimeError( "simulator didn't start" )

def main():
    control			= cpppo.apidict( enip.timeout, { 'done': False } )
    server			= threading.Thread( target=enip_main, kwargs=dict(
        argv=[ '--no-config', '--address', 'localhost:%d' % PORT, 'SCADA=INT[100]' ],
        server={ 'control': control } ))
    server.daemon		= True
    server.start()
    try:
        problems		= []
        for command in ( 0x0072, 0x0073, 0x00C8 ):
            sock		= connect()
            sock.sendall( frame( 0x65, payload=struct.pack( '<HH', 1, 0 )))
            rpy			= b''
            while len( rpy ) < 28:
                rpy	       += sock.recv( 28 - len( rpy ))
            session,		= struct.unpack( '<I', rpy[4:8] )

            sock.sendall( frame( command, session=session, ctx=b'UNSUPPOR' )
                          + read_tag( session, b'FOLLOWUP' ))
            frames,eof		= recv_frames( sock )
            sock.close()
            first		= frames[0] if frames else None
            if not ( first and first['command'] == command and first['context'] == b'UNSUPPOR'
                     and first['session'] == session and first['status'] != 0 ):
                problems.append( "command 0x%04x: received %d frames %r (eof: %r); expected one frame w/ command 0x%04x, context %r, session 0x%08x and a non-zero status" % (
                    command, len( frames ), frames, eof, command, b'UNSUPPOR', session ))
        if problems:
            print( "CONTRADICTION: unsupported encapsulation command is not answered:\n  " + "\n  ".join( problems ))
            return 1
        print( "OK: unsupported encapsulation commands answered with a non-zero status" )
        return 0
    finally:
        control['done']		= True
        server.join( timeout=5 )

if __name__ == "__main__":
    sys.exit( main() )
