"""C06 defect 3: Register Session hands out a session handle that is already in use.

UCMM.request draws a random handle and retries "while not session or session in
self.__class__.sessions" -- but .sessions is a dict keyed by peer ADDRESS (sessions[addr] = session),
so the membership test never finds a handle that is in use; it should look at .sessions.values().
With the real generator a collision takes ~2^32 draws, so the generator used by the ucmm module is
replaced by one that repeats itself: 0, 7, 7, 7, 9, 11, 13 ...

Two concurrent TCP sessions register.  Expected: the first gets 7 (0 is skipped), the second gets 9
(7 is in use).  Observed on the unchanged code: both sessions get handle 7.

"""
import socket, struct, sys, threading, time

import cpppo
from cpppo.server import enip
from cpppo.server.enip import ucmm
from cpppo.server.enip.main import main as enip_main

PORT				= 44818

class repeating( object ):
    """Stands in for the 'random' module, as far as enip.ucmm uses it."""
    def __init__( self, values ):
        self.values		= list( values )
    def randint( self, lo, hi ):
        return self.values.pop( 0 )

def frame( command, session=0, ctx=b'\0'*8, payload=b'' ):
    return struct.pack( '<HHII', command, len( payload ), session, 0 ) + ctx + struct.pack( '<I', 0 ) + payload

def connect():
    for _ in range( 100 ):
        try:
            return socket.create_connection( ('localhost', PORT), timeout=1 )
        except socket.error:
            time.sleep( .1 )
    raise RuntimeError( "simulator didn't start" )

def register( sock, ctx ):
    sock.sendall( frame( 0x65, ctx=ctx, payload=struct.pack( '<HH', 1, 0 )))
    sock.settimeout( 5 )
    rpy				= b''
    while len( rpy ) < 28:
        d			= sock.recv( 28 - len( rpy ))
        assert d, "EOF awaiting Register Session reply"
        rpy		       += d
    cmd,ln,session,status	= struct.unpack( '<HHII', rpy[:12] )
    assert cmd == 0x65 and status == 0 and rpy[12:20] == ctx, "Unexpected Register Session reply: %r" % ( rpy, )
    return session

def main():
    ucmm.random			= repeating( [ 0, 7, 7, 7, 9, 11, 13, 15, 17 ] )
    control			= cpppo.apidict( enip.timeout, { 'done': False } )
    server			= threading.Thread( target=enip_main, kwargs=dict(
        argv=[ '--no-config', '--address', 'localhost:%d' % PORT, 'SCADA=INT[100]' ],
        server={ 'control': control } ))
    server.daemon		= True
    server.start()
    try:
        probe			= connect()
        probe.close()
        one			= connect()
        two			= connect()
        handle_one		= register( one, b'SESSION1' )
        handle_two		= register( two, b'SESSION2' )
        one.close()
        two.close()
        if handle_one == 0 or handle_two == 0 or handle_one == handle_two:
            print( "CONTRADICTION: two live sessions were given session handles %d and %d; expected 7 and 9 (non-zero, and not in use)" % (
                handle_one, handle_two ))
            return 1
        print( "OK: session handles %d and %d" % ( handle_one, handle_two ))
        return 0
    finally:
        control['done']		= True
        server.join( timeout=5 )

if __name__ == "__main__":
    sys.exit( main() )
