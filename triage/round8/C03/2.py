#!/usr/bin/env python
"""Contradiction 2 (unchanged code): a tag's configured error code can be set but never cleared again,
and while it is set a refused Write Tag nevertheless changes the tag.

The simulator lets a tag be given an error status (tags[<name>].error, eg. through the web API
"api/tags/<name>/error=8"); logix.setup() - run for every request by logix.process() - carries it
to the Attribute.  setup_tag() only ever copies a *non-zero* error code to the Attribute; when the
configuration goes back to 0 the Attribute keeps failing every request for ever.

Moreover Logix.request() performs the write first and consults attribute.error afterwards, so the
Write Tag that is answered with the error status has stored its data.

Expected: after the error is configured back to 0, Read Tag succeeds again; and the write that was
refused with status 0x08 has left the tag unchanged.
"""
from __future__ import print_function
import sys
import logging
logging.basicConfig( level=logging.CRITICAL )
logging.raiseExceptions		= False	# the unchanged code's log.warning in setup_tag has a bad format string

import cpppo
from cpppo.server.enip import logix, device, parser
from cpppo.server.enip.device import lookup, Attribute


def request( MR, req ):
    req				= cpppo.dotdict( req )
    data			= cpppo.dotdict()
    with MR.parser as machine:
        for _ in machine.run( source=cpppo.rememberable( MR.produce( req )), data=data ):
            pass
    MR.request( data )
    rpy				= cpppo.dotdict()
    with MR.parser as machine:
        for _ in machine.run( source=cpppo.rememberable( bytes( data.input )), data=rpy ):
            pass
    return rpy

def path( text ):
    return {'segment': [ cpppo.dotdict( s ) for s in device.parse_path( text ) ]}

device.lookup_reset()
logix.setup_reset()
tags				= cpppo.dotdict()
entry				= cpppo.dotdict()
entry.attribute			= Attribute( 'Level', parser.INT, default=[0]*4 )
entry.path			= None
entry.error			= 0
dict.__setitem__( tags, 'Level', entry )

logix.setup( tags=tags )					# as logix.process does for every request
MR				= lookup( 0x02, 1 )
r0				= request( MR, { 'path': path( 'Level' ), 'read_tag': { 'elements': 4 }} )
assert r0.status == 0 and r0.read_tag.data == [0,0,0,0], "unexpected initial state: %r" % ( r0, )

entry.error			= 0x08					# eg. api/tags/Level/error=8
logix.setup( tags=tags )
w1				= request( MR, { 'path': path( 'Level[1]' ),
                                                 'write_tag': { 'type': parser.INT.tag_type, 'data': [ 5 ] }} )
assert w1.status == 0x08, "the configured error status was not returned: %r" % ( w1, )

entry.error			= 0					# eg. api/tags/Level/error=0
logix.setup( tags=tags )
r2				= request( MR, { 'path': path( 'Level' ), 'read_tag': { 'elements': 4 }} )

failures			= []
if r2.status != 0:
    failures.append( "error configured back to 0, Read Tag Level x4: observed status 0x%02x; expected 0x00 with data [0, 0, 0, 0]" % (
        r2.status ))
stored				= list( entry.attribute[0:4] )
if stored != [0,0,0,0]:
    failures.append( "Write Tag Level[1] = 5 was refused with status 0x%02x, yet the tag holds %r; expected [0, 0, 0, 0]" % (
        w1.status, stored ))

if failures:
    print( "CONTRADICTION:" )
    for f in failures:
        print( "  " + f )
    sys.exit( 1 )
print( "OK" )
sys.exit( 0 )
