#!/usr/bin/env python
"""Contradiction 1 (unchanged code): a tag whose name extends another tag's name by a member
("Motor" and "Motor.Speed") cannot be addressed by its symbolic name at all.

device.resolve() gathers the symbolic segments of a request path until the gathered name is found
in the symbol table.  It accepts the *shortest* prefix that is a tag ("Motor"), and then finds that
the next symbolic segment ("Speed") is no tag: the request is refused with status 0x05, although
"Motor.Speed" is a configured tag (and can be read through its class/instance/attribute address).

Expected: Write Tag / Read Tag of Motor.Speed by name succeed, and return the values written.
"""
from __future__ import print_function
import sys
import logging
logging.basicConfig( level=logging.ERROR )

import cpppo
from cpppo.server.enip import logix, device, parser
from cpppo.server.enip.device import lookup, Attribute


def request( MR, req ):
    """Encode a request, parse it with the Message Router's parser, execute it, and parse the reply."""
    req				= cpppo.dotdict( req )
    data			= cpppo.dotdict()
    with MR.parser as machine:
        for _ in machine.run( source=cpppo.rememberable( MR.produce( req )), data=data ):
            pass
    MR.request( data )
    rpy				= cpppo.dotdict()
    with MR.parser as machine:
        for _ in machine.run( source=cpppo.rememberable( bytes( data.input )), data=rpy ):
            pass
    return rpy

def path( text ):
    return {'segment': [ cpppo.dotdict( s ) for s in device.parse_path( text ) ]}

device.lookup_reset()
logix.setup_reset()
tags				= cpppo.dotdict()
for name,typ,dflt in ( ( 'Motor', parser.INT, [0]*4 ), ( 'Motor.Speed', parser.DINT, [0]*4 )):
    entry			= cpppo.dotdict()
    entry.attribute		= Attribute( name, typ, default=dflt )
    entry.path			= None
    entry.error			= 0
    dict.__setitem__( tags, name, entry )
logix.setup( tags=tags )
MR				= lookup( 0x02, 1 )

failures			= []

wr				= request( MR, { 'path': path( 'Motor.Speed[1]' ),
                                                 'write_tag': { 'type': parser.DINT.tag_type, 'data': [ 100000, -7 ] }} )
if wr.status != 0:
    failures.append( "Write Tag Motor.Speed[1] = [100000, -7]: observed status 0x%02x; expected 0x00" % wr.status )

rd				= request( MR, { 'path': path( 'Motor.Speed' ), 'read_tag': { 'elements': 4 }} )
if rd.status != 0 or rd.read_tag.data != [ 0, 100000, -7, 0 ]:
    failures.append( "Read Tag Motor.Speed x4: observed status 0x%02x data %r; expected status 0x00, type DINT, data [0, 100000, -7, 0]" % (
        rd.status, rd.get( 'read_tag.data' )))

# The very same tag is reachable through its address, and the other tag by its name
adr				= '@%d/%d/%d' % device.resolve_tag( 'Motor.Speed' )
rn				= request( MR, { 'path': path( adr ), 'read_tag': { 'elements': 4 }} )
ro				= request( MR, { 'path': path( 'Motor' ), 'read_tag': { 'elements': 4 }} )
print( "Read Tag %s x4 (the address of Motor.Speed): status 0x%02x, type 0x%04x" % ( adr, rn.status, rn.get( 'read_tag.type', 0 )))
print( "Read Tag Motor x4: status 0x%02x, data %r" % ( ro.status, ro.get( 'read_tag.data' )))

if failures:
    print( "CONTRADICTION: tag 'Motor.Speed' is shadowed by tag 'Motor':" )
    for f in failures:
        print( "  " + f )
    sys.exit( 1 )
print( "OK: Motor.Speed is addressable by name" )
sys.exit( 0 )
