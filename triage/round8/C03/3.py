#!/usr/bin/env python
"""Contradiction 3 (unchanged code): Set Attribute Single cannot write a SSTRING or STRING tag.

Object.request() decodes the Set Attribute Single payload with struct: it demands exactly
parser.struct_calcsize * len( attribute ) octets and unpacks them with parser.struct_format.  For
SSTRING / STRING struct_calcsize is the "average size used for estimations" (80) and there is no
struct_format at all, so every Set Attribute Single to a string tag is refused with status 0x08 -
whatever its payload - while Get Attribute Single of the same Attribute works and returns the
length-prefixed encoding, and Write Tag stores strings without complaint.

Expected: Set Attribute Single carrying the encoding that Get Attribute Single returns (length +
text [+ pad]) is accepted, and Read Tag / Get Attribute Single then return the text written.
"""
from __future__ import print_function
import sys
import logging
logging.basicConfig( level=logging.CRITICAL )

import cpppo
from cpppo.server.enip import logix, device, parser
from cpppo.server.enip.device import lookup, Attribute


def request( MR, req ):
    req				= cpppo.dotdict( req )
    data			= cpppo.dotdict()
    with MR.parser as machine:
        for _ in machine.run( source=cpppo.rememberable( MR.produce( req )), data=data ):
            pass
    MR.request( data )
    rpy				= cpppo.dotdict()
    with MR.parser as machine:
        for _ in machine.run( source=cpppo.rememberable( bytes( data.input )), data=rpy ):
            pass
    return rpy

def path( text ):
    return {'segment': [ cpppo.dotdict( s ) for s in device.parse_path( text ) ]}

device.lookup_reset()
logix.setup_reset()
tags				= cpppo.dotdict()
for name,typ,dflt,adr in ( ( 'Name',  parser.SSTRING, '',      '@0x99/1/1' ),
                           ( 'Names', parser.SSTRING, ['']*2,  '@0x99/1/2' ),
                           ( 'Text',  parser.STRING,  '',      '@0x99/1/3' )):
    entry			= cpppo.dotdict()
    entry.attribute		= Attribute( name, typ, default=dflt )
    entry.path			= {'segment': device.parse_path( adr )}
    entry.error			= 0
    dict.__setitem__( tags, name, entry )
logix.setup( tags=tags )
MR				= lookup( 0x02, 1 )

failures			= []
for name,adr,typ,values in ( ( 'Name',  '@0x99/1/1', parser.SSTRING, [ 'abc' ] ),
                             ( 'Names', '@0x99/1/2', parser.SSTRING, [ 'ab', 'c' ] ),
                             ( 'Text',  '@0x99/1/3', parser.STRING,  [ 'abc' ] )):
    payload			= list( bytearray( b''.join( typ.produce( v ) for v in values )))
    for how in ( adr, name ):
        sa			= request( MR, { 'path': path( how ), 'set_attribute_single': { 'data': payload }} )
        rd			= request( MR, { 'path': path( name ), 'read_tag': { 'elements': len( values ) }} )
        ga			= request( MR, { 'path': path( adr ), 'get_attribute_single': True } )
        ok			= ( sa.status == 0 and rd.status == 0 and rd.read_tag.data == values
                                    and ga.status == 0 and ga.get_attribute_single.data == payload )
        print( "%-5s Set Attribute Single %-10s %-28r: status 0x%02x; Read Tag: %r; Get Attribute Single: %r" % (
            name, how, payload, sa.status, rd.get( 'read_tag.data' ), ga.get( 'get_attribute_single.data' )))
        if not ok:
            failures.append( "%s %s x%d via %s: Set Attribute Single %r observed status 0x%02x, tag reads %r; expected status 0x00 and %r" % (
                typ.__name__, name, len( values ), how, payload, sa.status, rd.get( 'read_tag.data' ), values ))
        # back to the initial value, through Write Tag (which works)
        request( MR, { 'path': path( name ), 'write_tag': { 'type': typ.tag_type, 'data': [''] * len( values ) }} )

if failures:
    print( "CONTRADICTION: Set Attribute Single refuses string tags:" )
    for f in failures:
        print( "  " + f )
    sys.exit( 1 )
print( "OK" )
sys.exit( 0 )
