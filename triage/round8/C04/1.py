"""
C04 / Part B, observation 1 ( UNCHANGED code ):  a Write Tag Fragmented that is answered with a failure status has
nevertheless been stored.

A tag may be configured with an error code ( Attribute( ..., error=0x10 ), or tags[name].error through logix.setup /
the web API ): "requests on the Attribute should fail with that code".  Logix.request performs the complete
operation first ( attribute[beg:end] = data ) and only then looks at attribute.error, so the client is told 0x10
( Device state conflict: eg. keyswitch in RUN ) for a fragment whose values are now in the tag.  A client that tiles a
range and sees one tile refused must assume that tile was not written; here "nothing else is stored" does not hold for
the refused tiles.

Expected: status 0x10 and the tag unchanged.  Observed: status 0x10 and the tag holds the written values.
Suspect: Logix.request ( server/enip/logix.py ), the "if attribute.error:" test placed behind the read/write branch
instead of ahead of it.
"""
from __future__ import print_function

import sys

import cpppo
from cpppo.server import enip
from cpppo.server.enip import logix, parser, device


def roundtrip( Obj, req ):
    enc				= Obj.produce( req )
    data			= cpppo.dotdict()
    with Obj.parser as machine:
        for m,s in machine.run( source=cpppo.peekable( enc ), data=data ):
            pass
    Obj.request( data )
    rpy				= cpppo.dotdict()
    with Obj.parser as machine:
        for m,s in machine.run( source=cpppo.peekable( bytes( data.input )), data=rpy ):
            pass
    return rpy


def main():
    enip.lookup_reset()
    Obj				= logix.Logix( instance_id=1 )
    att				= Obj.attribute['1'] = device.Attribute( 'T', parser.INT, default=list( range( 10 )), error=0x10 )
    device.redirect_tag( 'T', { 'class': Obj.class_id, 'instance': Obj.instance_id, 'attribute': 1 })

    before			= list( att.value )
    statuses			= []
    for off,vals in ( (0,[111,222]), (4,[333]) ):	# two tiles of T[2-4]
        req			= cpppo.dotdict()
        req.path		= { 'segment': [ cpppo.dotdict( s ) for s in ( {'symbolic': 'T'}, {'element': 2} ) ]}
        req.write_frag		= { 'elements': 3, 'offset': off, 'type': parser.INT.tag_type, 'data': vals }
        statuses.append( roundtrip( Obj, req ).status )
    after			= list( att.value )

    print( "reply statuses:", [ "0x%02x" % s for s in statuses ] )
    print( "tag before:    ", before )
    print( "tag after:     ", after )
    if all( statuses ) and after != before:
        print( "CONTRADICTION: every tile was answered with a failure status, but the tag was modified "
               "( expected the tag unchanged: %r )" % ( before, ))
        return 1
    print( "OK: refused tiles left the tag unchanged" )
    return 0


if __name__ == "__main__":
    sys.exit( main() )
