# -*- coding: utf-8 -*-
"""C11 contradiction 3 (unchanged code): over bytes, '.' and negated classes match ONE OCTET of a multi-byte
symbol that the expression does not list, so the machine stops (and reports acceptance) in the middle of a symbol.

    regex_bytes( '.' )    on 'π'  (b'\xcf\x80'): 1 octet consumed, b'\xcf' stored, terminal == True
    regex_bytes( '[^a]' ) on '€'  (b'\xe2\x82\xac'): 1 octet consumed, b'\xe2' stored, terminal == True
    regex_bytes( '.x' )   on 'πx': NonTerminal after 1 octet, although 'πx' is a sentence

Expected (and what the str machines do): the whole symbol -- 2 / 3 octets -- is the sentence.
"""
from __future__ import print_function
import sys
import cpppo

def run( cls, expr, inp ):
    data			= cpppo.dotdict()
    source			= cpppo.chainable( inp )
    nonterm			= False
    with cls( initial=expr, context='x', terminal=True ) as machine:
        try:
            for i,(m,s) in enumerate( machine.run( source=source, data=data )):
                assert i < 1000
        except cpppo.NonTerminal:
            nonterm		= True
        terminal		= machine.terminal
    stored			= data.get( 'x.input' )
    if stored is not None:
        stored			= stored.tounicode() if stored.typecode in 'uw' else stored.tobytes()
    return source.sent, stored, terminal, nonterm

bad				= 0
for expr,text,symbols,accept in [
        ('.',		'π',	1, True),
        ('[^a]',	'€',	1, True),
        ('.x',		'πx',	2, True),
        ('.{2}',	'πa€',	2, True),
        ('[^€]',	'₭',	1, True),	# U+20AD: shares two lead bytes with € -- this one works
]:
    octets			= text.encode( 'utf-8' )
    prefix			= text[:symbols].encode( 'utf-8' )
    expect			= (len( prefix ), prefix if prefix else None, accept, not accept)
    as_str			= run( cpppo.regex, expr, text )
    got				= run( cpppo.regex_bytes, expr, octets )
    print( "regex_bytes( %r ) on %r: (consumed, stored, terminal, NonTerminal) == %r; expected %r   [ str machine: %r ]" % (
        expr, octets, got, expect, as_str ))
    if got != expect:
        bad		       += 1
if bad:
    print( "CONTRADICTION: %d cases where a wildcard matched one octet of a multi-byte symbol" % bad )
    sys.exit( 1 )
print( "ok" )
