# -*- coding: utf-8 -*-
"""C11 contradiction 2 (unchanged code): a bytes machine whose expression LISTS a multi-byte symbol consumes
the lead byte(s) of any other symbol that shares them, and then fails -- even when it was accepting.

    regex_bytes( 'π+' ) on 'πρ'   (b'\xcf\x80\xcf\x81'; ρ is U+03C1, π is U+03C0)

'π' is a sentence, 'πρ' is not a prefix of any: 2 octets must be consumed/stored and the machine must accept
(as cpppo.regex( 'π+' ) on 'πρ' does).  Observed: 3 octets consumed (b'\xcf\x80\xcf'), NonTerminal.
"""
from __future__ import print_function
import sys
import cpppo

def run( cls, expr, inp ):
    data			= cpppo.dotdict()
    source			= cpppo.chainable( inp )
    nonterm			= False
    with cls( initial=expr, context='x', terminal=True ) as machine:
        try:
            for i,(m,s) in enumerate( machine.run( source=source, data=data )):
                assert i < 1000
        except cpppo.NonTerminal:
            nonterm		= True
        terminal		= machine.terminal
    stored			= data.get( 'x.input' )
    if stored is not None:
        stored			= stored.tounicode() if stored.typecode in 'uw' else stored.tobytes()
    return source.sent, stored, terminal, nonterm

bad				= 0
for expr,text,symbols in [
        ('π+',		'πρ',		1),
        ('π*',		'ππρπ',		2),
        ('😀+',		'😀😀😁',	2),	# 4-byte symbols sharing 3 lead bytes
        ('π',		'ρ',		0),	# cannot start a sentence: nothing may be consumed
]:
    octets			= text.encode( 'utf-8' )
    prefix			= text[:symbols].encode( 'utf-8' )
    accept			= symbols > 0
    expect			= (len( prefix ), prefix if prefix else None, accept, not accept)
    as_str			= run( cpppo.regex, expr, text )
    got				= run( cpppo.regex_bytes, expr, octets )
    print( "regex_bytes( %r ) on %r: (consumed, stored, terminal, NonTerminal) == %r; expected %r   [ str machine: %r ]" % (
        expr, octets, got, expect, as_str ))
    if got != expect:
        bad		       += 1
if bad:
    print( "CONTRADICTION: %d cases where the lead bytes of a symbol outside the expression are consumed" % bad )
    sys.exit( 1 )
print( "ok" )
