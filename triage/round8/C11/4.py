# -*- coding: utf-8 -*-
"""C11 contradiction 4 (unchanged code): a symbol outside the machine's regex_alphabet is neither rejected with
NonTerminal nor left unconsumed behind an accepted sentence: the run dies with an AssertionError.

string_base's docstring offers regex_alphabet=<type, container or predicate> as the way "to test the upcoming
symbol for acceptability"; from_regex translates '.' / negated classes to a wildcard transition that is taken
whatever the alphabet says, and the target state then refuses the symbol ( state.run: "detected no progress
before finding acceptable symbol" ).

    regex( '.*', regex_alphabet=set('abc') ) on 'abd' : expected 2 consumed, accepting, no exception
    regex( '.+', regex_alphabet=set('abc') ) on 'dab' : expected 0 consumed, NonTerminal
"""
from __future__ import print_function
import sys
import cpppo

def run( expr, inp, **kwds ):
    data			= cpppo.dotdict()
    source			= cpppo.chainable( inp )
    outcome			= None
    with cpppo.regex( initial=expr, context='x', terminal=True, **kwds ) as machine:
        try:
            for i,(m,s) in enumerate( machine.run( source=source, data=data )):
                assert i < 1000
        except cpppo.NonTerminal:
            outcome		= 'NonTerminal'
        except Exception as exc:
            outcome		= "%s: %s" % ( exc.__class__.__name__, exc )
        terminal		= machine.terminal
    stored			= data.get( 'x.input' )
    if stored is not None:
        stored			= stored.tounicode()
    return source.sent, stored, terminal, outcome

bad				= 0
for expr,text,alphabet,expect in [
        ('.*',		'abd',	set( 'abc' ),			(2, 'ab', True, None)),
        ('[^b]+b',	'abd',	lambda c: c in 'abc',		(2, 'ab', True, None)),
        ('.+',		'dab',	set( 'abc' ),			(0, None, False, 'NonTerminal')),
        ('.*x',		'abd',	set( 'abcx' ),			(2, 'ab', False, 'NonTerminal')),
        ('.*',		'abc',	set( 'abc' ),			(3, 'abc', True, None)),	# control
]:
    got				= run( expr, text, regex_alphabet=alphabet )
    print( "regex( %r, regex_alphabet=<abc...> ) on %r: (consumed, stored, terminal, outcome) == %r; expected %r" % (
        expr, text, got, expect ))
    if got != expect:
        bad		       += 1
if bad:
    print( "CONTRADICTION: %d cases where a symbol outside the alphabet ends the run with an AssertionError" % bad )
    sys.exit( 1 )
print( "ok" )
