# -*- coding: utf-8 -*-
"""C11 contradiction 1 (unchanged code): a bytes machine whose expression EXCLUDES a multi-byte symbol
( negated class, live wildcard ) consumes the lead byte(s) of that symbol before it rejects it.

    regex_bytes( '[^π]*' ) on 'aπ' (b'a\xcf\x80')

'a' is a sentence and 'aπ' cannot be extended to one, so 1 octet must be consumed and stored and the
machine must accept (the str machine cpppo.regex( '[^π]*' ) on 'aπ' does exactly that).  Observed: 2
octets consumed (b'a\xcf' stored -- not a prefix made of whole symbols), NonTerminal raised.
"""
from __future__ import print_function
import sys
import cpppo

def run( cls, expr, inp ):
    data			= cpppo.dotdict()
    source			= cpppo.chainable( inp )
    nonterm			= False
    with cls( initial=expr, context='x', terminal=True ) as machine:
        try:
            for i,(m,s) in enumerate( machine.run( source=source, data=data )):
                assert i < 1000
        except cpppo.NonTerminal:
            nonterm		= True
        terminal		= machine.terminal
    stored			= data.get( 'x.input' )
    if stored is not None:
        stored			= stored.tounicode() if stored.typecode in 'uw' else stored.tobytes()
    return source.sent, stored, terminal, nonterm

bad				= 0
for expr,text,symbols in [
        ('[^π]*',	'aπ',	1),	# accepts 'a'
        ('[^π]*',	'aρπρ',	2),	# accepts 'aρ' (ρ shares the lead byte of π)
        ('[^€]+',	'ab€',	2),	# 3-byte symbol: 2 lead bytes swallowed
        ('[^π]π',	'ππ',	0),	# rejected at once: nothing may be consumed
]:
    octets			= text.encode( 'utf-8' )
    prefix			= text[:symbols].encode( 'utf-8' )
    accept			= symbols > 0
    expect			= (len( prefix ), prefix if prefix else None, accept, not accept)
    as_str			= run( cpppo.regex, expr, text )
    got				= run( cpppo.regex_bytes, expr, octets )
    print( "regex_bytes( %r ) on %r: (consumed, stored, terminal, NonTerminal) == %r; expected %r   [ str machine: %r ]" % (
        expr, octets, got, expect, as_str ))
    if got != expect:
        bad		       += 1
if bad:
    print( "CONTRADICTION: %d cases where the lead bytes of an excluded multi-byte symbol are consumed" % bad )
    sys.exit( 1 )
print( "ok" )
