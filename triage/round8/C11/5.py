# -*- coding: utf-8 -*-
"""Remark 5 (unchanged code; beside C11's statement, which is about greedy machines): greedy=False has no effect
on how far a regex wrapper's sub-machine scans.

string_base's docstring: "The default initial='.*\\n', greedy=False configuration scans input only until the
regular expression is satisfied (by default, not satisfied 'til it sees a newline) ... much like gets(3)";
server/echo.py: "We want to terminate immediately on detection of end-of-line, so specify non-greedy ... Sub-machine
terminates at earliest match (non-greedy)".  dfa_base.delegate never looks at .greedy, and the states made by
from_regex are all greedy, so the scan runs on over the newline:

    string( initial='.*\\n' ) / echo_machine() on 'ab\\ncd\\nef': all 8 symbols consumed, NonTerminal / not terminal
    expected by the docstrings: 3 symbols ('ab\\n') consumed, terminal, 'cd\\nef' left in the source
"""
from __future__ import print_function
import sys
import cpppo
from cpppo.server import echo

def run( machine, inp ):
    data			= cpppo.dotdict()
    source			= cpppo.chainable( inp )
    outcome			= None
    with machine:
        try:
            for i,(m,s) in enumerate( machine.run( source=source, data=data )):
                assert i < 1000
        except cpppo.NonTerminal:
            outcome		= 'NonTerminal'
        terminal		= machine.terminal
    return source.sent, terminal, outcome, dict( data )

bad				= 0
for name,machine,inp in [
        ('string( initial=".*\\n" )',	cpppo.string( 'line', initial='.*\n', context='line', terminal=True ),	'ab\ncd\nef'),
        ('echo_machine()',		echo.echo_machine( 'echo' ),						b'ab\ncd\nef'),
]:
    sent,terminal,outcome,data	= run( machine, inp )
    print( "%s on %r: consumed %d, terminal %r, %s, data %r; expected consumed 3, terminal True, no exception" % (
        name, inp, sent, terminal, outcome, data ))
    if (sent,terminal,outcome) != (3,True,None):
        bad		       += 1
if bad:
    print( "CONTRADICTION (of the docstrings): %d non-greedy machines scanned past the first match" % bad )
    sys.exit( 1 )
print( "ok" )
