"""dotdict: '..' addresses the parent level of the segment before it.  When that segment is an indexed one whose
index expression contains a '.' ( 'l[a.i]', as in the class docstring's 'a[a[0].b-1]' ), _resolve's back-tracking cuts
the segment at the '.' INSIDE the brackets ( front.rfind('.') ), leaving an unbalanced rest: KeyError, although the
same path without the detour resolves.
"""
import sys
from cpppo.dotdict import dotdict

d				= dotdict()
d['a.i']			= 1
d['c']				= 2
d['l']				= [ dotdict( x=10 ), dotdict( x=11 ) ]
d['p.q']			= 3
d['p.l']			= [ dotdict( y=5 ) ]
d['p.k.z']			= 0

bad				= []
for key,same in [
        ('l[a.i]..c',		'c'),		# parent of l[...] is the root
        ('l[a.i].x..x',	'l[a.i].x'),	# parent of x is l[1] (cut is outside the brackets: works)
        ('p.l[k.z]..q',	'p.q'),		# parent of p.l[...] is p
        ('p.l[k.z].y...q',	'p.q'),
]:
    exp				= d[same]
    try:
        got			= d[key]
    except KeyError as exc:
        got			= 'KeyError(%s)' % ( exc, )
    if got != exp:
        bad.append( "d[%r]: observed %s, expected %r ( == d[%r] )" % ( key, got, exp, same ))
    if ( key in d ) != ( same in d ):
        bad.append( "%r in d: observed %r, expected %r" % ( key, key in d, same in d ))
if bad:
    print( "\n".join( bad ))
    sys.exit( 1 )
print( "OK" )
