"""dotdict: a list of levels is listed by iteration as name[i].key, and "every listed key looks up to the listed value".
Lookup sends the WHOLE segment 'name[i]' through eval, so this only holds while the name happens to be a Python
expression naming itself: under 'class' / 'from' / 'in' ( keywords; 'class' is an everyday dotdict key in cpppo's CIP
path segments ), 'my-list', '2nd', 'None' ... the listed keys raise KeyError, are not members, cannot be assigned,
popped or deleted by path -- and 'a-b[0]' even evaluates peers ( a - b[0] ) instead of addressing the element.
"""
import sys
from cpppo.dotdict import dotdict

bad				= []
for name in ( 'rows', 'class', 'from', 'in', 'my-list', '2nd', 'None' ):
    d				= dotdict()
    d['cfg.' + name]		= [ dotdict( x=1 ), dotdict( x=2 ) ]
    for k,v in d.items():
        try:
            got			= d[k]
        except KeyError as exc:
            got			= "KeyError(%s)" % ( exc, )
        if got != v or k not in d:
            bad.append( "list of levels under %r: items() lists (%r, %r); d[%r]: observed %s, %r in d: %r" % (
                name, k, v, k, got, k, k in d ))
            break

d				= dotdict( a=5, b=[ 1 ] )
d['a-b']			= [ dotdict( x=1 ) ]
got				= d.get( 'a-b[0]' )
if got != { 'x': 1 }:
    bad.append( "d['a-b'] = [ {x:1} ] with peers a=5, b=[1]: d.get('a-b[0]'): observed %r, expected {'x': 1}; keys %r" % ( got, list( d )))

if bad:
    print( "\n".join( bad ))
    sys.exit( 1 )
print( "OK" )
