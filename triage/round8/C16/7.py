"""dotdict: "plain dictionaries assigned into the tree become addressable levels" -- not when they arrive inside a list
( the usual shape of decoded JSON: {'l': [ {...}, {...} ] } ).  The list keeps plain dicts: the elements are not listed
as l[i].name, a path below the first name in an element does not look up, and assignment through l[i] is refused,
while a list of dotdicts behaves ( and a dict assigned to l[i] afterwards is converted ).
"""
import sys
from cpppo.dotdict import dotdict

bad				= []
d				= dotdict( { 'l': [ { 'x': { 'y': 1 }}, { 'x': { 'y': 2 }} ] } )

keys				= [ k.replace( ' ', '' ) for k in d ]
if keys != [ 'l[0].x.y', 'l[1].x.y' ]:
    bad.append( "keys: observed %r, expected ['l[0].x.y', 'l[1].x.y']" % ( keys, ))
try:
    got				= d['l[1].x.y']
    if got != 2:
        bad.append( "d['l[1].x.y']: observed %r, expected 2" % ( got, ))
except KeyError as exc:
    bad.append( "d['l[1].x.y']: observed KeyError(%s), expected 2 ( d['l[1].x'] is %r )" % ( exc, d['l[1].x'] ))
try:
    d['l[0].z']			= 3
    if d['l[0].z'] != 3:
        bad.append( "d['l[0].z'] = 3 not stored" )
except KeyError as exc:
    bad.append( "d['l[0].z'] = 3: observed KeyError(%s), expected the value stored in level l[0]" % ( exc, ))

if bad:
    print( "\n".join( bad ))
    sys.exit( 1 )
print( "OK" )
