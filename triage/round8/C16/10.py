"""dotdict.iteritems( depth ): "An optional depth limits the key length ... To approximate the normal dict.items()
(which returns only the current dict's key/value pairs), call with depth=1."  depth=1 lists keys TWO names long
( depth=0 is what lists the current level's own pairs ), i.e. the limit is off by one against its documentation; and
the limit is not applied below a list of levels at all.  apidict( <apidict> ) relies on listitems( depth=1 ).
( minor: the depth argument is outside the core path contract, listed keys still look up )
"""
import sys
from cpppo.dotdict import dotdict

bad				= []
d				= dotdict()
d['a.b.c.d']			= 1
d['x']				= 2
own				= sorted( dict.keys( d ))
got				= sorted( d.listkeys( depth=1 ))
if got != own:
    bad.append( "listkeys( depth=1 ): observed %r, expected the level's own keys %r ( depth=0 gives %r )" % (
        got, own, sorted( d.listkeys( depth=0 ))))
e				= dotdict()
e['l']				= [ dotdict( { 'p.q.r': 1 } ) ]
got				= e.listkeys( depth=1 )
if any( k.count( '.' ) > 1 for k in got ):
    bad.append( "listkeys( depth=1 ) below a list of levels: observed %r, expected keys limited in length" % ( got, ))
if bad:
    print( "\n".join( bad ))
    sys.exit( 1 )
print( "OK" )
