"""apidict ( the locking dotdict of dotdict.py ): three ways in which it is not the tree the dotdict contract describes.
 a) a plain dict assigned into an apidict does not become a level: __setitem__ converts with self.__class__( value ),
    and apidict's first argument is the timeout -> AssertionError ( from the constructor, update and assignment )
 b) copy.copy / copy.deepcopy of an apidict raise the same AssertionError ( __copy__ / __deepcopy__ call
    type( self )( <generator> ) )
 c) the names of apidict's own slots are not refused as keys: a['_tmo'] = 5 is stored, but the attribute form a._tmo
    answers the slot ( the timeout ) -- index and attribute form disagree ( cf. 7e041f8 for 'fromkeys' / '_resolve' )
"""
import copy
import sys
from cpppo.dotdict import dotdict, apidict_threading

bad				= []

a				= apidict_threading( 0.01 )
try:
    a['lvl']			= { 'x': 1 }
    if a['lvl.x'] != 1:
        bad.append( "a) a['lvl'] = {'x': 1}: a['lvl.x'] == %r" % ( a['lvl.x'], ))
except AssertionError as exc:
    bad.append( "a) a['lvl'] = {'x': 1}: observed AssertionError(%s); expected an addressable level a['lvl.x'] == 1" % ( exc, ))
try:
    b				= apidict_threading( 0.01, { 'lvl': { 'x': 1 }} )
except AssertionError as exc:
    bad.append( "a) apidict( 0.01, {'lvl': {'x': 1}} ): observed AssertionError(%s)" % ( exc, ))

a				= apidict_threading( 0.01, x=1 )
a['lvl.y']			= 2
for name,fun in ( ('copy.copy', copy.copy), ('copy.deepcopy', copy.deepcopy) ):
    try:
        c			= fun( a )
        c['lvl.y']		= 3
        if a['lvl.y'] != 2:
            bad.append( "b) %s( apidict ) shares a level" % ( name, ))
    except AssertionError as exc:
        bad.append( "b) %s( apidict ): observed AssertionError(%s); expected an independent copy" % ( name, exc ))

a				= apidict_threading( 0.01 )
for key in ( '_tmo', '_lck', '_cnd', '_sync_mod' ):
    try:
        a[key]			= 5
    except KeyError:
        continue							# refused: fine
    attr			= getattr( a, key )
    if attr != a[key]:
        bad.append( "c) a[%r] = 5 accepted; a[%r] == %r but a.%s == %r" % ( key, key, a[key], key, attr ))

if bad:
    print( "\n".join( bad ))
    sys.exit( 1 )
print( "OK" )
