"""dotdict: key iteration lists the leaf paths; an EMPTY level is a leaf and is listed ( dotdict_test: "key iteration
(does not ignore empty key layers)" ).  An empty level held in a list of levels is not: iteritems' list branch yields
only what the element's own iteritems yields, which is nothing.  A tree can so contain paths ( 'l', 'l[0]' are
members and look up ) while iteration / keys() / items() list nothing at all for them.
"""
import sys
from cpppo.dotdict import dotdict

bad				= []

d				= dotdict()
d.l				= [ dotdict() ]
if 'l' in d and 'l[0]' in d and not [ k for k in d if k.startswith( 'l' ) ]:
    bad.append( "d.l = [dotdict()]: 'l' in d and 'l[0]' in d are True, len(d) == %d, but list(d) == %r; expected 'l[0]' ( or 'l' ) listed" % (
        len( d ), list( d )))

d				= dotdict()
d['a.l']			= [ dotdict( x=1 ), dotdict(), dotdict( e=dotdict() ) ]
keys				= sorted( d )
# 'a.l[2].e' ( empty level below an element ) is listed, 'a.l[1]' ( the element itself empty ) is not
if 'a.l[2].e' in keys and not any( k.replace( ' ', '' ) == 'a.l[1]' for k in keys ):
    bad.append( "a.l = [ {x:1}, {}, {e:{}} ]: keys == %r; the empty level a.l[2].e is listed, the empty level a.l[1] is not" % ( keys, ))

# consequence: del refuses the level as non-empty although nothing is listed below it
d				= dotdict()
d['a.l']			= [ dotdict() ]
try:
    del d['a']
except KeyError as exc:
    if not [ k for k in d ]:
        bad.append( "del d['a'] refused (%s) although iteration lists nothing in d: %r" % ( exc, list( d )))

if bad:
    print( "\n".join( bad ))
    sys.exit( 1 )
print( "OK" )
