"""dotdict: other ways to copy / update the tree that by-pass or mis-use the path machinery.
 a) pickle round-trip ( what multiprocessing does with a dotdict argument under spawn/forkserver ): pickle takes the
    overridden items() -- flattened 'l[0].x' keys -- as the dict items, and re-assigning 'l[0].x' in the empty copy
    raises NameError.  A tree with a list of levels cannot be pickled and loaded.
 b) d |= {...} ( dict.__ior__, Python 3.9+ ) is not routed through __setitem__ like update(): a dotted key is stored
    verbatim ( listed by iteration, but neither a member nor found ), a plain dict does not become a level.
"""
import pickle
import sys
from cpppo.dotdict import dotdict

bad				= []

d				= dotdict()
d['a.b']			= 1
d['l']				= [ dotdict( x=1 ), dotdict( x=2 ) ]
try:
    c				= pickle.loads( pickle.dumps( d ))
    if sorted( c.items() ) != sorted( d.items() ):
        bad.append( "a) pickle round trip: observed %r, expected %r" % ( sorted( c.items() ), sorted( d.items() )))
except Exception as exc:
    bad.append( "a) pickle.loads( pickle.dumps( d )) with d.l a list of levels: observed %s(%s), expected an equal tree" % (
        exc.__class__.__name__, exc ))

if hasattr( dict, '__ior__' ):
    d				= dotdict()
    d			       |= { 'a.b': 1, 'p': { 'q': 2 } }
    for k,v in d.items():
        if k not in d:
            bad.append( "b) after d |= {'a.b': 1, ...}: items() lists (%r, %r) but %r in d is False" % ( k, v, k ))
    if not isinstance( d['p'], dotdict ):
        bad.append( "b) after d |= {'p': {'q': 2}}: d['p'] is a %s, not a level" % ( type( d['p'] ).__name__, ))

if bad:
    print( "\n".join( bad ))
    sys.exit( 1 )
print( "OK" )
