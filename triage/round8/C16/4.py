"""dotdict: a name containing '[' that is not of the form name[index] ( 'a[0]b', 'x[', 'tag[1]_old' ) is accepted by
assignment / update / a plain dict made a level, is listed by iteration -- and can then not be looked up, is not a
member, cannot be popped by path or deleted: __getitem__ sends every segment containing '[' through eval.
Either such a name is refused like the reserved ones, or it is stored and found again.
"""
import sys
from cpppo.dotdict import dotdict

bad				= []
for key in ( 'a[0]b', 'x[', 'lvl.tag[1]_old' ):
    d				= dotdict()
    try:
        d[key]			= 1
    except KeyError:
        continue							# refused: consistent
    listed			= list( d )
    for k in listed:
        try:
            v			= d[k]
        except KeyError as exc:
            bad.append( "after d[%r] = 1: iteration lists %r but d[%r] raises KeyError(%s); %r in d is %r" % (
                key, listed, k, exc, k, k in d ))
            continue
        if v != 1:
            bad.append( "after d[%r] = 1: d[%r] == %r" % ( key, k, v ))
# a plain dict assigned into the tree
d				= dotdict()
try:
    d.cfg			= { 'name[x': 5 }
    for k,v in d.items():
        if k not in d:
            bad.append( "after d.cfg = {'name[x': 5}: items() lists (%r, %r) but %r in d is False" % ( k, v, k ))
except KeyError:
    pass
if bad:
    print( "\n".join( bad ))
    sys.exit( 1 )
print( "OK" )
