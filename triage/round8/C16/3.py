"""dotdict: pop / del through a key whose LAST segment is indexed.  The path exists ( lookup and membership succeed,
assignment through the very same key form works ), but pop looks the segment 'l[1]' up in the raw mapping: with a
default it returns the default and removes nothing, without one it raises KeyError; del of an element that is a
plain value or an empty level raises KeyError, too.  ( 73480a2 repaired only the indexed segment as a LEVEL: 'l[0].x' )
"""
import sys
from cpppo.dotdict import dotdict

bad				= []

d				= dotdict()
d['a.l']			= [ 10, 20, 30 ]
assert 'a.l[1]' in d and d['a.l[1]'] == 20
d['a.l[1]']			= 21				# assignment by this path works
assert d.a.l == [ 10, 21, 30 ]

got				= d.pop( 'a.l[1]', 'DEFAULT' )
if got != 21 or d.a.l != [ 10, 30 ]:
    bad.append( "d.pop('a.l[1]', 'DEFAULT'): observed %r and a.l == %r; expected 21 and [10, 30] ( 'a.l[1]' in d was True )" % (
        got, d.a.l ))

d				= dotdict()
d['l']				= [ 10, 20, 30 ]
try:
    got				= d.pop( 'l[0]' )
    if got != 10 or d.l != [ 20, 30 ]:
        bad.append( "d.pop('l[0]'): observed %r, l == %r; expected 10, [20, 30]" % ( got, d.l ))
except KeyError as exc:
    bad.append( "d.pop('l[0]'): observed KeyError(%s) although 'l[0]' in d is %r; expected 10" % ( exc, 'l[0]' in d ))

d				= dotdict()
d['l']				= [ 10, dotdict(), 30 ]
for key in ( 'l[0]', 'l[0]' ):						# a plain value, then ( shifted ) an empty level
    was				= list( d.l )
    try:
        del d[key]
        if d.l != was[1:]:
            bad.append( "del d[%r]: observed l == %r, expected %r" % ( key, d.l, was[1:] ))
    except KeyError as exc:
        bad.append( "del d[%r] ( element %r ): observed KeyError(%s) although %r in d is %r; expected the element to go" % (
            key, was[0], exc, key, key in d ))

if bad:
    print( "\n".join( bad ))
    sys.exit( 1 )
print( "OK" )
