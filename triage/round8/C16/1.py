"""dotdict: a leading '.' is ignored ( class docstring: "Any string valid as an attribute name should be valid as a
key (leading '.' ignored)" ), and back-tracking past the root is OK.  When what remains after the leading '.' is a
SINGLE name -- '.c', or 'x...c' which back-tracks to the root and leaves '.c' -- _resolve returns ( 'c', 'c' )
instead of ( 'c', None ): the name is used twice, as if the key were 'c.c'.
"""
import sys
from cpppo.dotdict import dotdict

bad				= []

d				= dotdict()
d['a.b']			= 1
d['c']				= 2

# lookup / membership / get of an existing top-level value and level by '.name'
for key,exp in [ ('.c', 2), ('.a', d['a']), ('.a.b', 1), ('x...c', 2), ('a.b....c', 2) ]:
    try:
        got			= d[key]
    except KeyError as exc:
        got			= 'KeyError(%s)' % exc
    if got != exp:
        bad.append( "d[%r]: observed %s, expected %r" % ( key, got, exp ))
    if key not in d:
        bad.append( "%r in d: observed False, expected True" % ( key, ))
    if d.get( key, 'DEFAULT' ) == 'DEFAULT':
        bad.append( "d.get(%r, 'DEFAULT'): observed 'DEFAULT', expected %r" % ( key, exp ))

# assignment by '.name' creates a level 'name' holding 'name'
e				= dotdict()
e['.c']				= 2
if dict.__contains__( e, 'c' ) and isinstance( dict.__getitem__( e, 'c' ), dotdict ):
    bad.append( "e['.c'] = 2: observed tree %r (keys %r), expected {'c': 2}" % ( dict.__repr__( e ), list( e )))

# setdefault / pop / del by '.name'
f				= dotdict( c=2 )
try:
    r				= f.setdefault( '.c', 5 )
    if r != 2:
        bad.append( "f.setdefault('.c', 5) with f.c == 2: observed %r, expected 2" % ( r, ))
except KeyError as exc:
    bad.append( "f.setdefault('.c', 5) with f.c == 2: observed KeyError(%s), expected 2" % ( exc, ))
g				= dotdict( c=2 )
r				= g.pop( '.c', 'DEFAULT' )
if r != 2:
    bad.append( "g.pop('.c', 'DEFAULT') with g.c == 2: observed %r, expected 2" % ( r, ))
h				= dotdict( c=2 )
try:
    del h['.c']
except KeyError as exc:
    bad.append( "del h['.c'] with h.c == 2: observed KeyError(%s), expected the value to be deleted" % ( exc, ))

print( "_resolve('.c') == %r, _resolve('x...c') == %r ( expected ('c', None) )" % ( d._resolve( '.c' ), d._resolve( 'x...c' ), ))
if bad:
    print( "\n".join( bad ))
    sys.exit( 1 )
print( "OK" )
