#!/usr/bin/env python
"""
C07 defect 2 (unchanged code): with a Tag's error code forced ( the documented web API  api/tags/<tag>/error=8 , ie.
tags[<tag>].error = 8 ), a Read Tag Fragmented of that Tag sent ALONE is answered  d2 00 08 00  - an error status below
0x10 WITHOUT the extended status word.  That is byte-identical to a failed Unconnected Send ( see parser.unconnected_send
is_uerr ), so cpppo's own client raises SENDStatusError and never issues/harvests the requests behind it; the same
requests bundled ( multiple=... ) report status 8 for that one Tag and carry on with the neighbours.

Commit 7afdbbd ( "an error reply to Read Tag Fragmented (0x52) always carries an extended status word" ) gave the word
to the stand-in replies only; Logix.request pops status_ext on success and THEN applies attribute.error.

Expected: the same three results alone and bundled: [ (0,[..]), (8|(8,[0]),None), (0,[..]) ].
"""
from __future__ import print_function
import logging
import socket
import sys
import threading
import time

from cpppo.dotdict import dotdict, apidict
from cpppo.server import enip
from cpppo.server.enip import client, main as enip_main_module
from cpppo.server.enip.main import main as enip_main

logging.basicConfig( level=logging.CRITICAL )

ADDRESS				= ( 'localhost', 44857 )


def connection():
    for _ in range( 100 ):
        try:
            return client.connector( host=ADDRESS[0], port=ADDRESS[1], timeout=5 )
        except socket.error:
            time.sleep( .1 )
    raise AssertionError( "Simulator didn't start" )


def run( tags, multiple ):
    results			= []
    with connection() as conn:
        operations		= list( client.parse_operations( tags ))
        try:
            for idx,dsc,req,rpy,sts,val in conn.synchronous( operations, multiple=multiple, fragment=True, timeout=5 ):
                results.append( ( sts[0] if isinstance( sts, tuple ) else sts, val ))
        except Exception as exc:
            results.append( "%s: %s" % ( exc.__class__.__name__, exc ))
    return results


def main():
    control			= apidict( enip.timeout, { 'done': False } )
    server			= threading.Thread( target=enip_main, kwargs=dict(
        argv=[ '--address', '%s:%d' % ADDRESS, 'DI=DINT[4]', 'SC=DINT' ], server={ 'control': control } ))
    server.daemon		= True
    server.start()
    try:
        run( [ 'SC' ], 0 )					# wait for the simulator
        enip_main_module.tags['DI'].error = 0x08			# == curl .../api/tags/DI/error=8
        tags			= [ 'SC', 'DI[0-1]', 'SC' ]
        bundled			= run( tags, 500 )
        alone			= run( tags, 0 )
    finally:
        control.done		= True
    print( "Read Tag Fragmented of %r, DI forced to error 0x08" % ( tags, ))
    print( "    bundled: %r" % ( bundled, ))
    print( "    alone:   %r" % ( alone, ))
    if alone != bundled:
        print( "FAILED: the requests issued one by one do not give the results of the Multiple Service Packet" )
        return 1
    print( "OK" )
    return 0

if __name__ == "__main__":
    sys.exit( main() )
