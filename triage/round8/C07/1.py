#!/usr/bin/env python
"""
C07 defect 1 (unchanged code): a Read Tag Fragmented sent ALONE as a "simple" request (SendRRData carrying the bare CIP
request, no Unconnected Send wrapper: what `enip_client -S --fragment` / route_path=False, send_path='' produces) is not
answered, while the very same request inside a Multiple Service Packet sent the same way is.

parser.unconnected_send selects its Unconnected Send sub-parser on the first octet 0x52 alone; Read Tag Fragmented has the
same service code, so its path/elements/offset are taken for path/priority/ticks/length/route_path of an Unconnected Send.
Depending on the element count / offset the frame then fails to parse (the session is dropped) or yields EtherNet/IP
status 0x08 without a CIP reply.

Expected: the lone request is answered exactly as the bundle member is (d2 00 00 00 c4 00 ...).
"""
from __future__ import print_function
import logging
import struct
import sys

import cpppo
from cpppo.dotdict import dotdict
from cpppo.server.enip import logix, parser
from cpppo.server.enip.device import Attribute
from cpppo.server.enip.parser import DINT

logging.basicConfig( level=logging.CRITICAL )
logging.disable( logging.CRITICAL )

ADDR				= ( '127.0.0.1', 54321 )
TAGS				= dotdict()
TAGS['DI']			= dotdict( error=0, attribute=Attribute( 'DI', DINT, default=[ 1, 2, 3, 4, 5, 6, 7, 8, 9, 10 ] ))


def symbolic( name ):
    name			= name.encode( 'iso-8859-1' )
    seg				= b'\x91' + struct.pack( 'B', len( name )) + name + ( b'\x00' if len( name ) % 2 else b'' )
    return struct.pack( 'B', len( seg ) // 2 ) + seg

def multiple( requests ):
    count			= len( requests )
    offsets,offset		= [],2 + 2 * count
    for r in requests:
        offsets.append( offset )
        offset		       += len( r )
    return ( b'\x0a\x02\x20\x02\x24\x01' + struct.pack( '<H', count )
             + b''.join( struct.pack( '<H', o ) for o in offsets ) + b''.join( requests ))

def transact_simple( request ):
    """The bare CIP request as the unconnected data item of a SendRRData frame; returns the CIP reply (or a str)"""
    cpf				= ( struct.pack( '<IH', 0, 5 ) + struct.pack( '<H', 2 ) + struct.pack( '<HH', 0, 0 )
                                    + struct.pack( '<HH', 0xb2, len( request )) + request )
    frame			= struct.pack( '<HHII', 0x006f, len( cpf ), 1, 0 ) + b'\x00' * 8 + struct.pack( '<I', 0 ) + cpf
    data			= dotdict()
    with parser.enip_machine() as machine:
        for _ in machine.run( source=cpppo.peekable( frame ), data=data, path='request' ):
            pass
    try:
        logix.process( ADDR, data=data, tags=TAGS )
    except Exception as exc:
        return "session failed: %s" % ( str( exc )[:100] )
    if data.response.enip.status != 0 or 'input' not in data.response.enip:
        return "EtherNet/IP status 0x%02x, no CIP reply" % ( data.response.enip.status )
    rsp				= bytes( data.response.enip.input )
    pos				= 6 + 2
    typ,siz			= struct.unpack( '<HH', rsp[pos:pos+4] )
    pos			       += 4 + siz
    typ,siz			= struct.unpack( '<HH', rsp[pos:pos+4] )
    return rsp[pos+4:pos+4+siz]

def hexed( b ):
    return b if isinstance( b, str ) and str is not bytes else ' '.join( '%02x' % c for c in bytearray( b ))

def main():
    logix.setup( tags=TAGS )
    bad				= 0
    for elements,offset in (( 2, 0 ), ( 2, 4 ), ( 10, 0 ), ( 10, 36 )):
        request			= b'\x52' + symbolic( 'DI' ) + struct.pack( '<HI', elements, offset )
        bundled			= transact_simple( multiple( [ request ] ))
        member			= bundled[8:] if not isinstance( bundled, str ) or str is bytes else bundled # 8a 00 00 00 | 01 00 | 04 00 | member
        alone			= transact_simple( request )
        same			= alone == member
        print( "Read Tag Fragmented DI, %2d elements from byte offset %2d, simple (no Unconnected Send):" % ( elements, offset ))
        print( "    within a Multiple Service Packet: %s" % hexed( member ))
        print( "    alone:                            %s%s" % ( hexed( alone ), "" if same else "   <-- expected the same reply" ))
        bad		       += not same
    if bad:
        print( "FAILED: %d lone simple Read Tag Fragmented requests were not answered like the same request in a bundle" % bad )
        return 1
    print( "OK" )
    return 0

if __name__ == "__main__":
    sys.exit( main() )
