#!/usr/bin/env python
"""
C17 defect 2 (unchanged code): at precision 0 ( render( ms=False ), which is also what the timestamp.local property uses )
an instant rendered in a zone WEST of Greenwich whose designation is numeric parses back to a different instant, silently.

    timestamp( 1720000000 ).render( 'America/Sao_Paulo', ms=False )   == '2024-07-03 06:46:40 -03'
    timestamp( '2024-07-03 06:46:40 -03' ).value                      == 1719989200.03    ( 3h early, plus 30ms )

    timestamp( 1720000000 ).render( 'America/Edmonton', ms=False, tzdetail=False ) == '2024-07-03 03:46:40-0600'
    timestamp( '2024-07-03 03:46:40-0600' ).value                     == 1719978400.06    ( 6h early, plus 60ms )

datetime_from_string turns every '-' into a blank before splitting, so the '-03' / '-0600' designation becomes a 7th
all-digit term: it is taken for the FRACTION of the second ( .03 / .0600 ), no zone is seen, and the wall-clock time is
read as UTC.  ( With ms=True the same texts have 8 terms and are rejected; zones east of Greenwich give '+03', which is
rejected as an unknown zone. )  All of South America and the Etc/GMT+N zones render like this.

Expected: the same instant, or a rejection.  Exits 1 while the contradiction is present, 0 otherwise.
"""
from __future__ import print_function

import sys
import warnings

warnings.simplefilter( 'ignore' )

from cpppo.history.times import timestamp

value			= 1720000000.0
cases			= [
    # zone			tzdetail
    ( 'America/Sao_Paulo',	None ),		# '-03'
    ( 'America/Bogota',		None ),		# '-05'
    ( 'Etc/GMT+8',		None ),		# '-08'
    ( 'Pacific/Marquesas',	None ),		# '-0930'
    ( 'America/Edmonton',	False ),	# numeric offset requested: '-0600'
    ( 'America/New_York',	False ),	# '-0400'
    ( 'Asia/Tokyo',		False ),	# '+0900' (control: rejected)
]

wrong			= []
for zone,tzdetail in cases:
    text		= timestamp( value ).render( tzinfo=zone, ms=False, tzdetail=tzdetail )
    try:
        back		= timestamp( text ).value
    except Exception as exc:
        print( "%-20s %r -> rejected (%s)" % ( zone, text, type( exc ).__name__ ))
        continue
    print( "%-20s %r -> %.3f (original %.3f, difference %+.3fs)" % ( zone, text, back, value, back - value ))
    if abs( back - value ) > 0.0005:
        wrong.append( ( zone, text, value, back ) )

if wrong:
    print( "OBSERVED: %d precision-0 rendering(s) parse back to another instant; EXPECTED: the same instant, or a rejection" % len( wrong ))
    sys.exit( 1 )
print( "OK: every rendering parses back to its own instant or is rejected" )
