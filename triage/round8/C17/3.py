#!/usr/bin/env python
"""
C17 defect 3 (unchanged code): an instant rendered with the full name of its zone ( render( tzdetail=True ), the only zone
designation that otherwise always parses ) cannot be parsed back when the zone's NAME contains a '-':

    timestamp( 1720000000.25 ).render( 'America/Port-au-Prince', tzdetail=True ) == '2024-07-03 05:46:40.250 America/Port-au-Prince'
    timestamp( '2024-07-03 05:46:40.250 America/Port-au-Prince' )  ->  ValueError ... UnknownTimeZoneError('Prince')

datetime_from_string translates ':', '-' and '.' to blanks in the WHOLE text, zone name included, so the name falls apart
( 'America/Port', 'au', 'Prince' ).  26 zones of the database are affected ( America/Port-au-Prince, America/Blanc-Sablon,
Africa/Porto-Novo, Asia/Ust-Nera, US/East-Indiana, US/Indiana-Starke, GB-Eire, NZ-CHAT, W-SU, GMT-0, Etc/GMT-0 .. Etc/GMT-14 );
for 'Etc/GMT-5' the trailing '5' is even taken for a number, so no zone is seen at all.  None of the times tried is
ambiguous or nonexistent in its zone ( no transition within days ), which is the only reason the property admits for a rejection.

Expected: the text parses back to the instant it was rendered from.  Exits 1 while the contradiction is present, 0 otherwise.
"""
from __future__ import print_function

import sys
import warnings

warnings.simplefilter( 'ignore' )

from cpppo.history.times import timestamp

value			= 1720000000.25		# 2024-07-03 09:46:40.250 UTC; no zone below changes its clocks near it
zones			= [
    'America/Port-au-Prince', 'America/Blanc-Sablon', 'Africa/Porto-Novo', 'Asia/Ust-Nera', 'US/East-Indiana',
    'Etc/GMT-5', 'W-SU', 'NZ-CHAT',
    'America/Edmonton',		# control
]

wrong			= []
for zone in zones:
    text		= timestamp( value ).render( tzinfo=zone, tzdetail=True )
    try:
        back		= timestamp( text ).value
    except Exception as exc:
        print( "%-24s %r -> rejected: %s" % ( zone, text, exc.args[-1] if exc.args else exc ))
        wrong.append( ( zone, text ))
        continue
    print( "%-24s %r -> %.3f (original %.3f)" % ( zone, text, back, value ))
    if abs( back - value ) > 0.0005:
        wrong.append( ( zone, text ))

if wrong:
    print( "OBSERVED: %d unambiguous rendering(s) with a full zone name do not parse back; EXPECTED: the same instant" % len( wrong ))
    sys.exit( 1 )
print( "OK: every rendering parses back to its own instant" )
