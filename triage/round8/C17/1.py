#!/usr/bin/env python
"""
C17 defect 1 (unchanged code): the default rendering of an instant in a zone whose abbreviation is ALSO the name of a
time-zone-database zone with different rules (CET, EET, WET, ...) parses back to a DIFFERENT instant, one hour away.

    timestamp( 1720000000.25 ).render( 'Europe/Kaliningrad' )  ==  '2024-07-03 11:46:40.250 EET'
    timestamp( '2024-07-03 11:46:40.250 EET' ).value            ==  1719996400.25   (3600s earlier)

Kaliningrad (likewise Africa/Tripoli, Africa/Algiers and Africa/Tunis with 'CET') keeps UTC+2 all year and names it 'EET';
datetime_from_string / timezone_info hand the abbreviation to pytz.timezone(), where 'EET' is a full zone that observes
summer time (EEST, UTC+3) in July, and localize( is_dst=None ) has nothing to reject.

Expected: the rendered text parses back to the instant it was made from, or is rejected -- never silently another instant.
Exits 1 while the contradiction is present, 0 otherwise.
"""
from __future__ import print_function

import sys
import warnings

warnings.simplefilter( 'ignore' )

from cpppo.history.times import timestamp

cases			= [
    ( 'Europe/Kaliningrad',	1720000000.25 ),	# July 2024: EET all year, UTC+2
    ( 'Africa/Tripoli',		1720000000.25 ),	# July 2024: EET all year, UTC+2
    ( 'Africa/Algiers',		1720000000.25 ),	# July 2024: CET all year, UTC+1
    ( 'Africa/Tunis',		1720000000.25 ),	# July 2024: CET all year, UTC+1
    ( 'Europe/Berlin',		1705320000.25 ),	# January 2024: CET (control; parses back correctly)
]

wrong			= []
for zone,value in cases:
    text		= timestamp( value ).render( tzinfo=zone )
    try:
        back		= timestamp( text ).value
    except Exception as exc:
        print( "%-20s %r -> rejected (%s)" % ( zone, text, type( exc ).__name__ ))
        continue
    print( "%-20s %r -> %.3f (original %.3f, difference %+.3fs)" % ( zone, text, back, value, back - value ))
    if abs( back - value ) > 0.0005:
        wrong.append( ( zone, text, value, back ) )

if wrong:
    print( "OBSERVED: %d rendering(s) parse back to another instant; EXPECTED: the same instant (to the ms), or a rejection" % len( wrong ))
    sys.exit( 1 )
print( "OK: every rendering parses back to its own instant or is rejected" )
