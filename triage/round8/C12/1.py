"""C12 contradiction 1 (unchanged code): connector.issue over-fills every Multiple Service Packet after the first.

The operation that does not fit into the bundle being collected triggers the flush and becomes the first
member of the next bundle -- but its estimated request/reply size is never added to the (reset) running
totals reqsiz/rpysiz.  Every bundle after the first therefore accepts one operation more than the 'multiple'
size limit allows ("bundle requests 'til we exceed the specified multiple service packet request size limit").

Input:    16 identical writes of 10 INTs (estimate 24+20 = 44 octets each), multiple=300 (68 + 5*44 = 288 < 300 <= 332)
Expected: no bundle carries more than 5 operations (like the first one), ie. 5,5,5,1
Observed: 5,6,5 -- the 2nd bundle is estimated at 68 + 6*44 = 332 >= 300

Input:    7 reads of 120 DINTs (reply estimate 4+480 octets each), multiple=1000 (68+484 = 552; 68+2*484 = 1036)
Expected: each read travels alone (1,1,1,1,1,1,1)
Observed: 1,2,2,2 -- and the reply frames really are > 1000 octets long

Also: an operation of unknown reply size (rpyest = multiple, "Completely unknown; prevent merging...") is merged
with its successor whenever it is not the first operation of the list.
"""
from __future__ import print_function

import collections
import logging
import socket
import sys
import threading
import time

from cpppo.dotdict import apidict
from cpppo.server import enip
from cpppo.server.enip import client
from cpppo.server.enip.main import main as enip_main

ADDR				= ('127.0.0.1', 44921)


def start_server():
    control			= apidict( enip.timeout, { 'done': False } )
    thread			= threading.Thread( target=enip_main, kwargs=dict(
        argv=[ '--address', '%s:%d' % ADDR, 'Int=INT[10]', 'Big=DINT[300]' ],
        server={ 'control': control } ))
    thread.daemon		= True
    thread.start()
    for _ in range( 100 ):
        try:
            socket.create_connection( ADDR, timeout=1 ).close()
            return
        except socket.error:
            time.sleep( .1 )
    raise Exception( "simulator did not start" )


class recording( client.connector ):
    """Remembers the length of every response frame received"""
    def __init__( self, *args, **kwds ):
        self.frames		= []
        super( recording, self ).__init__( *args, **kwds )

    def __next__( self ):
        result			= super( recording, self ).__next__()
        if result and 'enip.length' in result:
            self.frames.append( 24 + result.enip.length )
        return result
    next			= __next__


def bundles( tags, multiple, **kwds ):
    with recording( host=ADDR[0], port=ADDR[1], timeout=5 ) as conn:
        del conn.frames[:]
        counts			= collections.OrderedDict()
        for idx,dsc,req,rpy,sts,val in conn.operate(
                client.parse_operations( tags ), multiple=multiple, timeout=5, **kwds ):
            assert sts == 0, "%s: status %r" % ( dsc, sts )
            counts[idx]		= counts.get( idx, 0 ) + 1
        return list( counts.values() ), list( conn.frames )


def main():
    logging.disable( logging.WARNING )
    start_server()
    failed			= False

    counts,frames		= bundles( [ 'Int[0-9]=(INT)' + ','.join( ['1'] * 10 ) ] * 16, multiple=300 )
    print( "16 writes of 10 INTs, multiple=300: operations per Multiple Service Packet: %r" % ( counts, ))
    if max( counts ) > counts[0]:
        failed			= True
        print( "  CONTRADICTION: identical operations, one size limit, but a later bundle (%d operations) is larger than the first (%d);"
               " expected 5,5,5,1" % ( max( counts ), counts[0] ))

    counts,frames		= bundles( [ 'Big[0-119]' ] * 7, multiple=1000 )
    print( "7 reads of 120 DINTs, multiple=1000: operations per Multiple Service Packet: %r; response frame sizes: %r" % (
        counts, frames ))
    if max( counts ) > 1 or max( frames ) > 1000:
        failed			= True
        print( "  CONTRADICTION: two reads estimated at 484 octets each share a bundle limited to 1000 octets (68 + 2*484 = 1036);"
               " largest response frame %d octets; expected 1,1,1,1,1,1,1" % ( max( frames ), ))
    return 1 if failed else 0


if __name__ == "__main__":
    sys.exit( main() )
