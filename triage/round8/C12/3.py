"""C12 contradiction 3 (unchanged code): a Set Attribute Single (or generic Service Code payload) spelled with
negative SINT values cannot be issued at all.

client.CIP_TYPES admits -128..255 for '(SINT)' ("we actually allow the full unsigned range, plus the negative
range ... all provided values will fit legitimately into the data type without loss"), and
get_attribute.attribute_operations makes SINT the default type ("we accept an enhanced range of values, up to
the 'unsigned' limit of the same sized integral value container").  But client.set_attribute_single (and
client.service_code) skip the conversion to USINT octets for tag_type SINT as well as USINT, and the
producer then packs the signed values with the unsigned format.

Input:    attribute_operations( ['Sint=(SINT)-5,1,2,3', 'Sint'] ), ( also the default: 'Sint=-5,1,2,3' )
Expected: S_A_S succeeds (octets fb 01 02 03 on the wire); Read Tag of Sint yields [-5, 1, 2, 3]
Observed: struct.error: 'B' format requires 0 <= number <= 255 (synchronous, pipelined and bundled alike);
          the very same values written with (INT)/(DINT) casts, or as (SINT)251, are accepted.
"""
from __future__ import print_function

import logging
import socket
import sys
import threading
import time

from cpppo.dotdict import apidict
from cpppo.server import enip
from cpppo.server.enip import client, get_attribute
from cpppo.server.enip.main import main as enip_main

ADDR				= ('127.0.0.1', 44923)


def start_server():
    control			= apidict( enip.timeout, { 'done': False } )
    thread			= threading.Thread( target=enip_main, kwargs=dict(
        argv=[ '--address', '%s:%d' % ADDR, 'Sint=SINT[4]' ],
        server={ 'control': control } ))
    thread.daemon		= True
    thread.start()
    for _ in range( 100 ):
        try:
            socket.create_connection( ADDR, timeout=1 ).close()
            return
        except socket.error:
            time.sleep( .1 )
    raise Exception( "simulator did not start" )


def attempt( tags, **kwds ):
    try:
        with client.connector( host=ADDR[0], port=ADDR[1], timeout=5 ) as conn:
            res			= [ (sts,val) for idx,dsc,req,rpy,sts,val in conn.operate(
                get_attribute.attribute_operations( tags ), timeout=5, **kwds ) ]
            res		       += [ (sts,val) for idx,dsc,req,rpy,sts,val in conn.operate(
                client.parse_operations( [ 'Sint[0-3]' ] ), timeout=5 ) ]
            return res
    except Exception as exc:
        return exc


def main():
    logging.disable( logging.WARNING )
    start_server()
    failed			= False
    for tags,expect in (
            ( [ 'Sint=(SINT)251,1,2,3' ],	[ (0,True), (0,[-5,1,2,3]) ] ),
            ( [ 'Sint=(SINT)-5,1,2,3' ],	[ (0,True), (0,[-5,1,2,3]) ] ),
            ( [ 'Sint=-6,1,2,3' ],		[ (0,True), (0,[-6,1,2,3]) ] ),
    ):
        for kwds in ( dict(), dict( depth=2 ), dict( multiple=500 )):
            res			= attempt( tags, **kwds )
            good		= res == expect
            print( "%r %r --> %r%s" % ( tags, kwds, res, '' if good else '   CONTRADICTION: expected %r' % ( expect, )))
            failed		= failed or not good
    return 1 if failed else 0


if __name__ == "__main__":
    sys.exit( main() )
