"""C12 contradiction 4 (unchanged code, minor): the element index / range in [...] and the byte offset after '+'
only accept decimal digits, although parse_path documents that "any numeric data (eg. class, instance,
attribute or element numbers) default to integer (eg. 26), but may be escaped with the normal base indicators
(eg. 0x1A, 0o49, 0b100110)", and the same element spelled as 4th term of the numeric form, or a '*' count, may.

Input / observed / expected:
  '@0x99/1/1/0x10'  -> element 16                       (right)
  'Tag*0x10'        -> 16 elements                      (right)
  '@0x99/1/1[0x10]' -> ValueError invalid literal ...   (expected: element 16, the same segments as above)
  'Tag[0x10]'       -> ValueError                       (expected: [{'symbolic':'Tag'},{'element':16}])
  'Tag[0-0x0F]'     -> ValueError                       (expected: 16 elements from 0)
  'Tag[0-3]+0x04'   -> ValueError                       (expected: byte offset 4)
"""
from __future__ import print_function

import sys

from cpppo.server.enip import client, device


def main():
    failed			= False
    for text,expect in (
            ( '@0x99/1/1/0x10',		( [{'class': 0x99},{'instance': 1},{'attribute': 1},{'element': 16}], None, None )),
            ( 'Tag*0x10',		( [{'symbolic': 'Tag'}], None, 16 )),
            ( '@0x99/1/1[0x10]',	( [{'class': 0x99},{'instance': 1},{'attribute': 1},{'element': 16}], 16, None )),
            ( 'Tag[0x10]',		( [{'symbolic': 'Tag'},{'element': 16}], 16, None )),
            ( 'Tag[0-0x0F]',		( [{'symbolic': 'Tag'},{'element': 0}], 0, 16 )),
    ):
        try:
            result		= device.parse_path_elements( text )
        except Exception as exc:
            result		= exc
        good			= result == expect
        print( "parse_path_elements( %-18r ) --> %r%s" % ( text, result, '' if good else '   CONTRADICTION: expected %r' % ( expect, )))
        failed			= failed or not good
    try:
        opr,			= client.parse_operations( [ 'Tag[0-3]+0x04' ] )
        result			= opr.get( 'offset' )
    except Exception as exc:
        result			= exc
    good			= result == 4
    print( "parse_operations( ['Tag[0-3]+0x04'] ) offset --> %r%s" % ( result, '' if good else '   CONTRADICTION: expected 4' ))
    failed			= failed or not good
    return 1 if failed else 0


if __name__ == "__main__":
    sys.exit( main() )
