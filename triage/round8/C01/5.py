"""C01 defect 5: a Read Tag [Fragmented] reply of a STRUCT that ends after its structure handle can be produced, but not parsed.

typed_data's own comment says "In theory, there could be a .structure_tag followed by no data ( eg. if you do a Read Tag
Fragmented with an offset to exactly the end of the structure. )", and the 'mov_struct' move_if has an initializer ( an
empty .input array ) for exactly this case.  But the initializer is only applied when the destination '.STRUCT' does
not exist yet, and it always does by then ( the structure_tag was just moved out of it, leaving {} ); the move of the
missing source '.STRUCT.data' then raises AssertionError "Could not find 'read_frag.STRUCT.data' to move ...".

Logix.produce emits such a reply without complaint ( type 0x02A0, handle, no octets ), so
parse( produce( fields )) fails for a legal field value: 0 octets of structure data.

Expected: the reply parses to .type 0x02A0, .structure_tag <handle>, .data.input == empty, and re-produces identically.
Repair: initialize when the *source* is missing ( or make STRUCT create an empty .data.input after the handle ).
"""
from __future__ import print_function

import contextlib
import sys

import cpppo
from cpppo.dotdict import dotdict
from cpppo.server.enip import logix

def parse( octets ):
    data			= dotdict()
    source			= cpppo.peekable( octets )
    with logix.Logix.parser as machine:
        with contextlib.closing( machine.run( source=source, data=data )) as engine:
            for _ in engine:
                pass
        assert machine.terminal, "not terminal"
    return data

bad				= []
for service,context in (( 0xCC, 'read_tag' ), ( 0xD2, 'read_frag' )):
    for payload in ( b'\x01\x02\x03', b'' ):
        data			= dotdict( service=service, status=0 )
        data[context]		= dotdict( type=0x02A0, structure_tag=0x1234 )
        data[context].data	= dotdict( input=bytearray( payload ))
        octets			= logix.Logix.produce( data )
        assert octets == bytes( bytearray([ service, 0, 0, 0, 0xA0, 0x02, 0x34, 0x12 ])) + payload, octets
        what			= "service 0x%02X reply, STRUCT handle 0x1234, %d octets of data" % ( service, len( payload ))
        try:
            back		= parse( octets )
            got			= bytes( bytearray( back[context].data.input ))
            if got != payload or back[context].structure_tag != 0x1234:
                bad.append( "%s: parsed to %r" % ( what, dict( back[context] )))
            elif logix.Logix.produce( back ) != octets:
                bad.append( "%s: re-produced differently" % ( what ))
        except Exception as exc:
            bad.append( "%s: produced %r, which does not parse: %s: %s" % (
                what, octets, type( exc ).__name__, str( exc )[:160] ))

if bad:
    print( "OBSERVED (expected: what Logix.produce emits for a STRUCT reply parses back to the same fields):" )
    for b in bad:
        print( " ", b )
    sys.exit( 1 )
print( "OK" )
