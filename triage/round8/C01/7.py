"""C01 defect 7: a successful Get Attributes All / Get Attribute List / Get Attribute Single reply without data parses
( each reply machine has an explicit 'nodata' terminal state after the status ), but cannot be produced again; and an
error reply that carries data loses it.

    81 00 00 00            parses to { service: 0x81, status: 0 }             produce -> AttributeError 'get_attributes_all'
    8E 00 00 00            parses to { service: 0x8E, status: 0 }             produce -> AttributeError 'get_attribute_single'
    83 00 00 00            parses to { service: 0x83, status: 0 }             produce -> AttributeError 'get_attribute_list'
    8E 00 05 00 01 02      parses to { status: 5, get_attribute_single.data: [1, 2] }   produce -> 8E 00 05 00

Object.produce reaches for data.<context> unconditionally when .status == 0 ( the generic service_code reply branch
right below it tests `'service_code' in data` first ), and never emits the data of a reply whose status is not 0.

Expected: produce( parse( octets )) == octets.
"""
from __future__ import print_function

import contextlib
import sys

import cpppo
from cpppo.dotdict import dotdict
from cpppo.server.enip import device

def parse( octets ):
    data			= dotdict()
    source			= cpppo.peekable( octets )
    with device.Object.parser as machine:
        with contextlib.closing( machine.run( source=source, data=data )) as engine:
            for _ in engine:
                pass
        assert machine.terminal
    return data

bad				= []
for octets in ( b'\x81\x00\x00\x00', b'\x8e\x00\x00\x00', b'\x83\x00\x00\x00', b'\x8e\x00\x05\x00\x01\x02',
                b'\x8e\x00\x00\x00\x01\x02', b'\x90\x00\x00\x00' ):	# the last two are fine
    try:
        data			= parse( octets )
    except Exception as exc:
        bad.append( "%r did not parse: %r" % ( octets, exc ))
        continue
    try:
        again			= device.Object.produce( data )
    except Exception as exc:
        bad.append( "%r parsed as %r; producing it raised %s: %s" % ( octets, dict( data ), type( exc ).__name__, exc ))
        continue
    if again != octets:
        bad.append( "%r parsed as %r; produced again as %r" % ( octets, dict( data ), again ))

if bad:
    print( "OBSERVED (expected: every reply that parses is produced again, byte for byte):" )
    for b in bad:
        print( " ", b )
    sys.exit( 1 )
print( "OK" )
