"""C01 defect 1: a Forward Open whose connection parameters say "size 0" (a Null connection) parses, but cannot be produced.

The Network Connection Parameters word holds the connection size in its low 9 (small) / 16 (large) bits; 0 is a legal
value of that field and is what a Null connection (type 0: "listen only" / "configure only" / re-configuration
Forward Open, Vol 1 3-5.5.1.1) carries.  The parser accepts such a request and decodes .size 0; producing the parsed
request again raises AssertionError "Connection size 0 invalid" from defaults.Connection.__init__, and such a request
cannot be formed from its parameters either ( size=0 ).

Expected: produce( parse( octets )) == octets, and size=0 encodes to an NCP with 0 in the size bits.
"""
from __future__ import print_function

import contextlib
import struct
import sys

import cpppo
from cpppo.dotdict import dotdict
from cpppo.server.enip import device, defaults

CM				= device.Connection_Manager

def parse( octets ):
    data			= dotdict()
    source			= cpppo.peekable( octets )
    with CM.parser as machine:
        with contextlib.closing( machine.run( source=source, data=data )) as engine:
            for _ in engine:
                pass
        assert machine.terminal
    return data

bad				= []
for large in ( False, True ):
    for ot_ncp,to_ncp in (( 0x43F4, 0x0000 ), ( 0x0000, 0x43F4 ), ( 0x0000, 0x0000 )):
        if large:
            # same parameters, large layout: parameter bits << 16, size in the low 16 bits
            ot_ncp,to_ncp	= ( ( n & 0xFE00 ) << 16 | ( n & 0x01FF ) for n in ( ot_ncp, to_ncp ))
        octets			= struct.pack( '<B', 0x5B if large else 0x54 ) + b'\x02\x20\x06\x24\x01'
        octets		       += struct.pack( '<BBIIHHIB3x', 10, 5, 0x11111111, 0x22222222, 1, 2, 3, 0 )
        octets		       += struct.pack( '<II' if large else '<IH', 2000000, ot_ncp )
        octets		       += struct.pack( '<II' if large else '<IH', 2000000, to_ncp )
        octets		       += b'\xa3' + b'\x03\x01\x00\x20\x02\x24\x01'
        what			= "%s Forward Open, O_T NCP 0x%X, T_O NCP 0x%X" % ( "Large" if large else "Small", ot_ncp, to_ncp )
        try:
            data		= parse( octets )
        except Exception as exc:
            bad.append( "%s: did not parse: %r" % ( what, exc ))
            continue
        sizes			= ( data.forward_open.O_T.size, data.forward_open.T_O.size )
        try:
            again		= CM.produce( data )
        except Exception as exc:
            bad.append( "%s: parsed (sizes %r), but producing the parsed request raised %s: %s" % (
                what, sizes, type( exc ).__name__, exc ))
            continue
        if again != octets:
            bad.append( "%s: re-produced %r != original %r" % ( what, again, octets ))

# and from the parameters
try:
    ncp				= defaults.Connection( size=0, type=0, variable=0, priority=0, redundant=0 ).encoding
    if ncp != 0x0000:
        bad.append( "Connection( size=0, type=0, ... ).encoding == 0x%X, expected 0x0000" % ncp )
except Exception as exc:
    bad.append( "Connection( size=0, type=0, ... ) raised %s: %s; expected NCP 0x0000" % ( type( exc ).__name__, exc ))

if bad:
    print( "OBSERVED (expected: every Forward Open that parses is produced again, byte for byte):" )
    for b in bad:
        print( " ", b )
    sys.exit( 1 )
print( "OK" )
