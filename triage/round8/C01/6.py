"""C01 defect 6: an EPATH symbolic ( or port link-address ) segment whose length octet runs past the end of the path is
accepted as complete.

The ANSI extended symbolic segment is 0x91, length, <length> octets [, pad ]; the port segment with a link address is
0x1p, length, [ext. port,] <length> octets [, pad ].  Both strings are collected by a string_bytes( limit='.length' )
that sits inside the sub-machine limited by the EPATH .size: when the path ends first, the string simply comes out
shorter, the segment is moved onto the list, and the enclosing request is accepted.  ( The same was repaired for STRING
in 6db9b7e: "a STRING whose text ends before its .length octets were seen is not complete"; SSTRING is a known
finding. )  What was parsed is then produced with a different length octet, ie. these are octets that no encoder emits
and that do not round-trip:

    4C 02 91 05 'a' 'b' 01 00	Read Tag, path of 2 words, symbol of "5" octets   -> accepted as tag 'ab'
    produce( parse( .. ))    ==	4C 02 91 02 'a' 'b' 01 00

Expected: the path ( and the request it belongs to ) is refused, like any other truncated element.
Repair: after symv / adrv, require len( string ) == .length ( as the 'string_even' decide of STRING does ).
"""
from __future__ import print_function

import contextlib
import sys

import cpppo
from cpppo.dotdict import dotdict
from cpppo.server.enip import parser, logix

def parse( machine, octets ):
    data			= dotdict()
    source			= cpppo.peekable( octets )
    with machine as m:
        with contextlib.closing( m.run( source=source, data=data )) as engine:
            for _ in engine:
                pass
        terminal		= m.terminal
    return data, terminal

bad				= []
for what,machine,octets,produce in (
        ( "EPATH, symbolic of '5' in a 2-word path",	parser.EPATH( terminal=True ),	b'\x02\x91\x05ab',
          lambda d: parser.EPATH.produce( d.EPATH )),
        ( "EPATH, symbolic of '255' in a 2-word path",	parser.EPATH( terminal=True ),	b'\x02\x91\xffab',
          lambda d: parser.EPATH.produce( d.EPATH )),
        ( "route path, link address of '9' in a 3-word path", parser.route_path( terminal=True ), b'\x03\x00\x12\x091.2.',
          lambda d: parser.route_path.produce( d.route_path )),
        ( "Read Tag request",				logix.Logix.parser,		b'\x4c\x02\x91\x05ab\x01\x00',
          logix.Logix.produce ),
):
    try:
        data,terminal		= parse( machine, octets )
    except Exception as exc:
        continue	# refused: fine
    if not terminal:
        continue	# not accepted: fine
    bad.append( "%s: %r accepted as %r; produced again as %r" % ( what, octets, dict( data ), produce( data )))

if bad:
    print( "OBSERVED (expected: a segment announcing more octets than the path holds is refused):" )
    for b in bad:
        print( " ", b )
    sys.exit( 1 )
print( "OK" )
