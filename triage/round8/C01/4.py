"""C01 defect 4: the Get Attribute List reply lacks the leading attribute count.

The reply layout ( CIP Vol 1 App. A, Get_Attribute_List; also the table quoted in the docstring of Object.produce from
Rockwell 1756-pm020 ) is

    service | 0x80, reserved, general status, ext. status size,
    Number of attribute responses   UINT
    { Attribute ID UINT, Status UINT, Attribute value }  x  number

Object.request ( GA_LST_RPY branch ) collects only the { id, status, value } triples into .get_attribute_list.data; the
"Number of attribute responses" word that Object.produce's own docstring shows ( "05 00" ) is never emitted - although
the *request* count is produced and parsed.  A client decoding the reply by the table takes the first attribute id for
the count.

Expected reply to Get Attribute List [1, 2, 99] of the Identity object ( vendor 1, device type 14 ):
    83 00 00 00 | 03 00 | 01 00 00 00 01 00 | 02 00 00 00 0e 00 | 63 00 16 00
Observed:
    83 00 00 00 |         01 00 00 00 01 00 | 02 00 00 00 0e 00 | 63 00 16 00
Repair: result = UINT.produce( len( data.get_attribute_list )) ahead of the loop in Object.request.
"""
from __future__ import print_function

import contextlib
import struct
import sys

import cpppo
from cpppo.dotdict import dotdict
from cpppo.server.enip import device

ident				= device.Identity( instance_id=1 )
attributes			= [ 1, 2, 99 ]

request				= struct.pack( '<BB', 0x03, 2 ) + b'\x20\x01\x24\x01' \
    + struct.pack( '<H', len( attributes )) + b''.join( struct.pack( '<H', a ) for a in attributes )

data				= dotdict()
source				= cpppo.peekable( request )
with device.Object.parser as machine:
    with contextlib.closing( machine.run( source=source, data=data )) as engine:
        for _ in engine:
            pass
    assert machine.terminal
assert data.get_attribute_list == attributes, "request not parsed: %r" % ( data, )
ident.request( data )
reply				= bytes( data.input )

vendor				= ident.attribute['1'].produce()
devtype				= ident.attribute['2'].produce()
expected			= b'\x83\x00\x00\x00' + struct.pack( '<H', len( attributes )) \
    + struct.pack( '<HH', 1, 0 ) + vendor \
    + struct.pack( '<HH', 2, 0 ) + devtype \
    + struct.pack( '<HH', 99, 0x16 )

def hexs( b ):
    return ' '.join( '%02x' % c for c in bytearray( b ))

if reply != expected:
    print( "OBSERVED reply: %s" % hexs( reply ))
    print( "EXPECTED reply: %s" % hexs( expected ))
    print( "( the UINT number of attribute responses is missing ahead of the first attribute id )" )
    sys.exit( 1 )
print( "OK" )
