"""C01 defect 3: the List Services "Communications" item does not have the layout of the CIP table.

CIP Vol 2, 2-4.6 ( ListServices reply, Target item ):

    Item Type Code           UINT   0x0100
    Item Length              UINT   20
    Encapsulation Version    UINT   1
    Capability Flags         UINT
    Name of Service          ARRAY[16] of USINT   NUL-terminated ASCII ( "Communications\0\0" ), always 16 octets

parser.communications_service.produce emits the name followed by ONE NUL ( 15 octets for "Communications", item length
19 ), whatever its length; and the parser accepts exactly one NUL after the name: of the reply of a real target
( 16-octet name field, 2 NULs ) the second NUL is never consumed - the payload is not completely recognized ( 1 octet
is left in the source when CIP is "done"; a communications_service parser run alone on the 20 octets is not terminal ).

Expected: the produced item is 20 octets data ( name NUL-padded to 16 ), and the 16-octet form parses to
.service_name 'Communications' and re-produces identically.
Repair: pad the name to 16 octets in produce; let the NUL state repeat ( as legacy_CPF_0x0001 does: nuls[True] = nuls ).
"""
from __future__ import print_function

import contextlib
import struct
import sys

import cpppo
from cpppo.dotdict import dotdict
from cpppo.server.enip import parser


def list_services_reference( session, context, version, capability, name ):
    item			= struct.pack( '<HH16s', version, capability, name.encode( 'ascii' ))	# 16s NUL-pads
    cpf				= struct.pack( '<HHH', 1, 0x0100, len( item )) + item
    return struct.pack( '<HHII8sI', 0x0004, len( cpf ), session, 0, context, 0 ) + cpf


def parse( octets ):
    data			= dotdict()
    source			= cpppo.peekable( octets )
    with parser.enip_machine( terminal=True ) as machine:
        with contextlib.closing( machine.run( source=source, data=data )) as engine:
            for _ in engine:
                pass
        assert machine.terminal, "EtherNet/IP frame not recognized"
    source			= cpppo.peekable( bytes( bytearray( data.enip.input )))
    with parser.CIP( terminal=True ) as machine:
        with contextlib.closing( machine.run( source=source, path='enip', data=data )) as engine:
            for _ in engine:
                pass
        terminal		= machine.terminal
    return data, terminal, bytes( bytearray( source ))


bad				= []
reference			= list_services_reference( 0, b'ABCDEFGH', 1, 0x0120, "Communications" )

# 1) producing the same field values
data				= dotdict( command=0x0004, session_handle=0, status=0, options=0 )
data['sender_context.input']	= bytearray( b'ABCDEFGH' )
item				= dotdict( type_id=0x0100 )
item.communications_service	= dotdict( version=1, capability=0x0120, service_name="Communications" )
data['CIP.list_services.CPF.item'] = [ item ]
data.input			= bytearray( parser.CIP.produce( data ))
produced			= parser.enip_encode( data )
if produced != reference:
    bad.append( "produced  %r\n  reference %r" % ( produced[24:], reference[24:] ))

# 2) parsing the reference octets
try:
    back,terminal,rest		= parse( reference )
    name			= back.get( 'enip.CIP.list_services.CPF.item[0].communications_service.service_name' )
    if not terminal or rest or name != "Communications":
        bad.append( "reference reply parsed to service_name %r, terminal: %r, %d octet(s) %r left unparsed" % (
            name, terminal, len( rest ), rest ))
except Exception as exc:
    bad.append( "reference reply did not parse: %s: %s" % ( type( exc ).__name__, exc ))

if bad:
    print( "OBSERVED (expected: the 16-octet NUL-padded Name of Service of the List Services layout table):" )
    for b in bad:
        print( " ", b )
    sys.exit( 1 )
print( "OK" )
