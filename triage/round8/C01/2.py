"""C01 defect 2: the reply to a generic CIP service ( any service code without a parser of its own ) that carries data
parses, but cannot be produced again.

Object.parser sends every unregistered service code to the "service_code" reply machine: service, reserved, status,
then any remaining octets into .service_code.data.  Object.produce tests for a generic *request* first
( `cls.SV_COD_CTX in data and data.get( 'service' )` ), and that test is also true for the parsed *reply* ( it has
.service_code and a non-zero .service 0xCB ); the request branch then wants .path, and raises AttributeError 'path'.
The generic-reply branch ( `service & 0x80` ) that would produce it is never reached.  Without payload the reply has no
.service_code and round-trips.

Expected: produce( parse( octets )) == octets for service | 0x80, status and 0..N octets of data.
Repair: test for the reply ( service & 0x80 ) ahead of the generic request, or require 'path' in the request test.
"""
from __future__ import print_function

import contextlib
import sys

import cpppo
from cpppo.dotdict import dotdict
from cpppo.server.enip import device, logix

def parse( cls, octets ):
    data			= dotdict()
    source			= cpppo.peekable( octets )
    with cls.parser as machine:
        with contextlib.closing( machine.run( source=source, data=data )) as engine:
            for _ in engine:
                pass
        assert machine.terminal
    return data

bad				= []
for cls in ( device.Object, device.Message_Router, logix.Logix ):
    for octets in (
            b'\xcb\x00\x00\x00',				# no data: fine
            b'\xcb\x00\x00\x00\x01',				# 1 octet of data
            b'\xcb\x00\x00\x00\x01\x02\x03\x04',
            b'\xb2\x00\x00\x00' + bytes( bytearray( range( 200 ))),
            b'\xcb\x00\x1e\x01\x34\x12',			# error status w/ an extended status word; fine
    ):
        what			= "%s: reply %r" % ( cls.__name__, octets[:12] )
        try:
            data		= parse( cls, octets )
        except Exception as exc:
            bad.append( "%s did not parse: %r" % ( what, exc ))
            continue
        try:
            again		= cls.produce( data )
        except Exception as exc:
            bad.append( "%s parsed as %r, but producing it raised %s: %s" % (
                what, dict( data ), type( exc ).__name__, exc ))
            continue
        if again != octets:
            bad.append( "%s re-produced as %r" % ( what, again[:12] ))

if bad:
    print( "OBSERVED (expected: every generic service reply that parses is produced again, byte for byte):" )
    for b in bad:
        print( " ", b[:300] )
    sys.exit( 1 )
print( "OK" )
