#!/usr/bin/env python
"""
C09 defect 3 (unchanged code; counts only if a bundled request is "a request" of the property):
a Multiple Service Packet does not take effect atomically.

  session W: ONE Multiple Service Packet [ Write Tag A[0-7] <= 8 x n, Write Tag A[8-15] <= 8 x n ]
  session R: Read Tag A[0-15], again and again

Message_Router.request executes the members of a bundle one after the other with nothing that
keeps other sessions out, so R's single 16-element read can fall between W's two member writes and
return a state that no sequential order of the REQUESTS ( W's bundle, R's read ) could produce.

The Attribute's storage is a vector whose (slice) store takes 3ms (eg. remote data, as the Attribute
docstring invites); this only widens the gap between the two members.

Expected (bundle == one request): every read returns 16 equal elements.
Observed: reads with A[0-7] == n and A[8-15] == n-1.
"""
from __future__ import print_function

import logging
import socket
import sys
import threading
import time
import traceback

import cpppo
from cpppo.dotdict import dotdict
from cpppo.server.enip import client
from cpppo.server.enip.main import main as enip_main

ADDR				= ( '127.0.0.1', 44818 )
WRITES				= 25


class remote_vector( list ):
    def __setitem__( self, key, value ):
        list.__setitem__( self, key, value )
        time.sleep( 0.003 )


def main():
    logging.basicConfig( level=logging.ERROR )
    control			= dotdict( done=False )
    server			= threading.Thread(
        target=enip_main, args=( [ '-a', '%s:%d' % ADDR, '--no-udp', 'A=DINT[16]' ], ),
        kwargs=dict( attribute_kwds=dict( default=remote_vector( [0] * 16 )),
                     server=dotdict( control=control )))
    server.daemon		= True
    server.start()
    for _ in range( 100 ):
        try:
            socket.create_connection( ADDR, timeout=1 ).close()
            break
        except Exception:
            time.sleep( .1 )

    problems			= []
    torn			= []
    observed			= []
    writing			= threading.Event()
    done			= threading.Event()

    def writer():
        try:
            with client.connector( host=ADDR[0], port=ADDR[1], timeout=10 ) as conn:
                for n in range( 1, WRITES + 1 ):
                    ops		= client.parse_operations( [
                        "A[0-7]=(DINT)"  + ",".join( [ str( n ) ] * 8 ),
                        "A[8-15]=(DINT)" + ",".join( [ str( n ) ] * 8 ) ] )
                    writing.set()
                    res		= list( conn.synchronous( operations=ops, multiple=450, timeout=10 ))
                    if len( set( r[0] for r in res )) != 1 or any( r[5] is not True for r in res ):
                        problems.append( "writer: bundle #%d not sent as one packet / refused: %r" % ( n, res ))
        except Exception as exc:
            problems.append( "writer: %s\n%s" % ( exc, traceback.format_exc() ))
        finally:
            done.set()

    def reader():
        try:
            with client.connector( host=ADDR[0], port=ADDR[1], timeout=10 ) as conn:
                writing.wait( 10 )
                while not done.is_set():
                    for idx,dsc,req,rpy,sts,val in conn.synchronous(
                            operations=client.parse_operations( [ "A[0-15]" ] ), timeout=10 ):
                        observed.append( val )
                        if not val or len( set( val )) != 1:
                            torn.append( val )
        except Exception as exc:
            problems.append( "reader: %s\n%s" % ( exc, traceback.format_exc() ))

    threads			= [ threading.Thread( target=writer ), threading.Thread( target=reader ) ]
    for t in threads:
        t.daemon		= True
        t.start()
    for t in threads:
        t.join( 50 )
    control.done		= True

    for p in problems:
        print( p )
    if problems or not observed:
        print( "FAILED: could not run the scenario" )
        return 1
    if torn:
        print( "FAILED: %d of %d reads of A[0-15] fell between the two member writes of ONE Multiple Service Packet:" % (
            len( torn ), len( observed )))
        for val in torn[:5]:
            print( "  observed %r" % ( val, ))
        print( "  expected: 16 equal elements in every read" )
        return 1
    print( "OK: %d reads, each saw a state between two bundles" % ( len( observed )))
    return 0


if __name__ == "__main__":
    sys.exit( main() )
