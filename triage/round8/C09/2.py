#!/usr/bin/env python
"""
C09 defect 2 (unchanged code, minor): two simultaneously registered sessions can be given the SAME
EtherNet/IP session handle.

UCMM.request draws a random handle under UCMM.lock and re-draws "while not session or session in
self.__class__.sessions" -- but .sessions is keyed by peer address ( sessions[addr] = session ), so
the membership test compares the handle with the addresses and never finds it.  The uniqueness the
loop (and the "All known session handles" table) is there for is not enforced.

A collision of two 32-bit random numbers is made certain here by seeding the (process-wide) random
generator identically before each of two registrations against an in-process simulator.

Expected: the second session's handle differs from the first's (the draw is repeated).
Observed: both live sessions hold the same handle.
"""
from __future__ import print_function

import logging
import random
import socket
import sys
import threading
import time

import cpppo
from cpppo.dotdict import dotdict
from cpppo.server.enip import client
from cpppo.server.enip.main import main as enip_main

ADDR				= ( '127.0.0.1', 44818 )


def main():
    logging.basicConfig( level=logging.ERROR )
    control			= dotdict( done=False )
    server			= threading.Thread(
        target=enip_main, args=( [ '-a', '%s:%d' % ADDR, '--no-udp', 'A=DINT[4]' ], ),
        kwargs=dict( server=dotdict( control=control )))
    server.daemon		= True
    server.start()
    for _ in range( 100 ):
        try:
            socket.create_connection( ADDR, timeout=1 ).close()
            break
        except Exception:
            time.sleep( .1 )
    time.sleep( .5 )	# let the probe connection's thread finish

    handles			= []
    sessions			= []
    try:
        for _ in range( 2 ):
            random.seed( 20261004 )
            conn		= client.connector( host=ADDR[0], port=ADDR[1], timeout=10 )
            sessions.append( conn )	# both stay registered
            handles.append( conn.session )
    finally:
        control.done		= True

    print( "session handles of two live sessions: %r" % ( handles, ))
    if handles[0] == handles[1]:
        print( "FAILED: observed the same handle 0x%08x for both sessions; expected: two different handles" % ( handles[0] ))
        return 1
    print( "OK: handles differ" )
    return 0


if __name__ == "__main__":
    sys.exit( main() )
