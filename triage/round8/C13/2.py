#!/usr/bin/env python
"""
C13 defect 2 ( unchanged code ): a truncated reply whose encapsulation header was made consistent with
the truncation is reported as a success with fewer data.

A TCP relay shortens the reply to a 4-element DINT read by its last 4 octets and adjusts the
EtherNet/IP header's length accordingly ( as a gateway that cuts a frame at its buffer limit and
re-frames it would ); the Common Packet Format data item inside still declares its full length.
parser.CPF hands that length to the item's parser as limit='..length': the length only *limits* the
item, it is never *required*, so an item that ends before its declared length is accepted.  The client
yields [v0, v1, v2] with status 0 for a request of 4 elements, without any error.

Expected ( C13: never report success for an operation whose reply was not completely received ): an
error, because the 0x00b2 data item declares more octets than were received.
Exits 1 while the contradiction is present.
"""
from __future__ import print_function

import socket
import struct
import sys
import threading
import time

import cpppo
from cpppo.server import enip
from cpppo.server.enip import client
from cpppo.server.enip.main import main as enip_main

SRV_PORT			= 44871
RLY_PORT			= 44872
VALUES				= [ 11, 12, 13, 14 ]


def start_simulator():
    control			= cpppo.apidict( enip.timeout, { 'done': False } )
    thread			= threading.Thread( target=enip_main, kwargs=dict(
        argv=[ '--address', 'localhost:%d' % SRV_PORT, 'T0=DINT[4]' ],
        server={ 'control': control } ))
    thread.daemon		= True
    thread.start()
    for _ in range( 100 ):
        try:
            socket.create_connection( ('localhost', SRV_PORT), timeout=.5 ).close()
            return control
        except Exception:
            time.sleep( .1 )
    raise RuntimeError( "simulator did not start" )


class relay( object ):
    """Forwards one TCP connection; the server-->client EtherNet/IP frame with index 'which' loses its last
    'octets' octets, and its header's length is reduced by as much."""
    def __init__( self, which, octets ):
        self.which		= which
        self.octets		= octets
        self.declared		= None
        self.present		= None
        self.lsock		= socket.socket()
        self.lsock.setsockopt( socket.SOL_SOCKET, socket.SO_REUSEADDR, 1 )
        self.lsock.bind( ('127.0.0.1', RLY_PORT) )
        self.lsock.listen( 1 )
        self.spawn( self.run )

    @staticmethod
    def spawn( target, *args ):
        t			= threading.Thread( target=target, args=args )
        t.daemon		= True
        t.start()

    def run( self ):
        cli,_			= self.lsock.accept()
        srv			= socket.create_connection( ('127.0.0.1', SRV_PORT) )
        for s in cli,srv:
            s.setsockopt( socket.IPPROTO_TCP, socket.TCP_NODELAY, 1 )
        self.spawn( self.c2s, cli, srv )
        buf			= b''
        frames			= 0
        try:
            while True:
                dat		= srv.recv( 4096 )
                if not dat:
                    break
                buf	       += dat
                while len( buf ) >= 24:
                    siz,	= struct.unpack( '<H', buf[2:4] )
                    if len( buf ) < 24 + siz:
                        break
                    frm,buf	= buf[:24+siz],buf[24+siz:]
                    if frames == self.which:
                        # interface(4) timeout(2) count(2) | type 0 len 0 (4) | type 0xb2 (2) length (2) | data...
                        self.declared, = struct.unpack( '<H', frm[24+14:24+16] )
                        frm	= frm[:2] + struct.pack( '<H', siz - self.octets ) + frm[4:-self.octets]
                        self.present = len( frm ) - 24 - 16
                    cli.sendall( frm )
                    frames     += 1
        except Exception:
            pass

    @staticmethod
    def c2s( cli, srv ):
        try:
            while True:
                dat		= cli.recv( 4096 )
                if not dat:
                    break
                srv.sendall( dat )
        except Exception:
            pass


def main():
    start_simulator()
    with client.connector( 'localhost', SRV_PORT, timeout=5 ) as conn:
        failures,_		= conn.process( client.parse_operations(
            [ 'T0[0-3]=(DINT)%s' % ','.join( map( str, VALUES )) ] ), timeout=5 )
        assert failures == 0, "could not initialise the simulator's Tag"

    via				= relay( which=1, octets=4 ) # frame 0: Register reply; frame 1: reply to the read
    yielded,error		= [],None
    conn			= client.connector( 'localhost', RLY_PORT, timeout=2 )
    try:
        with conn:
            for idx,dsc,req,rpy,sts,val in conn.pipeline(
                    client.parse_operations( [ 'T0[0-3]' ] ), depth=1, timeout=1.0 ):
                yielded.append( (sts,val) )
    except Exception as exc:
        error			= exc
    print( "the reply's 0x00b2 data item declares %r octets; %r were delivered" % ( via.declared, via.present ))
    print( "yielded ( status, value ): %r; error: %s" % (
        yielded, str( error ).split( '\n' )[0] if error else None ))
    assert via.declared is not None and via.present < via.declared, "the relay did not truncate the reply"

    if error is None or any( sts in (0,6) and val != VALUES for sts,val in yielded ):
        print( "C13 contradicted: a read of 4 elements whose reply was cut short ( %d of %d octets of its "
               "data item ) was reported as %r, without error; expected an error" % (
                   via.present, via.declared, yielded ))
        return 1
    print( "OK: the incomplete reply was refused" )
    return 0


if __name__ == "__main__":
    sys.exit( main() )
