#!/usr/bin/env python
"""
C13 defect 1 ( unchanged code ): over a Connected ( client.implicit ) session a reply that is lost
entirely shifts every later reply onto the wrong request.

connector.harvest pairs replies with requests by sender context and service.  client.implicit sends
every request with the empty sender context ( implicit.index_to_sender_context returns b'' ), and
nothing looks at the connection_data.sequence number that each Send Unit Data request carries and
each reply echoes.  With pipelined reads ( same service ) a lost reply is therefore invisible: the
reply to request k+1 is yielded as the result of request k, and so on down the pipeline; the only
error comes at the very end ( one reply short ), after the wrong values have been handed out.

Expected ( C13 ): an error before any value that belongs to another request is yielded -- as the
Unconnected ( client.connector ) session does in the same situation ( "Mismatched" ).
Exits 1 while the contradiction is present.
"""
from __future__ import print_function

import socket
import struct
import sys
import threading
import time

import cpppo
from cpppo.server import enip
from cpppo.server.enip import client
from cpppo.server.enip.main import main as enip_main

SRV_PORT			= 44861
RLY_PORT			= 44862
TAGS				= [ 'T%d' % i for i in range( 5 ) ]
VALUES				= dict( ( t, [ 100*i+1, 100*i+2 ] ) for i,t in enumerate( TAGS ))


def start_simulator():
    control			= cpppo.apidict( enip.timeout, { 'done': False } )
    thread			= threading.Thread( target=enip_main, kwargs=dict(
        argv=[ '--address', 'localhost:%d' % SRV_PORT ] + [ '%s=DINT[2]' % t for t in TAGS ],
        server={ 'control': control } ))
    thread.daemon		= True
    thread.start()
    for _ in range( 100 ):
        try:
            socket.create_connection( ('localhost', SRV_PORT), timeout=.5 ).close()
            return control
        except Exception:
            time.sleep( .1 )
    raise RuntimeError( "simulator did not start" )


class relay( object ):
    """Forwards TCP connections; on each, drops the server-->client EtherNet/IP frames whose (0-based) index
    is in 'drop'.  Remembers the connection_data.sequence of the Send Unit Data frames it saw."""
    def __init__( self, drop ):
        self.drop		= set( drop )
        self.lsock		= socket.socket()
        self.lsock.setsockopt( socket.SOL_SOCKET, socket.SO_REUSEADDR, 1 )
        self.lsock.bind( ('127.0.0.1', RLY_PORT) )
        self.lsock.listen( 5 )
        self.spawn( self.accept )

    @staticmethod
    def spawn( target, *args ):
        t			= threading.Thread( target=target, args=args )
        t.daemon		= True
        t.start()

    def accept( self ):
        while True:
            cli,_		= self.lsock.accept()
            srv			= socket.create_connection( ('127.0.0.1', SRV_PORT) )
            for s in cli,srv:
                s.setsockopt( socket.IPPROTO_TCP, socket.TCP_NODELAY, 1 )
            self.spawn( self.pump, cli, srv, () )
            self.spawn( self.pump, srv, cli, self.drop )

    @staticmethod
    def pump( src, dst, drop ):
        buf			= b''
        frames			= 0
        try:
            while True:
                dat		= src.recv( 4096 )
                if not dat:
                    break
                buf	       += dat
                while len( buf ) >= 24:
                    siz,	= struct.unpack( '<H', buf[2:4] )
                    if len( buf ) < 24 + siz:
                        break
                    frm,buf	= buf[:24+siz],buf[24+siz:]
                    if frames not in drop:
                        dst.sendall( frm )
                    frames     += 1
        except Exception:
            pass
        finally:
            try:
                dst.shutdown( socket.SHUT_WR )
            except Exception:
                pass


def exchange( cls, drop ):
    """Read all TAGS, pipelined, over a new 'cls' session through a relay that drops frame 'drop'."""
    yielded,error		= [],None
    conn			= cls( 'localhost', RLY_PORT, timeout=2 )
    try:
        with conn:
            for idx,dsc,req,rpy,sts,val in conn.pipeline(
                    client.parse_operations( [ t + '[0-1]' for t in TAGS ] ), depth=3, timeout=1.0 ):
                yielded.append( val )
    except Exception as exc:
        error			= exc
    finally:
        try:
            conn.conn.close() # no Forward Close, etc.; just drop it
            conn.conn		= None
        except Exception:
            pass
    return yielded,error


def main():
    start_simulator()
    with client.connector( 'localhost', SRV_PORT, timeout=5 ) as conn:
        failures,_		= conn.process( client.parse_operations(
            [ '%s[0-1]=(DINT)%s' % ( t, ','.join( map( str, v ))) for t,v in sorted( VALUES.items() ) ] ),
                                                timeout=5 )
        assert failures == 0, "could not initialise the simulator's Tags"

    problems			= []
    # Unconnected: Register, 5 replies; lose the reply to the 2nd read ( frame 2 ).
    # Connected:   Register, Forward Open, 5 replies; lose the reply to the 2nd read ( frame 3 ).
    via				= relay( drop=() )
    for cls,drop in (( client.connector, 2 ), ( client.implicit, 3 )):
        via.drop.clear()
        via.drop.add( drop )
        yielded,error		= exchange( cls, drop )
        wrong			= [ (t,val) for t,val in zip( TAGS, yielded ) if val != VALUES[t] ]
        print( "%-10s: reply to the read of %s lost; yielded %r; error: %s" % (
            cls.__name__, TAGS[1], yielded, str( error ).split( '\n' )[0] if error else None ))
        for t,val in wrong:
            problems.append( "%s: the read of %s yielded %r ( the data of %s ); expected an error, or %r" % (
                cls.__name__, t, val, [ o for o,v in VALUES.items() if v == val ] or '?', VALUES[t] ))
        if error is None:
            problems.append( "%s: no error although a reply was lost" % ( cls.__name__ ))

    if problems:
        print( "C13 contradicted:" )
        for p in problems:
            print( "  " + p )
        return 1
    print( "OK: a lost reply ends the result stream with an error before any reply is paired with another request" )
    return 0


if __name__ == "__main__":
    sys.exit( main() )
