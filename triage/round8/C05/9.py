#!/usr/bin/env python
"""
C05 defect 9: accepted writes after which a valid read ends the reader's session.  STRING elements
are counted as 80 octets each when Logix.reply_elements decides how many fit a reply ( 7 per reply ),
whatever their real size; Write Tag accepts texts of up to ~65000 characters.  After two texts of
40000 characters were written ( both acknowledged 0x00 ) into ST[0] and ST[1], any Read Tag /
Read Tag Fragmented of ST[0-1] ( in range, 2 elements ) and any Get Attribute Single of ST builds an
80 kB reply; UCMM.request then answers with an EMPTY EtherNet/IP frame of status 0x08, upon which
enip_srv_tcp closes the connection.  Each element alone can still be read.

Expected: the elements that fit ( here: ST[0] ) with status 0x06 "more" -- what Read Tag Fragmented
exists for -- and in any case a CIP error reply that leaves the session open.
Exit 1 while the contradiction is present, 0 otherwise.
"""
from __future__ import print_function

import io
import logging
import socket
import struct
import sys
import threading
import time
import traceback

import cpppo
from cpppo.server import enip
from cpppo.server.enip import logix, device, parser
from cpppo.server.enip.main import main as enip_main


class Raw( object ):
    """A minimal EtherNet/IP client: RegisterSession, then unconnected SendRRData of raw CIP requests."""
    def __init__( self, addr ):
        self.s			= socket.create_connection( addr, timeout=10 )
        self.session		= 0
        self.session		= self.xfer( 0x65, struct.pack( '<HH', 1, 0 ))[1]

    def recvn( self, n ):
        buf			= b''
        while len( buf ) < n:
            c			= self.s.recv( n - len( buf ))
            assert c, "connection closed by the server"
            buf		       += c
        return buf

    def xfer( self, cmd, payload ):
        self.s.sendall( struct.pack( '<HHII', cmd, len( payload ), self.session, 0 ) + b'\0' * 12 + payload )
        cmd,length,sess,status	= struct.unpack( '<HHII', self.recvn( 24 )[:12] )
        return cmd,sess,status,self.recvn( length )

    def cip( self, req ):
        """--> (status, [extended status], reply data)"""
        cpf			= struct.pack( '<IHHHHHH', 0, 5, 2, 0, 0, 0xb2, len( req )) + req
        cmd,sess,status,body	= self.xfer( 0x6f, cpf )
        assert status == 0 and body, "EtherNet/IP status 0x%x" % status
        rpy			= body[16:]
        svc,_,sts,extn		= struct.unpack( '<BBBB', rpy[:4] )
        ext			= list( struct.unpack( '<%dH' % extn, rpy[4:4+2*extn] ))
        return sts,ext,rpy[4+2*extn:]


def epath( tag, elm=None ):
    b				= tag.encode( 'ascii' )
    seg				= b'\x91' + struct.pack( 'B', len( b )) + b + ( b'\0' if len( b ) % 2 else b'' )
    if elm is not None:
        seg		       += b'\x28' + struct.pack( 'B', elm )
    return struct.pack( 'B', len( seg ) // 2 ) + seg

def read_tag( tag, elm, count ):
    return b'\x4c' + epath( tag, elm ) + struct.pack( '<H', count )

def write_tag( tag, elm, typ, count, payload ):
    return b'\x4d' + epath( tag, elm ) + struct.pack( '<HH', typ, count ) + payload

def multiple( requests, path=b'\x02\x20\x02\x24\x01' ):
    offsets,off			= [],2 + 2 * len( requests )
    for r in requests:
        offsets.append( off )
        off		       += len( r )
    return ( b'\x0a' + path + struct.pack( '<H', len( requests ))
             + b''.join( struct.pack( '<H', o ) for o in offsets ) + b''.join( requests ))

def dints( addr_or_conn, tag, count ):
    sts,ext,data		= addr_or_conn.cip( read_tag( tag, None, count ))
    assert sts == 0, "Read Tag %s failed: 0x%02x %r" % ( tag, sts, ext )
    return list( struct.unpack( '<%di' % count, data[2:] ))


def serve( tags, scenario, port=44818, argv=() ):
    """Run the simulator (in this, the main thread) while scenario( addr ) runs; --> its result or raises"""
    logging.getLogger().setLevel( logging.CRITICAL )
    enip.lookup_reset()
    logix.setup_reset()
    addr			= ('127.0.0.1', port)
    control			= cpppo.apidict( enip.timeout, { 'done': False } )
    result			= {}

    def runner():
        try:
            for _ in range( 100 ):
                try:
                    socket.create_connection( addr, timeout=0.2 ).close()
                    break
                except Exception:
                    time.sleep( 0.1 )
            result['value']	= scenario( addr )
        except BaseException as exc:
            result['exc']	= exc
            result['tb']	= traceback.format_exc()
        finally:
            control.done	= True

    started			= []
    def idle_service():
        if not started:
            started.append( threading.Thread( target=runner ))
            started[0].daemon	= True
            started[0].start()

    enip_main( argv=list( argv ) + [ '--no-udp', '--address', '%s:%d' % addr ] + list( tags ),
               server={ 'control': control }, idle_service=idle_service )
    if started:
        started[0].join( 10 )
    if 'exc' in result:
        print( result['tb'] )
        raise result['exc']
    return result.get( 'value' )

DINT				= 0xc4

STRING				= 0xd0
def enc_string( text ):
    b				= text.encode( 'iso-8859-1' )
    return struct.pack( '<H', len( b )) + b + ( b'\0' if len( b ) % 2 else b'' )

def scenario( addr ):
    writer,reader		= Raw( addr ),Raw( addr )
    bad				= []
    for elm,ch in ((0,'a'),(1,'b')):
        sts,ext,_		= writer.cip( write_tag( 'ST', elm, STRING, 1, enc_string( ch * 40000 )))
        print( "Write Tag ST[%d] <= 40000 x %r : status 0x%02x %r" % ( elm, ch, sts, ext ))
        assert sts == 0
        sts,ext,data		= reader.cip( read_tag( 'ST', elm, 1 ))
        assert sts == 0 and len( data ) == 40004
    try:
        sts,ext,data		= reader.cip( read_tag( 'ST', 0, 2 ))
        print( "Read Tag ST[0-1]               : status 0x%02x %r, %d octets" % ( sts, ext, len( data )))
        if sts not in (0x00,0x06) or len( data ) < 40004:
            bad.append( "Read Tag ST[0-1] after two acknowledged writes: status 0x%02x %r, %d octets; expected 0x06 with ST[0]" % ( sts, ext, len( data )))
    except AssertionError as exc:
        print( "Read Tag ST[0-1]               : %s" % ( exc ))
        bad.append( "Read Tag ST[0-1] after two acknowledged writes: %s; expected status 0x06 with ST[0]" % ( exc ))
    try:
        sts,ext,data		= reader.cip( read_tag( 'ST', 0, 1 ))
        print( "Read Tag ST[0], same session   : status 0x%02x %r, %d octets" % ( sts, ext, len( data )))
    except Exception as exc:
        print( "Read Tag ST[0], same session   : %r" % ( exc, ))
        bad.append( "the reader's session did not survive its Read Tag ST[0-1]: %r" % ( exc, ))
    return bad

if __name__ == "__main__":
    bad				= serve( [ 'ST=STRING[2]' ], scenario )
    for b in bad:
        print( "CONTRADICTION:", b )
    sys.exit( 1 if bad else 0 )
