#!/usr/bin/env python
"""
C05 defect 7 ( in-process, no sockets ): a tag configured with a forced error code ( Attribute( ...,
error=0x08 ), or tags.<name>.error set through the web API ) answers every request with that code --
but Logix.request looks at attribute.error only after it has executed the request: a Write Tag is
answered with the failure status AND stored.  ( Also: once an error code was set through the tags
dict, logix.setup_tag() never clears it again when tags.<name>.error goes back to 0. )

Expected: the write is refused without side effects.  Exit 1 while the contradiction is present.
"""
from __future__ import print_function

import io
import logging
import socket
import struct
import sys
import threading
import time
import traceback

import cpppo
from cpppo.server import enip
from cpppo.server.enip import logix, device, parser
from cpppo.server.enip.main import main as enip_main


class Raw( object ):
    """A minimal EtherNet/IP client: RegisterSession, then unconnected SendRRData of raw CIP requests."""
    def __init__( self, addr ):
        self.s			= socket.create_connection( addr, timeout=10 )
        self.session		= 0
        self.session		= self.xfer( 0x65, struct.pack( '<HH', 1, 0 ))[1]

    def recvn( self, n ):
        buf			= b''
        while len( buf ) < n:
            c			= self.s.recv( n - len( buf ))
            assert c, "connection closed by the server"
            buf		       += c
        return buf

    def xfer( self, cmd, payload ):
        self.s.sendall( struct.pack( '<HHII', cmd, len( payload ), self.session, 0 ) + b'\0' * 12 + payload )
        cmd,length,sess,status	= struct.unpack( '<HHII', self.recvn( 24 )[:12] )
        return cmd,sess,status,self.recvn( length )

    def cip( self, req ):
        """--> (status, [extended status], reply data)"""
        cpf			= struct.pack( '<IHHHHHH', 0, 5, 2, 0, 0, 0xb2, len( req )) + req
        cmd,sess,status,body	= self.xfer( 0x6f, cpf )
        assert status == 0 and body, "EtherNet/IP status 0x%x" % status
        rpy			= body[16:]
        svc,_,sts,extn		= struct.unpack( '<BBBB', rpy[:4] )
        ext			= list( struct.unpack( '<%dH' % extn, rpy[4:4+2*extn] ))
        return sts,ext,rpy[4+2*extn:]


def epath( tag, elm=None ):
    b				= tag.encode( 'ascii' )
    seg				= b'\x91' + struct.pack( 'B', len( b )) + b + ( b'\0' if len( b ) % 2 else b'' )
    if elm is not None:
        seg		       += b'\x28' + struct.pack( 'B', elm )
    return struct.pack( 'B', len( seg ) // 2 ) + seg

def read_tag( tag, elm, count ):
    return b'\x4c' + epath( tag, elm ) + struct.pack( '<H', count )

def write_tag( tag, elm, typ, count, payload ):
    return b'\x4d' + epath( tag, elm ) + struct.pack( '<HH', typ, count ) + payload

def multiple( requests, path=b'\x02\x20\x02\x24\x01' ):
    offsets,off			= [],2 + 2 * len( requests )
    for r in requests:
        offsets.append( off )
        off		       += len( r )
    return ( b'\x0a' + path + struct.pack( '<H', len( requests ))
             + b''.join( struct.pack( '<H', o ) for o in offsets ) + b''.join( requests ))

def dints( addr_or_conn, tag, count ):
    sts,ext,data		= addr_or_conn.cip( read_tag( tag, None, count ))
    assert sts == 0, "Read Tag %s failed: 0x%02x %r" % ( tag, sts, ext )
    return list( struct.unpack( '<%di' % count, data[2:] ))


def serve( tags, scenario, port=44818, argv=() ):
    """Run the simulator (in this, the main thread) while scenario( addr ) runs; --> its result or raises"""
    logging.getLogger().setLevel( logging.CRITICAL )
    enip.lookup_reset()
    logix.setup_reset()
    addr			= ('127.0.0.1', port)
    control			= cpppo.apidict( enip.timeout, { 'done': False } )
    result			= {}

    def runner():
        try:
            for _ in range( 100 ):
                try:
                    socket.create_connection( addr, timeout=0.2 ).close()
                    break
                except Exception:
                    time.sleep( 0.1 )
            result['value']	= scenario( addr )
        except BaseException as exc:
            result['exc']	= exc
            result['tb']	= traceback.format_exc()
        finally:
            control.done	= True

    started			= []
    def idle_service():
        if not started:
            started.append( threading.Thread( target=runner ))
            started[0].daemon	= True
            started[0].start()

    enip_main( argv=list( argv ) + [ '--no-udp', '--address', '%s:%d' % addr ] + list( tags ),
               server={ 'control': control }, idle_service=idle_service )
    if started:
        started[0].join( 10 )
    if 'exc' in result:
        print( result['tb'] )
        raise result['exc']
    return result.get( 'value' )

DINT				= 0xc4

if __name__ == "__main__":
    logging.getLogger().setLevel( logging.CRITICAL )
    enip.lookup_reset()
    Obj				= logix.Logix( instance_id=1 )
    att = Obj.attribute['1']	= device.Attribute( 'E', parser.DINT, default=[0,0,0,0], error=0x08 )
    device.redirect_tag( 'E', { 'class': Obj.class_id, 'instance': Obj.instance_id, 'attribute': 1 } )
    req				= cpppo.dotdict( { 'path': { 'segment': [ cpppo.dotdict( symbolic='E' ), cpppo.dotdict( element=1 ) ] },
                                                   'write_tag': { 'type': parser.DINT.tag_type, 'data': [ 123 ] } } )
    data			= cpppo.dotdict()
    with Obj.parser as machine:
        for m,s in machine.run( source=cpppo.peekable( Obj.produce( req )), data=data ):
            pass
    Obj.request( data )
    print( "Write Tag E[1] <= 123 on a tag with error=0x08: status 0x%02x, reply %r; E == %r" % (
        data.status, bytes( data.input ), att.value ))
    if data.status != 0 and att.value != [0,0,0,0]:
        print( "CONTRADICTION: answered with status 0x%02x, yet E changed to %r; expected E == [0, 0, 0, 0]" % ( data.status, att.value ))
        sys.exit( 1 )
    sys.exit( 0 )
