#!/usr/bin/env python
"""
C05 defect 6: a write that fails AFTER the data was stored.  In simulator --print mode the
Attribute_print wrapper of main.py stores first ( super().__setitem__ ) and prints afterwards; when the
print fails -- stdout is a closed pipe ( "... --print | head" ), or cannot encode a character of a
STRING ( an ASCII / C-locale stdout and the text "cafe" with an e-acute ) -- the exception makes
Logix.request answer 0xFF + 0x2105, although the tag already holds the new value.  ( historize.py has
the same store-then-log order. )

Expected: a request that is answered with a failure leaves every tag as it was ( or: a failing
print must not fail the request ).  Exit 1 while the contradiction is present, 0 otherwise.
"""
from __future__ import print_function

import io
import logging
import socket
import struct
import sys
import threading
import time
import traceback

import cpppo
from cpppo.server import enip
from cpppo.server.enip import logix, device, parser
from cpppo.server.enip.main import main as enip_main


class Raw( object ):
    """A minimal EtherNet/IP client: RegisterSession, then unconnected SendRRData of raw CIP requests."""
    def __init__( self, addr ):
        self.s			= socket.create_connection( addr, timeout=10 )
        self.session		= 0
        self.session		= self.xfer( 0x65, struct.pack( '<HH', 1, 0 ))[1]

    def recvn( self, n ):
        buf			= b''
        while len( buf ) < n:
            c			= self.s.recv( n - len( buf ))
            assert c, "connection closed by the server"
            buf		       += c
        return buf

    def xfer( self, cmd, payload ):
        self.s.sendall( struct.pack( '<HHII', cmd, len( payload ), self.session, 0 ) + b'\0' * 12 + payload )
        cmd,length,sess,status	= struct.unpack( '<HHII', self.recvn( 24 )[:12] )
        return cmd,sess,status,self.recvn( length )

    def cip( self, req ):
        """--> (status, [extended status], reply data)"""
        cpf			= struct.pack( '<IHHHHHH', 0, 5, 2, 0, 0, 0xb2, len( req )) + req
        cmd,sess,status,body	= self.xfer( 0x6f, cpf )
        assert status == 0 and body, "EtherNet/IP status 0x%x" % status
        rpy			= body[16:]
        svc,_,sts,extn		= struct.unpack( '<BBBB', rpy[:4] )
        ext			= list( struct.unpack( '<%dH' % extn, rpy[4:4+2*extn] ))
        return sts,ext,rpy[4+2*extn:]


def epath( tag, elm=None ):
    b				= tag.encode( 'ascii' )
    seg				= b'\x91' + struct.pack( 'B', len( b )) + b + ( b'\0' if len( b ) % 2 else b'' )
    if elm is not None:
        seg		       += b'\x28' + struct.pack( 'B', elm )
    return struct.pack( 'B', len( seg ) // 2 ) + seg

def read_tag( tag, elm, count ):
    return b'\x4c' + epath( tag, elm ) + struct.pack( '<H', count )

def write_tag( tag, elm, typ, count, payload ):
    return b'\x4d' + epath( tag, elm ) + struct.pack( '<HH', typ, count ) + payload

def multiple( requests, path=b'\x02\x20\x02\x24\x01' ):
    offsets,off			= [],2 + 2 * len( requests )
    for r in requests:
        offsets.append( off )
        off		       += len( r )
    return ( b'\x0a' + path + struct.pack( '<H', len( requests ))
             + b''.join( struct.pack( '<H', o ) for o in offsets ) + b''.join( requests ))

def dints( addr_or_conn, tag, count ):
    sts,ext,data		= addr_or_conn.cip( read_tag( tag, None, count ))
    assert sts == 0, "Read Tag %s failed: 0x%02x %r" % ( tag, sts, ext )
    return list( struct.unpack( '<%di' % count, data[2:] ))


def serve( tags, scenario, port=44818, argv=() ):
    """Run the simulator (in this, the main thread) while scenario( addr ) runs; --> its result or raises"""
    logging.getLogger().setLevel( logging.CRITICAL )
    enip.lookup_reset()
    logix.setup_reset()
    addr			= ('127.0.0.1', port)
    control			= cpppo.apidict( enip.timeout, { 'done': False } )
    result			= {}

    def runner():
        try:
            for _ in range( 100 ):
                try:
                    socket.create_connection( addr, timeout=0.2 ).close()
                    break
                except Exception:
                    time.sleep( 0.1 )
            result['value']	= scenario( addr )
        except BaseException as exc:
            result['exc']	= exc
            result['tb']	= traceback.format_exc()
        finally:
            control.done	= True

    started			= []
    def idle_service():
        if not started:
            started.append( threading.Thread( target=runner ))
            started[0].daemon	= True
            started[0].start()

    enip_main( argv=list( argv ) + [ '--no-udp', '--address', '%s:%d' % addr ] + list( tags ),
               server={ 'control': control }, idle_service=idle_service )
    if started:
        started[0].join( 10 )
    if 'exc' in result:
        print( result['tb'] )
        raise result['exc']
    return result.get( 'value' )

DINT				= 0xc4

STRING				= 0xd0
def enc_string( text ):
    b				= text.encode( 'iso-8859-1' )
    return struct.pack( '<H', len( b )) + b + ( b'\0' if len( b ) % 2 else b'' )

def scenario( addr ):
    cli,other			= Raw( addr ),Raw( addr )
    bad				= []
    real			= sys.stdout
    sys.stdout			= io.TextIOWrapper( io.BytesIO(), encoding='ascii' ) # what print() sees under LANG=C / PYTHONIOENCODING=ascii
    try:
        r1			= cli.cip( write_tag( 'ST', 0, STRING, 1, enc_string( u'cafe' )))
        r2			= cli.cip( write_tag( 'ST', 1, STRING, 1, enc_string( u'caf\xe9' )))
        sts,ext,data		= other.cip( read_tag( 'ST', 0, 2 ))
    finally:
        sys.stdout		= real
    print( "Write Tag ST[0] <= 'cafe'        : status 0x%02x %r" % r1[:2] )
    print( "Write Tag ST[1] <= 'caf\\xe9'     : status 0x%02x %r" % r2[:2] )
    print( "Read Tag ST[0-1]                 : status 0x%02x %r" % ( sts, data ))
    if r2[0] != 0 and b'caf\xe9' in data:
        bad.append( "Write Tag ST[1] was answered 0x%02x %r, yet ST[1] now holds the text (Read Tag: %r); expected the tag unchanged" % (
            r2[0], r2[1], data ))
    return bad

if __name__ == "__main__":
    bad				= serve( [ 'ST=STRING[2]' ], scenario, argv=[ '--print' ] )
    for b in bad:
        print( "CONTRADICTION:", b )
    sys.exit( 1 if bad else 0 )
