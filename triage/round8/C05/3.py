#!/usr/bin/env python
"""
C05 defect 3: a Multiple Service Packet whose reply does not fit ( member offsets > 65535 ) is
answered with a failure for the whole packet -- 8A 00 08 00, "Service not supported" -- AFTER its
members were executed ( in fact twice: Message_Router.request produces the reply outside its try
block, the struct.error escapes, and Connection_Manager.request re-parses and re-runs the request
through its "answer it alone" path ).  A Write Tag member has modified the tag although the client is
told that the request failed.

Input: MSP = [ Write Tag D[0] <= old+1 ] + 140 x [ Read Tag D[0-121] ]   ( a 1.7 kB request ).
Expected: either the members' replies ( with eg. 0x11 "reply too large" for those that do not fit ),
or a refusal that leaves D unchanged.
Exit 1 while the contradiction is present, 0 otherwise.
"""
from __future__ import print_function

import io
import logging
import socket
import struct
import sys
import threading
import time
import traceback

import cpppo
from cpppo.server import enip
from cpppo.server.enip import logix, device, parser
from cpppo.server.enip.main import main as enip_main


class Raw( object ):
    """A minimal EtherNet/IP client: RegisterSession, then unconnected SendRRData of raw CIP requests."""
    def __init__( self, addr ):
        self.s			= socket.create_connection( addr, timeout=10 )
        self.session		= 0
        self.session		= self.xfer( 0x65, struct.pack( '<HH', 1, 0 ))[1]

    def recvn( self, n ):
        buf			= b''
        while len( buf ) < n:
            c			= self.s.recv( n - len( buf ))
            assert c, "connection closed by the server"
            buf		       += c
        return buf

    def xfer( self, cmd, payload ):
        self.s.sendall( struct.pack( '<HHII', cmd, len( payload ), self.session, 0 ) + b'\0' * 12 + payload )
        cmd,length,sess,status	= struct.unpack( '<HHII', self.recvn( 24 )[:12] )
        return cmd,sess,status,self.recvn( length )

    def cip( self, req ):
        """--> (status, [extended status], reply data)"""
        cpf			= struct.pack( '<IHHHHHH', 0, 5, 2, 0, 0, 0xb2, len( req )) + req
        cmd,sess,status,body	= self.xfer( 0x6f, cpf )
        assert status == 0 and body, "EtherNet/IP status 0x%x" % status
        rpy			= body[16:]
        svc,_,sts,extn		= struct.unpack( '<BBBB', rpy[:4] )
        ext			= list( struct.unpack( '<%dH' % extn, rpy[4:4+2*extn] ))
        return sts,ext,rpy[4+2*extn:]


def epath( tag, elm=None ):
    b				= tag.encode( 'ascii' )
    seg				= b'\x91' + struct.pack( 'B', len( b )) + b + ( b'\0' if len( b ) % 2 else b'' )
    if elm is not None:
        seg		       += b'\x28' + struct.pack( 'B', elm )
    return struct.pack( 'B', len( seg ) // 2 ) + seg

def read_tag( tag, elm, count ):
    return b'\x4c' + epath( tag, elm ) + struct.pack( '<H', count )

def write_tag( tag, elm, typ, count, payload ):
    return b'\x4d' + epath( tag, elm ) + struct.pack( '<HH', typ, count ) + payload

def multiple( requests, path=b'\x02\x20\x02\x24\x01' ):
    offsets,off			= [],2 + 2 * len( requests )
    for r in requests:
        offsets.append( off )
        off		       += len( r )
    return ( b'\x0a' + path + struct.pack( '<H', len( requests ))
             + b''.join( struct.pack( '<H', o ) for o in offsets ) + b''.join( requests ))

def dints( addr_or_conn, tag, count ):
    sts,ext,data		= addr_or_conn.cip( read_tag( tag, None, count ))
    assert sts == 0, "Read Tag %s failed: 0x%02x %r" % ( tag, sts, ext )
    return list( struct.unpack( '<%di' % count, data[2:] ))


def serve( tags, scenario, port=44818, argv=() ):
    """Run the simulator (in this, the main thread) while scenario( addr ) runs; --> its result or raises"""
    logging.getLogger().setLevel( logging.CRITICAL )
    enip.lookup_reset()
    logix.setup_reset()
    addr			= ('127.0.0.1', port)
    control			= cpppo.apidict( enip.timeout, { 'done': False } )
    result			= {}

    def runner():
        try:
            for _ in range( 100 ):
                try:
                    socket.create_connection( addr, timeout=0.2 ).close()
                    break
                except Exception:
                    time.sleep( 0.1 )
            result['value']	= scenario( addr )
        except BaseException as exc:
            result['exc']	= exc
            result['tb']	= traceback.format_exc()
        finally:
            control.done	= True

    started			= []
    def idle_service():
        if not started:
            started.append( threading.Thread( target=runner ))
            started[0].daemon	= True
            started[0].start()

    enip_main( argv=list( argv ) + [ '--no-udp', '--address', '%s:%d' % addr ] + list( tags ),
               server={ 'control': control }, idle_service=idle_service )
    if started:
        started[0].join( 10 )
    if 'exc' in result:
        print( result['tb'] )
        raise result['exc']
    return result.get( 'value' )

DINT				= 0xc4

def scenario( addr ):
    cli,other			= Raw( addr ),Raw( addr )
    bad				= []
    before			= dints( other, 'D', 4 )
    sts,ext,data		= cli.cip( multiple( [ write_tag( 'D', 0, DINT, 1, struct.pack( '<i', before[0] + 1 )) ]
                                                     + [ read_tag( 'D', 0, 122 ) ] * 140 ))
    after			= dints( other, 'D', 4 )
    print( "MSP [write D[0]] + 140 x [read 122 DINTs]: status 0x%02x %r, %d octets; D[0] %r -> %r" % (
        sts, ext, len( data ), before[0], after[0] ))
    if sts != 0 and after != before:
        bad.append( "the packet was answered with failure status 0x%02x, yet D[0] changed %r -> %r" % ( sts, before[0], after[0] ))
    return bad

if __name__ == "__main__":
    bad				= serve( [ 'D=DINT[200]' ], scenario )
    for b in bad:
        print( "CONTRADICTION:", b )
    sys.exit( 1 if bad else 0 )
