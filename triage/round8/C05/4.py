#!/usr/bin/env python
"""
C05 defect 4: range / type errors on an EXISTING tag that make the request undecodable for the
write parsers are answered 0x05 + 0x0000 ( "request path destination unknown" ) instead of
0xFF + 0x2105 / 0x2107:
  - Write Tag [Fragmented] with a count of zero ( and hence no data ): typed_data needs at least one
    symbol after .elements, the request does not parse, the stand-in made for it has an empty path;
  - Write Tag with a CIP type code that typed_data does not implement ( WORD 0xD2, DWORD 0xD3 ... ),
    ie. a data type the DINT tag cannot hold.
The same requests on a count of zero for reads, or with a type that is implemented, do get 0x2105 / 0x2107.
Expected: 0xFF with 0x2105 ( zero count ), 0xFF with 0x2107 ( type ); observed 0x05 [0].  Tags are unchanged
either way.  Exit 1 while the contradiction is present, 0 otherwise.
"""
from __future__ import print_function

import io
import logging
import socket
import struct
import sys
import threading
import time
import traceback

import cpppo
from cpppo.server import enip
from cpppo.server.enip import logix, device, parser
from cpppo.server.enip.main import main as enip_main


class Raw( object ):
    """A minimal EtherNet/IP client: RegisterSession, then unconnected SendRRData of raw CIP requests."""
    def __init__( self, addr ):
        self.s			= socket.create_connection( addr, timeout=10 )
        self.session		= 0
        self.session		= self.xfer( 0x65, struct.pack( '<HH', 1, 0 ))[1]

    def recvn( self, n ):
        buf			= b''
        while len( buf ) < n:
            c			= self.s.recv( n - len( buf ))
            assert c, "connection closed by the server"
            buf		       += c
        return buf

    def xfer( self, cmd, payload ):
        self.s.sendall( struct.pack( '<HHII', cmd, len( payload ), self.session, 0 ) + b'\0' * 12 + payload )
        cmd,length,sess,status	= struct.unpack( '<HHII', self.recvn( 24 )[:12] )
        return cmd,sess,status,self.recvn( length )

    def cip( self, req ):
        """--> (status, [extended status], reply data)"""
        cpf			= struct.pack( '<IHHHHHH', 0, 5, 2, 0, 0, 0xb2, len( req )) + req
        cmd,sess,status,body	= self.xfer( 0x6f, cpf )
        assert status == 0 and body, "EtherNet/IP status 0x%x" % status
        rpy			= body[16:]
        svc,_,sts,extn		= struct.unpack( '<BBBB', rpy[:4] )
        ext			= list( struct.unpack( '<%dH' % extn, rpy[4:4+2*extn] ))
        return sts,ext,rpy[4+2*extn:]


def epath( tag, elm=None ):
    b				= tag.encode( 'ascii' )
    seg				= b'\x91' + struct.pack( 'B', len( b )) + b + ( b'\0' if len( b ) % 2 else b'' )
    if elm is not None:
        seg		       += b'\x28' + struct.pack( 'B', elm )
    return struct.pack( 'B', len( seg ) // 2 ) + seg

def read_tag( tag, elm, count ):
    return b'\x4c' + epath( tag, elm ) + struct.pack( '<H', count )

def write_tag( tag, elm, typ, count, payload ):
    return b'\x4d' + epath( tag, elm ) + struct.pack( '<HH', typ, count ) + payload

def multiple( requests, path=b'\x02\x20\x02\x24\x01' ):
    offsets,off			= [],2 + 2 * len( requests )
    for r in requests:
        offsets.append( off )
        off		       += len( r )
    return ( b'\x0a' + path + struct.pack( '<H', len( requests ))
             + b''.join( struct.pack( '<H', o ) for o in offsets ) + b''.join( requests ))

def dints( addr_or_conn, tag, count ):
    sts,ext,data		= addr_or_conn.cip( read_tag( tag, None, count ))
    assert sts == 0, "Read Tag %s failed: 0x%02x %r" % ( tag, sts, ext )
    return list( struct.unpack( '<%di' % count, data[2:] ))


def serve( tags, scenario, port=44818, argv=() ):
    """Run the simulator (in this, the main thread) while scenario( addr ) runs; --> its result or raises"""
    logging.getLogger().setLevel( logging.CRITICAL )
    enip.lookup_reset()
    logix.setup_reset()
    addr			= ('127.0.0.1', port)
    control			= cpppo.apidict( enip.timeout, { 'done': False } )
    result			= {}

    def runner():
        try:
            for _ in range( 100 ):
                try:
                    socket.create_connection( addr, timeout=0.2 ).close()
                    break
                except Exception:
                    time.sleep( 0.1 )
            result['value']	= scenario( addr )
        except BaseException as exc:
            result['exc']	= exc
            result['tb']	= traceback.format_exc()
        finally:
            control.done	= True

    started			= []
    def idle_service():
        if not started:
            started.append( threading.Thread( target=runner ))
            started[0].daemon	= True
            started[0].start()

    enip_main( argv=list( argv ) + [ '--no-udp', '--address', '%s:%d' % addr ] + list( tags ),
               server={ 'control': control }, idle_service=idle_service )
    if started:
        started[0].join( 10 )
    if 'exc' in result:
        print( result['tb'] )
        raise result['exc']
    return result.get( 'value' )

DINT				= 0xc4

def scenario( addr ):
    cli,other			= Raw( addr ),Raw( addr )
    bad				= []
    for descr,req,expect in (
            ( "Read Tag D[0], 0 elements",			read_tag( 'D', 0, 0 ),					0x2105 ),
            ( "Write Tag D[0], 0 elements, no data",		write_tag( 'D', 0, DINT, 0, b'' ),			0x2105 ),
            ( "Write Tag Fragmented D[0], 0 elements, no data",	b'\x53' + epath( 'D', 0 ) + struct.pack( '<HHI', DINT, 0, 0 ), 0x2105 ),
            ( "Write Tag D[0], 1 x REAL (0xCA)",		write_tag( 'D', 0, 0xca, 1, struct.pack( '<f', 1.0 )),	0x2107 ),
            ( "Write Tag D[0], 1 x DWORD (0xD3)",		write_tag( 'D', 0, 0xd3, 1, struct.pack( '<I', 1 )),	0x2107 ),
            ( "Write Tag D[0], 1 x WORD (0xD2)",		write_tag( 'D', 0, 0xd2, 1, struct.pack( '<H', 1 )),	0x2107 ),
            ( "both of them in a Multiple Service Packet",	None, None )):
        before			= dints( other, 'D', 4 )
        if req is None:
            sts,ext,data	= cli.cip( multiple( [ write_tag( 'D', 0, DINT, 0, b'' ), write_tag( 'D', 0, 0xd3, 1, struct.pack( '<I', 1 )) ] ))
            n,o1,o2		= struct.unpack( '<HHH', data[:6] )
            got			= [ ( bytearray( r )[2], list( struct.unpack( '<%dH' % bytearray( r )[3], r[4:4+2*bytearray( r )[3]] )))
                                    for r in ( data[o1:o2], data[o2:] ) ]
            print( "%-52s: %r" % ( descr, got ))
            if got != [ (0xFF,[0x2105]), (0xFF,[0x2107]) ]:
                bad.append( "%s: members answered %r; expected [(0xFF,[0x2105]), (0xFF,[0x2107])]" % ( descr, got ))
        else:
            sts,ext,data	= cli.cip( req )
            print( "%-52s: status 0x%02x %s" % ( descr, sts, [ hex( e ) for e in ext ] ))
            if ( sts, ext ) != ( 0xFF, [ expect ] ):
                bad.append( "%s: observed status 0x%02x %r; expected 0xFF [0x%04x]" % ( descr, sts, ext, expect ))
        assert dints( other, 'D', 4 ) == before
    return bad

if __name__ == "__main__":
    bad				= serve( [ 'D=DINT[4]' ], scenario )
    for b in bad:
        print( "CONTRADICTION:", b )
    sys.exit( 1 if bad else 0 )
