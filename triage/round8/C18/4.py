#!/usr/bin/env python
"""
UNCHANGED code: the file replay starts in is chosen relative to the historical clock AT THE FIRST
load(), not relative to the requested start point 'historical'.

reader's docstring: "Replays history from the provided 'historical' timestamp.  The history files
will be searched for the first file beginning at or before 'historical'."  loader.load() however
passes target=self._ts ( None on the INITIAL open ) and reader.open substitutes self.advance().
If the first load() comes a little late ( or the speed factor is large: at x1000 one wall-clock
second is 1000 s of history ) a newer file is selected, and every record logged between the start
point and that file - records AFTER the requested start point - is never delivered.

History: plant.hst.0 = T+0, T+1, T+2;  plant.hst = T+10, T+11.   Start point T+0.5, factor 1.
Schedule A: first load() at once            -> all 5 records (reference).
Schedule B: first load() 10.5 s after basis -> expected the same 5 records ( the first four at once );
            observed: only T+10 and T+11, final map lacks registers 40002/40003.
"""
from __future__ import print_function
import logging, os, shutil, sys, tempfile

import cpppo
from cpppo.history import files as hfiles
from cpppo.history import logger, loader

logging.getLogger().setLevel( logging.ERROR )
T				= 1412345678.0

class clock( object ):
    def __init__( self, now ):	self.now = now
    def __call__( self ):	return self.now

def replay( path, first_delay ):
    wall			= clock( 1000000.0 )
    hfiles.timer		= wall
    ld				= loader( path, historical=T + 0.5, basis=wall.now, factor=1.0 )
    wall.now		       += first_delay
    got				= []
    loads			= 0
    while ld and loads < 1000:
        loads		       += 1
        cur,events		= ld.load()
        got.extend( (round( e['timestamp'].value - T, 3 ), e['values']) for e in events )
        wall.now	       += 0.5
    return got,dict( (r, v) for r,(t,v) in ld.values.items() )

def main():
    tmp				= tempfile.mkdtemp( prefix='c18_defect4_' )
    try:
        path			= os.path.join( tmp, 'plant.hst' )
        with logger( path + '.0' ) as l:
            l.write( { 40001: 1 }, now=T + 0.0 )
            l.write( { 40002: 2 }, now=T + 1.0 )
            l.write( { 40003: 3 }, now=T + 2.0 )
        with logger( path ) as l:
            l.write( { 40001: 4 }, now=T + 10.0 )
            l.write( { 40001: 5 }, now=T + 11.0 )
        ref,refmap		= replay( path, first_delay=0.0 )
        got,gotmap		= replay( path, first_delay=10.5 )
    finally:
        shutil.rmtree( tmp, ignore_errors=True )

    assert len( ref ) == 5, "reference replay is broken: %r" % ( ref, )
    if got != ref or gotmap != refmap:
        print( "CONTRADICTION: start point T+0.5, first load() 10.5 s late: records after the start point are never delivered" )
        print( "  expected records: %r" % ( ref, ))
        print( "  observed records: %r" % ( got, ))
        print( "  expected final map: %r" % ( refmap, ))
        print( "  observed final map: %r" % ( gotmap, ))
        return 1
    print( "OK: the same records whenever the first load() happens" )
    return 0

if __name__ == "__main__":
    sys.exit( main() )
