#!/usr/bin/env python
"""
UNCHANGED code: with a look-ahead, a record that was read ahead of time is NOT absorbed into
loader.values by the first load() after the historical clock has reached its time - it stays in
loader.future until the NEXT record of the file comes within the look-ahead window.

load() drains loader.future ( "Process element(s) ... whose time has come" ) only after a record
with a payload was yielded by the reader.  While the reader reports "next record is in the future"
( ts, None ) the loader goes AWAITING and `break`s ahead of the drain loop, on every call.

History: T+0 {40001:1}, T+5 {40001:2}, T+60 {40001:3};  look-ahead 10 s, factor 1, load() every 1 s.
The event for T+5 is (rightly) returned by the first load.  Expected: values[40001] == 2 from the
load at clock T+5 on.  Observed: it stays 1 until the clock reaches T+50 ( 60 - look-ahead ).
"""
from __future__ import print_function
import logging, os, shutil, sys, tempfile

import cpppo
from cpppo.history import files as hfiles
from cpppo.history import logger, loader

logging.getLogger().setLevel( logging.ERROR )
T				= 1412345678.0

class clock( object ):
    def __init__( self, now ):	self.now = now
    def __call__( self ):	return self.now

def main():
    tmp				= tempfile.mkdtemp( prefix='c18_defect3_' )
    try:
        path			= os.path.join( tmp, 'plant.hst' )
        with logger( path ) as l:
            l.write( { 40001: 1 }, now=T + 0.0 )
            l.write( { 40001: 2 }, now=T + 5.0 )
            l.write( { 40001: 3 }, now=T + 60.0 )
        wall			= clock( 1000000.0 )
        hfiles.timer		= wall
        ld			= loader( path, historical=T, basis=wall.now, factor=1.0, lookahead=10.0 )
        trace			= []		# (historical clock, value of 40001 after the load, until)
        while ld and len( trace ) < 200:
            hist		= ld.advance().value
            cur,events		= ld.load()
            trace.append( (hist - T, ld.values.get( 40001, (None,None) )[1], ld.until.value - T if ld.until else None) )
            wall.now	       += 1.0
    finally:
        shutil.rmtree( tmp, ignore_errors=True )

    late			= [ (h,v) for h,v,u in trace if 5.0 <= h < 60.0 and v != 2 ]
    if late:
        first_ok		= min( [ h for h,v,u in trace if v == 2 ] or [ None ] )
        print( "CONTRADICTION: record T+5 {40001: 2} not absorbed into loader.values when the clock reached it" )
        print( "  expected: values[40001] == 2 after every load() with historical clock in [T+5, T+60)" )
        print( "  observed: values[40001] == %r after the loads at T+%s .. T+%s ( %d loads ); it becomes 2 only at T+%s" % (
            late[0][1], late[0][0], late[-1][0], len( late ), first_ok ))
        return 1
    print( "OK: values follow the historical clock" )
    return 0

if __name__ == "__main__":
    sys.exit( main() )
