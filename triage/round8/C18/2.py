#!/usr/bin/env python
"""
UNCHANGED code: STRICTLY INCREASING timestamps, one millisecond apart, around a file rotation: the
newer file is never replayed.

timestamp.__gt__ / __lt__ compare with an epsilon of 0.001 s, so two timestamps that the logger
wrote as different milliseconds ( ...38.003 and ...38.004 ) are neither < nor > for most values
( it depends on the float rounding of value +/- 0.001 ).  The loader therefore never sees an
"increasing" timestamp in plant.hst.1 ( 38.002, 38.003 ), keeps _strict, and reader.open rejects
plant.hst.0 because its first timestamp 38.004 is not "> 38.003".  The next newer file is taken
instead: every record of plant.hst.0 is lost, though all timestamps are distinct and increasing.

Expected: all 5 logged records, once each, in order; final map = last value logged per register.
"""
from __future__ import print_function
import logging, os, shutil, sys, tempfile

import cpppo
from cpppo.history import files as hfiles
from cpppo.history import logger, loader

logging.getLogger().setLevel( logging.ERROR )
T				= 1412345678.0

class clock( object ):
    def __init__( self, now ):	self.now = now
    def __call__( self ):	return self.now

def main():
    tmp				= tempfile.mkdtemp( prefix='c18_defect2_' )
    try:
        path			= os.path.join( tmp, 'plant.hst' )
        # oldest .1 ( 2 records, 1 ms apart ), then .0 ( begins 1 ms after the last of .1 ), newest plain
        hist			= [
            ( path + '.1', [ (T + 0.002, { 40001: 1 }), (T + 0.003, { 40001: 2 }) ] ),
            ( path + '.0', [ (T + 0.004, { 40002: 3 }), (T + 1.000, { 40003: 4 }) ] ),
            ( path,        [ (T + 2.000, { 40001: 5 }) ] ),
        ]
        want			= []
        final			= {}
        for name,recs in hist:
            with logger( name ) as l:
                for t,d in recs:
                    l.write( d, now=t )
                    want.append( (round( t, 3 ), dict( (str( k ), v) for k,v in d.items() )) )
                    final.update( d )

        wall			= clock( 1000000.0 )
        hfiles.timer		= wall
        ld			= loader( path, historical=T - 1.0, basis=wall.now, factor=1.0 )
        got			= []
        loads			= 0
        while ld and loads < 1000:
            loads	       += 1
            cur,events		= ld.load()
            got.extend( (round( e['timestamp'].value, 3 ), e['values']) for e in events )
            wall.now	       += 0.25
        values			= dict( (r, v) for r,(t,v) in ld.values.items() )
    finally:
        shutil.rmtree( tmp, ignore_errors=True )

    ok				= ( got == want and values == final )
    if not ok:
        print( "CONTRADICTION: file plant.hst.0 ( first record 1 ms after the last record of plant.hst.1 ) was not replayed" )
        print( "  expected records: %r" % ( [ (round( t - T, 3 ), v) for t,v in want ], ))
        print( "  observed records: %r" % ( [ (round( t - T, 3 ), v) for t,v in got ], ))
        print( "  expected final map: %r" % ( final, ))
        print( "  observed final map: %r   (loader state %s)" % ( values, ld.statename[ld.state] ))
        return 1
    print( "OK: all %d records replayed once, in order" % len( got ))
    return 0

if __name__ == "__main__":
    sys.exit( main() )
