#!/usr/bin/env python
"""
UNCHANGED code: when a rotated file is present both plain and compressed, the file switch
( reader.open( after=True ) ) selects the COMPRESSED copy, though the docstring promises: "If a
duplicate file (eg. blah.hst.1 and blah.hst.1.gz ) is detected, the earlier (uncompressed) is
preferred, addressing potential issues with using a file currently being compressed."

The candidates are scanned newest-to-oldest in natural order ( '.1' ahead of '.1.gz' ) and "the last
opened file is the winner": for after=True that is '.1.gz'.  While the compressor is still writing,
'.1.gz' is a truncated stream: its first part replays, then the decompressor raises EOFError, the
reader abandons the file, and the next open ( target = last timestamp delivered ) rejects the
complete plain copy '.1' because it begins before the target.  The rest of the file is lost although
the intact uncompressed copy is sitting next to it.  ( On the INITIAL open, after=False, the plain
copy is indeed the one selected. )

Expected: 2 + 3000 + 1 records.  Observed: only the part of plant.hst.1 that the partial .gz holds.
"""
from __future__ import print_function
import gzip, io, logging, os, shutil, sys, tempfile

import cpppo
from cpppo.history import files as hfiles
from cpppo.history import logger, loader

logging.getLogger().setLevel( logging.CRITICAL )
T				= 1412345678.0

class clock( object ):
    def __init__( self, now ):	self.now = now
    def __call__( self ):	return self.now

def main():
    tmp				= tempfile.mkdtemp( prefix='c18_defect6_' )
    try:
        path			= os.path.join( tmp, 'plant.hst' )
        want			= []
        with logger( path + '.2' ) as l:
            for i in range( 2 ):
                l.write( { 40001: i }, now=T - 5.0 + i ); want.append( round( T - 5.0 + i, 3 ))
        with logger( path + '.1' ) as l:
            for i in range( 3000 ):
                l.write( { 40001 + i % 7: i }, now=T + 0.01 * i ); want.append( round( T + 0.01 * i, 3 ))
        with logger( path ) as l:
            l.write( { 40001: 99999 }, now=T + 40.0 ); want.append( round( T + 40.0, 3 ))
        # the compressor is half way thru plant.hst.1 -> plant.hst.1.gz
        buf			= io.BytesIO()
        with gzip.GzipFile( fileobj=buf, mode='wb' ) as gz:
            with open( path + '.1', 'rb' ) as rd:
                gz.write( rd.read() )
        data			= buf.getvalue()
        with open( path + '.1.gz', 'wb' ) as fd:
            fd.write( data[:len( data ) // 2] )

        wall			= clock( 1000000.0 )
        hfiles.timer		= wall
        ld			= loader( path, historical=T - 6.0, basis=wall.now, factor=10.0 )
        got			= []
        loads			= 0
        while ld and loads < 1000:
            loads	       += 1
            cur,events		= ld.load()
            got.extend( round( e['timestamp'].value, 3 ) for e in events )
            wall.now	       += 0.1
    finally:
        shutil.rmtree( tmp, ignore_errors=True )

    if got != want:
        missing			= sorted( set( want ) - set( got ))
        print( "CONTRADICTION: plain plant.hst.1 and a partial plant.hst.1.gz present together: the compressed copy was replayed" )
        print( "  expected: %d records ( 2 + 3000 + 1 ), each once" % len( want ))
        print( "  observed: %d records; %d never delivered, from T%+.3f to T%+.3f" % (
            len( got ), len( missing ), missing[0] - T, missing[-1] - T ))
        return 1
    print( "OK: all %d records replayed" % len( got ))
    return 0

if __name__ == "__main__":
    sys.exit( main() )
