#!/usr/bin/env python
"""
UNCHANGED code: a history file whose records all carry ONE timestamp (eg. a file holding a single
record) followed by a rotated file that BEGINS with that same timestamp: the follower is never
replayed.

The loader opens the next file "strictly after" the last timestamp as long as the file just played
did not show an increasing timestamp ( _strict ).  reader.open then demands  first-ts > target  of
every candidate, so the legitimate next file - whose first record was logged in the same millisecond
as the last record of the file before - is rejected.  If a still newer file exists it is selected
instead and the whole file in between is silently skipped; otherwise replay ends (COMPLETE) there.

Expected: all 6 logged records, once each, in order; final map = last value logged per register.
"""
from __future__ import print_function
import logging, os, shutil, sys, tempfile

import cpppo
from cpppo.history import files as hfiles
from cpppo.history import logger, loader

logging.getLogger().setLevel( logging.ERROR )
T				= 1412345678.0

class clock( object ):
    def __init__( self, now ):	self.now = now
    def __call__( self ):	return self.now

def main():
    tmp				= tempfile.mkdtemp( prefix='c18_defect1_' )
    try:
        path			= os.path.join( tmp, 'plant.hst' )
        # oldest .2, then .1 (one record @T+2), then .0 (begins @T+2 too: logged in the same ms), newest plain
        hist			= [
            ( path + '.2', [ (T + 0.0, { 40001: 1 }), (T + 1.0, { 40001: 2 }) ] ),
            ( path + '.1', [ (T + 2.0, { 40001: 3 }) ] ),
            ( path + '.0', [ (T + 2.0, { 40002: 4 }), (T + 3.0, { 40003: 5 }) ] ),
            ( path,        [ (T + 4.0, { 40001: 6 }) ] ),
        ]
        want			= []
        final			= {}
        for name,recs in hist:
            with logger( name ) as l:
                for t,d in recs:
                    l.write( d, now=t )
                    want.append( (round( t, 3 ), dict( (str( k ), v) for k,v in d.items() )) )
                    final.update( d )

        wall			= clock( 1000000.0 )
        hfiles.timer		= wall
        ld			= loader( path, historical=T - 1.0, basis=wall.now, factor=1.0 )
        got			= []
        loads			= 0
        while ld and loads < 1000:
            loads	       += 1
            cur,events		= ld.load()
            got.extend( (round( e['timestamp'].value, 3 ), e['values']) for e in events )
            wall.now	       += 0.25
        values			= dict( (r, v) for r,(t,v) in ld.values.items() )
    finally:
        shutil.rmtree( tmp, ignore_errors=True )

    ok				= ( got == want and values == final )
    if not ok:
        print( "CONTRADICTION: file plant.hst.0 ( first record in the same millisecond as the single record of plant.hst.1 ) was not replayed" )
        print( "  expected records: %r" % ( [ (t - T, v) for t,v in want ], ))
        print( "  observed records: %r" % ( [ (t - T, v) for t,v in got ], ))
        print( "  expected final map: %r" % ( final, ))
        print( "  observed final map: %r   (loader state %s)" % ( values, ld.statename[ld.state] ))
        return 1
    print( "OK: all %d records replayed once, in order" % len( got ))
    return 0

if __name__ == "__main__":
    sys.exit( main() )
