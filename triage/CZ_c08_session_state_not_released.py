"""A connection that ends inside a frame never releases its session state.  enip_srv_tcp tells enip_process
about the end of a session ( the call with empty data, which makes the Connection Manager purge the
connection's Forward Opens ) on a clean EOF and when a *request* fails -- but not when the framing itself
fails: a truncated frame followed by EOF ( also: server disable / web API eof while a frame is incomplete )
leaves through the outer handler, which only logs.  Nor when the server itself ends the session: a request
answered with a non-zero EtherNet/IP status ( eg. 0x08 for a SendRRData without its two CPF items, 0x65 for
one beyond --size ) sets eof and the loop just ends.  Every such connection leaves its Forward Open in
Connection_Manager.forwards for ever.

Input: Register, Forward Open, then 3 octets of a next frame, then close ( or: a request refused with status 0x08 ).
Expected: forwards holds nothing for the closed connection ( as after a clean close ); observed: the entry stays.
"""
import os
# ---- helpers: start the simulator in-process, build frames, probe liveness
import sys, threading, time, socket, struct, logging
from cpppo.dotdict import dotdict, apidict
from cpppo.server.enip.main import main as enip_main

PORT = 44818

def start( tags=('SCADA=INT[100]',), udp=True, port=PORT, latency=0.1, extra=() ):
    control = apidict( timeout=1.0 )
    control['latency'] = latency
    server = dotdict( control=control )
    args = [ '--no-config', '-a', 'localhost:%d' % port ] + list( extra ) + list( tags )
    if not udp:
        args.insert( 0, '-U' )
    result = {}
    def run():
        try:
            result['rc'] = enip_main( argv=args, server=server )
        except BaseException as exc:
            result['exc'] = exc
    t = threading.Thread( target=run ); t.daemon = True; t.start()
    beg = time.time()
    while 'address' not in control and time.time() - beg < 10:
        time.sleep( .05 )
    assert 'address' in control, "simulator did not start"
    return t, control, result

def enip( command, payload=b'', session=0, status=0, ctx=b'\0'*8, options=0, length=None ):
    return struct.pack( '<HHII8sI', command, len( payload ) if length is None else length,
                        session, status, ctx, options ) + payload

REGISTER = enip( 0x65, struct.pack( '<HH', 1, 0 ))

def cpf_unconnected( cip, session, timeout=5 ):
    body = struct.pack( '<IH', 0, timeout ) + struct.pack( '<H', 2 ) + struct.pack( '<HH', 0, 0 ) \
        + struct.pack( '<HH', 0xB2, len( cip )) + cip
    return enip( 0x6f, body, session=session )

def read_tag( name=b'SCADA', elements=1 ):
    seg = b'\x91' + bytes([len(name)]) + name + ( b'\0' if len(name) % 2 else b'' )
    return b'\x4c' + bytes([len(seg)//2]) + seg + struct.pack( '<H', elements )

def recv_frame( s, timeout=3.0 ):
    s.settimeout( timeout )
    buf = b''
    try:
        while len( buf ) < 24:
            d = s.recv( 4096 )
            if not d: return buf or None
            buf += d
        ln = struct.unpack( '<H', buf[2:4] )[0]
        while len( buf ) < 24 + ln:
            d = s.recv( 4096 )
            if not d: break
            buf += d
    except socket.timeout:
        return buf or None
    return buf

def probe( port=PORT ):
    """Liveness probe: a new TCP session registers and reads SCADA[0]; returns True iff answered with status 0."""
    try:
        s = socket.create_connection( ('127.0.0.1', port), timeout=3 )
        s.sendall( REGISTER )
        r = recv_frame( s )
        if not r or len( r ) < 28: return False
        sess = struct.unpack( '<I', r[4:8] )[0]
        s.sendall( cpf_unconnected( read_tag(), sess ))
        r = recv_frame( s )
        s.close()
        return bool( r ) and len( r ) >= 44 and r[40:44] == b'\xcc\x00\x00\x00'
    except Exception as exc:
        print( "probe: %r" % ( exc, ))
        return False
# ----
from cpppo.server.enip import client, device

logging.disable( logging.ERROR )
t,c,res = start( udp=False )

def session( tail, refused=False ):
    conn = client.implicit( host='127.0.0.1', port=PORT, timeout=3 )
    mine = [ k for k in device.Connection_Manager.forwards if k[:2] == conn.conn.getsockname() ]
    assert len( mine ) == 1, "Forward Open not established: %r" % ( list( device.Connection_Manager.forwards ), )
    sock = conn.conn
    if tail:
        sock.sendall( tail )
    if refused:
        # a SendRRData with one CPF item only: answered with EtherNet/IP status 0x08, session ended by the server
        sock.sendall( enip( 0x6f, struct.pack( '<IHHHH', 0, 5, 1, 0, 0 ), session=conn.session ))
        rpy = recv_frame( sock, 2 )
        assert rpy and struct.unpack( '<I', rpy[8:12] )[0] == 0x08, "expected status 0x08: %r" % ( rpy, )
    sock.shutdown( socket.SHUT_WR )
    time.sleep( .5 )
    sock.close()
    conn.established = dotdict()			# no Forward Close from the client object's destructor
    time.sleep( .5 )
    return [ k for k in device.Connection_Manager.forwards if k == mine[0] ]

clean = session( b'' )
trunc = session( b'\x6f\x00\x10' )
refus = session( b'', refused=True )
print( "Forward Opens left behind after a clean close:      %r" % ( clean, ))
print( "Forward Opens left behind after a truncated frame:  %r   (expected: [])" % ( trunc, ))
print( "Forward Opens left behind after a status 0x08 reply: %r   (expected: [])" % ( refus, ))
c['done'] = True
if ( trunc or refus ) and not clean:
    print( "DEFECT: a session that ended inside a frame, or was ended by the server with an error status, was never terminated towards enip_process" )
    os._exit( 1 )
os._exit( 0 )
