"""Triage only (never run by a registered check).  Reproduces defect B (C13, rule S-COMPLETE):
with depth=0 (connector.synchronous) a connection that reaches EOF exactly between reply frames
(register reply 28 bytes + k*48) ends the result stream silently with fewer results than operations;
with depth=2 (connector.pipeline) the same cut raises.  Run: /venv/bin/python <this file>
"""
import threading, socket, time, logging
from cpppo.server.enip import client, parser
from cpppo.server.enip import main as enipmain
from cpppo import dotdict, apidict
import cpppo
# start a real simulator in a thread
ctl = dotdict(); ctl.control = apidict(timeout=1.0); ctl.control.latency=0.05
def srv():
    enipmain.main(argv=['-a','localhost:0','T=INT[10]'], server=ctl)
t = threading.Thread(target=srv, daemon=True); t.start()
for _ in range(100):
    if ctl.control.get('address'): break
    time.sleep(0.05)
addr = ctl.control['address']; print('sim at', addr)
# relay that forwards c->s fully but cuts s->c after N bytes
def relay(cut):
    ls = socket.socket(); ls.bind(('localhost',0)); ls.listen(1)
    def run():
        c,_ = ls.accept(); s = socket.create_connection(addr)
        def c2s():
            try:
                while True:
                    d = c.recv(4096)
                    if not d: break
                    s.sendall(d)
            except Exception: pass
        threading.Thread(target=c2s, daemon=True).start()
        sent = 0
        try:
            while True:
                d = s.recv(4096)
                if not d: break
                if sent + len(d) >= cut:
                    c.sendall(d[:cut-sent]); break
                c.sendall(d); sent += len(d)
        except Exception: pass
        c.close(); s.close()
    threading.Thread(target=run, daemon=True).start()
    return ls.getsockname()
ops = list(client.parse_operations(['T[0]','T[1]','T[2]','T[3]','T[4]']))
# register reply = 28 bytes; each read reply = 24 + 16 + ... find sizes: cut after register + 2 complete replies approx
for depth in (0, 2):
    for cut in (76, 100, 124):   # 76/124: frame boundaries; 100: inside a frame
        ra = relay(cut)
        try:
            with client.connector(host=ra[0], port=ra[1], timeout=1.0) as conn:
                res = list(conn.operate(list(ops), depth=depth, timeout=1.0))
                print('depth',depth,'cut',cut,'-> results', len(res), 'of', len(ops), [r[-1] for r in res])
        except Exception as e:
            print('depth',depth,'cut',cut,'-> EXC', type(e).__name__, str(e)[:90])
ctl.control['done']=True
