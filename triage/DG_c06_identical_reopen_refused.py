"""C06 defect 2: Connection_Manager.forward_open documents that a Forward Open repeating the exact parameters of an
established connection ( same peer, same O->T connection ID -- kept by the target when the O->T connection is not
Point-to-Point ) "signals success".  Observed: the identical re-open is always refused with status 0x08, because the
comparison calls ufo.getattr( ... ), which no dotdict has ( AttributeError ); expected: 0xD4 with status 0x00.
"""
import os, sys, threading, time, socket, struct

from cpppo.server.enip import main as enip_main

PORT = 44818

def start():
    t = threading.Thread( target=enip_main.main,
                          kwargs=dict( argv=[ '-a', 'localhost:%d' % PORT, 'TAG=DINT[10]' ] ))
    t.daemon = True
    t.start()
    for _ in range( 150 ):
        try:
            socket.create_connection( ('127.0.0.1', PORT), timeout=.5 ).close()
            return
        except Exception:
            time.sleep( .1 )
    raise RuntimeError( "simulator did not start" )

def frame( command, session, ctx, payload ):
    return struct.pack( '<HHII8sI', command, len( payload ), session, 0, ctx, 0 ) + payload

def recv_exact( s, n ):
    buf = b''
    while len( buf ) < n:
        d = s.recv( n - len( buf ))
        if not d:
            return None
        buf += d
    return buf

def recv_frame( s, timeout=5 ):
    s.settimeout( timeout )
    try:
        hdr = recv_exact( s, 24 )
        if hdr is None:
            return None
        cmd,ln,sess,sta,ctx,opt = struct.unpack( '<HHII8sI', hdr )
        pay = recv_exact( s, ln ) if ln else b''
        return cmd,sess,sta,ctx,pay
    except socket.timeout:
        return None

def rrdata( cipreq ):
    return ( struct.pack( '<IHH', 0, 5, 2 ) + struct.pack( '<HH', 0, 0 )
             + struct.pack( '<HH', 0xb2, len( cipreq )) + cipreq )

def fwd_open( rpi, otid=0x11111111, toid=0x22222222, serial=7 ):
    req  = bytes( [0x54, 2, 0x20, 6, 0x24, 1, 0x0a, 0x0e] )
    req += struct.pack( '<IIHHI', otid, toid, serial, 0x1234, 0x56789abc ) + bytes( [1,0,0,0] )
    req += struct.pack( '<IHIHB', rpi, 0x03f4, rpi, 0x43f4, 0xa3 )	# O->T: NULL type, T->O: Point-to-Point
    req += bytes( [3, 1,0, 0x20,2, 0x24,1] )				# 1/0, @2/1
    return req


def main():
    start()
    s = socket.create_connection( ('127.0.0.1', PORT) )
    s.sendall( frame( 0x65, 0, b'REGISTER', struct.pack( '<HH', 1, 0 )))
    sess = recv_frame( s )[1]
    assert sess, "no session"
    sta = []
    for ctx in ( b'FWDOPEN1', b'FWDOPEN2' ):
        s.sendall( frame( 0x6f, sess, ctx, rrdata( fwd_open( rpi=100000 ))))
        rpy = recv_frame( s )
        cip = rpy[4][16:]
        print( "%s: reply service 0x%02X status 0x%02X" % ( ctx.decode(), cip[0], cip[2] ))
        sta.append( ( cip[0], cip[2] ))
    print( "observed: %r; expected: [(0xD4, 0), (0xD4, 0)] -- an identical re-open succeeds" % ( sta, ))
    sys.stdout.flush()
    os._exit( 0 if sta == [ (0xD4,0), (0xD4,0) ] else 1 )

main()
