"""Defect AK (C05/C07): an attribute service addressed to an object that does NOT exist ( @0x77/1/1 ) is not refused when it arrives inside a
Multiple Service Packet: route() finds no target ( lookup gives None, which means "for me" ), and Object.request looks only at the attribute
number - the Message Router serves its OWN attribute 1 ( tag A ) for Get Attribute Single, and Set Attribute Single @0x77/1/1 WRITES tag A.
Simulator A=INT[4] ( auto-allocated @2/1/1 ).   exit 1 before the fix, 0 after."""
import sys, time, threading
import cpppo
from cpppo.server.enip.main import main as enip_main
from cpppo.server.enip import client
from cpppo.server.enip.get_attribute import attribute_operations

ctl = cpppo.dotdict( done=False )
t = threading.Thread( target=enip_main, kwargs=dict( argv=[ '-a', 'localhost:44818', 'A=INT[4]' ], server=dict( control=ctl )))
t.daemon = True; t.start()
time.sleep( 1.5 )
def run( ops, multiple ):
    with client.connector( host='localhost', port=44818, timeout=3.0 ) as conn:
        out = []
        for idx, dsc, req, rpy, sts, val in conn.pipeline( operations=attribute_operations( ops ), depth=1, multiple=multiple, timeout=3.0 ):
            out.append(( sts, val ))
        return out
with client.connector( host='localhost', port=44818, timeout=3.0 ) as conn:
    list( conn.pipeline( operations=client.parse_operations( [ 'A[0-3]=(INT)1,2,3,4' ] ), depth=1, timeout=3.0 ))
got = run( [ '@0x77/1/1' ], 250 )
print( 'Get Attribute Single @0x77/1/1 ( no such object ), bundled: %r' % ( got, ))
put = run( [ '@0x77/1/1=(USINT)9,9,9,9,9,9,9,9' ], 250 )
print( 'Set Attribute Single @0x77/1/1 ( no such object ), bundled: %r' % ( put, ))
with client.connector( host='localhost', port=44818, timeout=3.0 ) as conn:
    a = [ v for i, d, q, r, s_, v in conn.pipeline( operations=client.parse_operations( [ 'A[0-3]' ] ), depth=1, timeout=3.0 ) ]
print( 'tag A afterwards: %r' % ( a, ))
ctl.done = True
ok = a == [ [ 1, 2, 3, 4 ] ] and all( sts not in ( 0, None ) or val is None for sts, val in got + put )
print( 'refused, tag A untouched: %s' % ok )
sys.exit( 0 if ok else 1 )
