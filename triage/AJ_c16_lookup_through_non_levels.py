"""Defects AJ (C16): (1) d['l.x'] / 'l.x' in d with d.l a list (or a str) raised TypeError from the foreign __getitem__ instead of KeyError / False;
(2) d.pop( 'l[0].x', default ) fetched the level with the raw dict lookup of 'l[0]': an EXISTING path was not popped and the default came back;
(3) d.pop( 'a.b', default ) through a non-level value raised KeyError although a default was supplied.   exit 1 before the fix, 0 after."""
import sys
from cpppo.dotdict import dotdict
bad = 0
def check( what, f, want ):
    global bad
    try:
        got = f()
    except Exception as exc:
        got = type( exc ).__name__
    ok = got == want
    print( '%-44s -> %-14r %s' % ( what, got, 'OK' if ok else 'WRONG, expected %r' % ( want, )))
    bad += not ok
d = dotdict(); d.l = [ 1, 2 ]; d.s = 'abc'
check( "d.l = [1,2]; d['l.x']", lambda: d['l.x'], 'KeyError' )
check( "'l.x' in d", lambda: 'l.x' in d, False )
check( "d.get( 's.x', 7 )", lambda: d.get( 's.x', 7 ), 7 )
d = dotdict(); d.l = [ dotdict( x=5 ), dotdict( x=6 ) ]
check( "d.pop( 'l[0].x', None )  ( path exists )", lambda: d.pop( 'l[0].x', None ), 5 )
check( "'l[0].x' in d afterwards", lambda: 'l[0].x' in d, False )
d = dotdict(); d.a = 3
check( "d.a = 3; d.pop( 'a.b', None )", lambda: d.pop( 'a.b', None ), None )
check( "d.pop( 'a.b' )", lambda: d.pop( 'a.b' ), 'KeyError' )
sys.exit( 1 if bad else 0 )
