"""C13 defect 2 ( adjacent to the property: "the proxy layer discards the connection ... its next use reconnects" ):
proxy_connected.read() abandoned by its consumer while results are still pending never returns.

maintain_gateway's generator wrapper re-raises GeneratorExit so that `with inst:` discards the gateway, but at
that moment the inner read() / read_details() generator is still suspended INSIDE `with self.gateway as
connection:` - it holds the client's frame lock.  proxy.close_gateway() -> client.implicit.close() sends the
Forward Close under `with self:` and blocks for ever on that ( non re-entrant ) lock.  With the plain proxy
( client.connector.close() takes no lock ) the same sequence returns and the gateway is discarded.

Expected: closing the abandoned reader returns, the gateway is discarded, and the next read reconnects and is right.
Exit 1 while the close never returns ( or the follow-up read is wrong ), 0 otherwise.
"""
from __future__ import print_function
import logging, os, socket, sys, threading, time

from cpppo.dotdict import apidict
from cpppo.server import enip
from cpppo.server.enip import client
from cpppo.server.enip.get_attribute import proxy, proxy_connected
from cpppo.server.enip.main import main as enip_main

logging.basicConfig( level=logging.CRITICAL )
logging.getLogger().setLevel( logging.CRITICAL )

SRV				= ( '127.0.0.1', 44916 )

def start_server():
    control			= apidict( enip.timeout, { 'done': False } )
    thr				= threading.Thread( target=enip_main, kwargs=dict(
        argv=[ '--address', '%s:%d' % SRV, 'A=DINT[4]', 'B=DINT[4]' ],
        server={ 'control': control } ))
    thr.daemon			= True
    thr.start()
    for _ in range( 100 ):
        try:
            socket.create_connection( SRV, timeout=.2 ).close()
            return control
        except Exception:
            time.sleep( .1 )
    raise Exception( "simulator did not start" )


tags				= [ 'A[0]', 'B[0]', 'A[1]', 'B[1]' ]
expect				= [ [1], [11], [2], [12] ]

def main():
    control			= start_server()
    with client.connector( *SRV, timeout=5 ) as conn:
        fail,_			= conn.process( client.parse_operations( [
            'A[0-3]=(DINT)1,2,3,4', 'B[0-3]=(DINT)11,12,13,14' ] ), depth=1 )
        assert not fail

    bad				= []
    for cls in ( proxy, proxy_connected ):
        via			= cls( SRV[0], port=SRV[1], timeout=1.0, depth=1, identity_default="demo" )
        out			= {}
        def work():
            reader		= via.read( tags )
            out['first']	= next( reader )
            reader.close()				# 3 results still to come: the gateway is to be discarded
            out['gateway']	= via.gateway
            out['again']	= list( via.read( tags ))	# reconnects
        thr			= threading.Thread( target=work )
        thr.daemon		= True
        thr.start()
        thr.join( 10 )
        if thr.is_alive():
            bad.append( "%s: closing the abandoned read() did not return within 10s ( first value %r )" % (
                cls.__name__, out.get( 'first' )))
        elif out.get( 'gateway' ) is not None or out.get( 'again' ) != expect:
            bad.append( "%s: gateway after abandoned read: %r, next read: %r" % (
                cls.__name__, out.get( 'gateway' ), out.get( 'again' )))
    control['done']		= True
    if bad:
        print( "OBSERVED (expected: the close returns, the gateway is discarded, the next read is right):" )
        for b in bad:
            print( "  " + b )
        sys.stdout.flush()
        os._exit( 1 ) # a blocked thread may hold locks; don't wait for it
    print( "OK: an abandoned read discards the gateway and the next read reconnects" )
    return 0

if __name__ == "__main__":
    sys.exit( main() )
