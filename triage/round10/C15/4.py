#!/usr/bin/env python
"""
C15 defect 4: the documented server invocation

    python -m cpppo.server.enip --route-path 1/0/2/192.168.1.2 ...     # { backplane, slot 0 }, { port 2, link 192.168.1.2 }

(README "EtherNet/IP Controller Communications Simulator", list of --route-path examples) does not start: main()
asserts that a --route-path has exactly one segment, although the UCMM compares complete route paths and accepts a
multi-segment "Route Path = 1/0/2/192.168.1.2" from the configuration file.

Expected: the simulator starts, accepts a request carrying exactly 1/0/2/192.168.1.2 (or no route path) and refuses
1/0 and 2/192.168.1.2.  Exits 1 (observed vs. expected) while the contradiction is present, 0 otherwise.
"""
from __future__ import print_function

import os
import socket
import subprocess
import sys
import tempfile
import time

from cpppo.server.enip import client, parser

HOST,PORT			= 'localhost', 44878
TIMEOUT				= 5.0
ROUTE_PATH			= '1/0/2/192.168.1.2'


def write( value, route_path, send_path=None ):
    with client.connector( host=HOST, port=PORT, timeout=TIMEOUT ) as conn:
        conn.write( 'T[0]', data=[value], elements=1, tag_type=parser.INT.tag_type,
                    route_path=route_path, send_path=send_path )
        rsp,_			= client.await_response( conn, timeout=TIMEOUT )
    if not rsp:
        return None,None
    rpy				= rsp.get( 'enip.CIP.send_data.CPF.item[1].unconnected_send.request' )
    return rsp.enip.status, ( rpy.get( 'status' ) if rpy else None )


def main():
    output			= tempfile.TemporaryFile()
    command			= subprocess.Popen(
        [ sys.executable, '-m', 'cpppo.server.enip', '--no-udp', '-a', '%s:%d' % ( HOST, PORT ),
          '--route-path', ROUTE_PATH, 'T=INT[4]' ],
        stdout=output, stderr=subprocess.STDOUT )
    try:
        started			= False
        for _ in range( 100 ):
            try:
                socket.create_connection( ( HOST, PORT ), timeout=.5 ).close()
                started		= True
                break
            except Exception:
                if command.poll() is not None:
                    break
                time.sleep( .1 )
        if not started:
            output.seek( 0 )
            last		= output.read().decode( 'utf-8', 'replace' ).strip().split( '\n' )[-1]
            print( "OBSERVED: python -m cpppo.server.enip --route-path %s exited with %r: %s" % (
                ROUTE_PATH, command.poll(), last ))
            print( "EXPECTED: a simulator that accepts exactly the (documented) two-segment route path %s" % ( ROUTE_PATH, ))
            return 1
        results			= [ ( rp, write( 10 + i, route_path=rp )) for i,rp in enumerate( ( ROUTE_PATH, '1/0', '2/192.168.1.2' )) ]
        print( "simulator --route-path %s: %r" % ( ROUTE_PATH, results ))
        if results[0][1] != (0,0) or any( r[0] in (0,None) for _,r in results[1:] ):
            print( "OBSERVED: %r" % ( results, ))
            print( "EXPECTED: only %s accepted" % ( ROUTE_PATH, ))
            return 1
        return 0
    finally:
        if command.poll() is None:
            command.kill()
        command.wait()


if __name__ == "__main__":
    sys.exit( main() )
