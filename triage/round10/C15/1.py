#!/usr/bin/env python
"""
C15 defect 1: the personality ( -S / --route-path / UCMM_class ) of a simulator started by a second call of
cpppo.server.enip.main.main() in the same process is ignored: logix.setup() keeps the UCMM created for the first
simulator ( module-level logix.setup.ucmm ), whatever UCMM_class the second main() asks for.

  1st main():  no personality          -- accepts any route path (as it should)
  2nd main():  -S (simple, non-routing) -- must refuse a request carrying route path 1/5, and write nothing

Exits 1 (observed vs. expected) while the contradiction is present, 0 otherwise.
"""
from __future__ import print_function

import socket
import sys
import threading
import time

from cpppo.dotdict import apidict
from cpppo.server.enip import client, parser
from cpppo.server.enip.main import main as enip_main, tags as enip_tags

HOST				= 'localhost'
TIMEOUT				= 5.0


def start( port, *argv ):
    control			= apidict( 1.0, { 'done': False } )
    thread			= threading.Thread( target=enip_main, kwargs=dict(
        argv	= [ '--no-udp', '-a', '%s:%d' % ( HOST, port ) ] + list( argv ),
        server	= { 'control': control } ))
    thread.daemon		= True
    thread.start()
    for _ in range( 200 ):
        try:
            socket.create_connection( ( HOST, port ), timeout=.5 ).close()
            break
        except Exception:
            time.sleep( .05 )
    return control,thread


def write( port, value, route_path, send_path=None ):
    with client.connector( host=HOST, port=port, timeout=TIMEOUT ) as conn:
        conn.write( 'T[0]', data=[value], elements=1, tag_type=parser.INT.tag_type,
                    route_path=route_path, send_path=send_path )
        rsp,_			= client.await_response( conn, timeout=TIMEOUT )
    if not rsp:
        return None,None
    rpy				= rsp.get( 'enip.CIP.send_data.CPF.item[1].unconnected_send.request' )
    return rsp.enip.status, ( rpy.get( 'status' ) if rpy else None )


def main():
    control,thread		= start( 44838, 'T=INT[4]' )
    first			= write( 44838, 11, route_path='1/5' )
    print( "1st main() (no personality): write via route path 1/5: status %r, T == %r" % (
        first, enip_tags['T'].attribute.value ))
    control['done']		= True
    thread.join( 10 )
    assert not thread.is_alive(), "1st simulator did not stop"
    assert first == (0,0), "unconfigured simulator should accept any route path"

    control,thread		= start( 44839, '-S', 'T=INT[4]' )
    simple			= write( 44839, 22, route_path=False, send_path='' )
    routed			= write( 44839, 33, route_path='1/5' )
    value			= enip_tags['T'].attribute.value
    control['done']		= True
    print( "2nd main() (-S): simple write: status %r; write via route path 1/5: status %r, T == %r" % (
        simple, routed, value ))
    if routed[0] == 0 or value[0] == 33:
        print( "OBSERVED: the simulator started with -S accepted the request carrying route path 1/5 (status %r) and wrote the tag (T == %r)" % (
            routed, value ))
        print( "EXPECTED: a simple (non-routing) device refuses it with an error status, and T[0] stays %r" % ( 22, ))
        return 1
    return 0


if __name__ == "__main__":
    sys.exit( main() )
