#!/usr/bin/env python
"""
C15 defect 5: UCMM.__init__ documents and implements "any route from keyword parameters" ( UCMM( route={...} ) ),
but hands the keyword to device.Object.__init__ before it removes it: constructing a UCMM with a route table raises
TypeError, so the only ways to give a UCMM its routes are a subclass attribute or the configuration file.

Expected: UCMM( route={ "1/1-2": "localhost:44819" } ).route == { "1/1": ("localhost",44819), "1/2": ("localhost",44819) }.
Exits 1 (observed vs. expected) while the contradiction is present, 0 otherwise.
"""
from __future__ import print_function

import sys

from cpppo.server.enip import ucmm


def main():
    expected			= { "1/1": ( "localhost", 44819 ), "1/2": ( "localhost", 44819 ) }
    try:
        route			= ucmm.UCMM( route={ "1/1-2": "localhost:44819" } ).route
    except Exception as exc:
        print( "OBSERVED: UCMM( route={...} ) raised %s: %s" % ( type( exc ).__name__, exc ))
        print( "EXPECTED: a UCMM with the route table %r" % ( expected, ))
        return 1
    if route != expected:
        print( "OBSERVED: UCMM( route={...} ).route == %r" % ( route, ))
        print( "EXPECTED: %r" % ( expected, ))
        return 1
    return 0


if __name__ == "__main__":
    sys.exit( main() )
