#!/usr/bin/env python
"""
C15 defect 3: "python -m cpppo.server.enip.client --send-path='' --route-path=false" (the invocation its own help text
prescribes for simple, non-routing devices: "to eliminate the *Logix-style Unconnected Send (service 0x52)
encapsulation") still wraps every request in an Unconnected Send addressed to the Connection Manager @6/1.

client.main() computes

    send_path = args.send_path if args.send_path else '' if args.simple else None

so the explicitly given empty --send-path is taken for "not given" (None), and client.unconnected_send() replaces it by
the default '@6/1' (the same line is found in get_attribute.main and poll.main).

Merely keeping the '' is not enough: client.unconnected_send( route_path='false', send_path='' ) then fails with
"Must supply a send_path (or None for default), if route_path supplied", because it tests the truth of the route path
*text* ('false', '0', '[]' are non-empty strings) before device.parse_route_path turns it into False / 0 / [].

The simulator below records, for every SendRRData it receives, whether the request arrived inside an Unconnected Send
(service 0x52) and with which route path.  Expected: the request arrives bare, as it does for -S.

Exits 1 (observed vs. expected) while the contradiction is present, 0 otherwise.
"""
from __future__ import print_function

import socket
import sys
import threading
import time

from cpppo.dotdict import apidict
from cpppo.server.enip import client, ucmm
from cpppo.server.enip.main import main as enip_main

HOST,PORT			= 'localhost', 44858
seen				= []


class UCMM_spy( ucmm.UCMM ):
    """Accepts anything; remembers the encapsulation of each unconnected request"""
    def request( self, data, addr=None ):
        us			= data.get( 'enip.CIP.send_data.CPF.item[1].unconnected_send' ) if data else None
        if us is not None:
            seen.append( ( us.get( 'service' ), us.get( 'path.segment' ), us.get( 'route_path.segment' )))
        return super( UCMM_spy, self ).request( data, addr=addr )


def main():
    control			= apidict( 1.0, { 'done': False } )
    thread			= threading.Thread( target=enip_main, kwargs=dict(
        argv	= [ '--no-udp', '-a', '%s:%d' % ( HOST, PORT ), 'T=INT[4]' ],
        UCMM_class = UCMM_spy, server = { 'control': control } ))
    thread.daemon		= True
    thread.start()
    for _ in range( 200 ):
        try:
            socket.create_connection( ( HOST, PORT ), timeout=.5 ).close()
            break
        except Exception:
            time.sleep( .05 )

    address			= '%s:%d' % ( HOST, PORT )
    try:
        del seen[:]
        rc_simple		= client.main( argv=[ '-a', address, '-S', 'T[0]=(INT)7' ] )
        simple			= list( seen )
        del seen[:]
        rc_explicit		= client.main( argv=[ '-a', address, '--send-path=', '--route-path=false', 'T[0]=(INT)8' ] )
        explicit		= list( seen )
    finally:
        control['done']		= True

    print( "client -S                                 : exit %r, arrived as (Unconnected Send service, send path, route path): %r" % (
        rc_simple, simple ))
    print( "client --send-path='' --route-path=false  : exit %r, arrived as (Unconnected Send service, send path, route path): %r" % (
        rc_explicit, explicit ))
    assert rc_simple == 0 and simple and all( s == (None,None,None) for s in simple ), \
        "the -S client did not send a bare request?"
    if any( s[0] == 0x52 for s in explicit ):
        print( "OBSERVED: with --send-path='' --route-path=false the request arrived in an Unconnected Send (0x52) to %r" % (
            explicit[0][1], ))
        print( "EXPECTED: no Unconnected Send encapsulation (as documented in the client's help text, and as sent for -S)" )
        return 1
    return 0


if __name__ == "__main__":
    sys.exit( main() )
