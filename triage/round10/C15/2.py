#!/usr/bin/env python
"""
C15 defect 2: the gateway's route table does not tell a numeric link from a link *address* that spells the same digits.

  gateway:  [UCMM] Route Path = 1/0,  Route = { "1/1": <target> }        ( port 1, numeric link 1 --> target )
  request:  Unconnected Send with route path  [ port 1, link address "1" ]  ( segment 0x11 0x01 '1' 0x00 )

The request's route path differs in link kind both from the configured route path (1/0) and from the only route (1/1,
numeric): it must be refused with an error status, and no tag may be written anywhere.  UCMM.request / find_route looks
the segment up as text "{port}/{link}" == "1/1", finds the numeric route, and forwards the request to the target.

Exits 1 (observed vs. expected) while the contradiction is present, 0 otherwise.
"""
from __future__ import print_function

import os
import socket
import subprocess
import sys
import tempfile
import time

from cpppo.dotdict import dotdict
from cpppo.server.enip import client, parser, device, logix

HOST				= 'localhost'
GATEWAY,TARGET			= 44848, 44849
TIMEOUT				= 5.0


def simulator( port, *argv ):
    command			= subprocess.Popen(
        [ sys.executable, '-m', 'cpppo.server.enip', '--no-udp', '-a', '%s:%d' % ( HOST, port ) ] + list( argv ),
        stdout=open( os.devnull, 'w' ), stderr=subprocess.STDOUT )
    for _ in range( 200 ):
        try:
            socket.create_connection( ( HOST, port ), timeout=.5 ).close()
            return command
        except Exception:
            assert command.poll() is None, "simulator %r failed to start" % ( argv, )
            time.sleep( .1 )
    command.kill()
    raise AssertionError( "simulator %r not reachable" % ( argv, ))


def status_of( rsp ):
    if not rsp:
        return None,None
    rpy				= rsp.get( 'enip.CIP.send_data.CPF.item[1].unconnected_send.request' )
    return rsp.enip.status, ( rpy.get( 'status' ) if rpy else None )


def write_raw( port, value, segments ):
    """Write T[0] in an Unconnected Send whose route path consists of exactly the given segments (the client API would
    pass them through device.port_link, which turns the link address "1" into the number 1)."""
    with client.connector( host=HOST, port=port, timeout=TIMEOUT ) as conn:
        req			= conn.write( 'T[0]', data=[value], elements=1, tag_type=parser.INT.tag_type, send=False )
        req.input		= bytearray( logix.Logix.produce( req ))
        cip			= dotdict()
        cip.send_data		= {}
        sd			= cip.send_data
        sd.interface		= 0
        sd.timeout		= 8
        sd.CPF			= {}
        sd.CPF.item		= [ dotdict(), dotdict() ]
        sd.CPF.item[0].type_id	= 0x00
        sd.CPF.item[1].type_id	= 0xb2
        sd.CPF.item[1].unconnected_send = {}
        us			= sd.CPF.item[1].unconnected_send
        us.service		= 0x52
        us.status		= 0
        us.priority		= 5
        us.timeout_ticks	= 157
        us.path			= { 'segment': [ dotdict( s ) for s in device.parse_path( '@6/1' ) ] }
        us.route_path		= { 'segment': [ dotdict( s ) for s in segments ] }
        us.request		= req
        conn.cip_send( cip=cip, timeout=TIMEOUT )
        rsp,_			= client.await_response( conn, timeout=TIMEOUT )
    return status_of( rsp )


def value( port, route_path, send_path=None ):
    with client.connector( host=HOST, port=port, timeout=TIMEOUT ) as conn:
        conn.read( 'T[0]', elements=1, offset=None, route_path=route_path, send_path=send_path )
        rsp,_			= client.await_response( conn, timeout=TIMEOUT )
    assert status_of( rsp ) == (0,0), "could not read T[0] back from port %d" % ( port )
    return rsp.enip.CIP.send_data.CPF.item[1].unconnected_send.request.read_tag.data[0]


def main():
    # The wire form of the request's route path really is a port segment with a link address
    wire			= parser.route_path.produce( { 'segment': [ dotdict( port=1, link='1' ) ] } )
    assert bytes( wire ) == b'\x02\x00\x11\x01\x31\x00', "unexpected encoding: %r" % ( wire, )

    cfg				= os.path.join( tempfile.mkdtemp(), 'gateway.cfg' )
    with open( cfg, 'w' ) as f:
        f.write( '[UCMM]\nRoute Path = 1/0\nRoute = {\n    "1/1": "%s:%d"\n    }\n' % ( HOST, TARGET ))
    running			= []
    try:
        running.append( simulator( TARGET,  '-S', 'T=INT[4]' ))
        running.append( simulator( GATEWAY, '--config', cfg, 'T=INT[4]' ))

        # numeric 1/1 is routed, as configured
        numeric			= write_raw( GATEWAY, 41, [ { 'port': 1, 'link': 1 } ] )
        assert numeric == (0,0) and value( TARGET, False, '' ) == 41, "the numeric route 1/1 does not work: %r" % ( numeric, )

        # port 1 / link address "1" names neither the gateway (1/0) nor the route (numeric link 1)
        address			= write_raw( GATEWAY, 42, [ { 'port': 1, 'link': '1' } ] )
        tgt			= value( TARGET, False, '' )
        gwy			= value( GATEWAY, '1/0' )
        print( "route path [port 1, link address '1']: status %r; target T[0] == %r, gateway T[0] == %r" % ( address, tgt, gwy ))
    finally:
        for command in running:
            command.kill()
            command.wait()

    if address[0] == 0 or tgt == 42 or gwy == 42:
        print( "OBSERVED: the request with route path [port 1, link address '1'] was answered with status %r; target T[0] == %r" % (
            address, tgt ))
        print( "EXPECTED: refused with an error status (it is neither the configured route path 1/0 nor the route 1/<numeric 1>); target T[0] == 41" )
        return 1
    return 0


if __name__ == "__main__":
    sys.exit( main() )
