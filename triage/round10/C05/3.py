#!/usr/bin/env python
"""C05 defect 3: a tag's forced error code cannot be taken back.  README ( api/tags/<tagname>/error ):
"Restore it to return success:  curl http://localhost:12345/api/tags/SCADA/error/0".  logix.setup_tag
only ever assigns a truthy error to the Attribute; once tags.SCADA.error was 8 and is 0 again, the
Attribute keeps error 8 and every later read or write of the tag fails - the tag stays unreadable.
( While the error is forced, a Write Tag answered with the failure status stores its data all the same. )

Input:    tags.SCADA.error = 8; a request; tags.SCADA.error = 0; Read Tag SCADA[0-2]
Expected: status 0x00 and the data after the error code is restored to 0
Observed: status 0x08
"""
from __future__ import print_function
import sys
import cpppo
from cpppo.server import enip
from cpppo.server.enip import logix, device, parser

def transact( obj, request ):
    encoded			= obj.produce( cpppo.dotdict( request ))
    data			= cpppo.dotdict()
    with obj.parser as machine:
        for _ in machine.run( source=cpppo.rememberable( encoded ), data=data ):
            pass
    obj.request( data )
    return data

def main():
    enip.lookup_reset()
    logix.setup_reset()
    tags			= cpppo.dotdict()
    entry			= cpppo.dotdict()
    entry.attribute		= device.Attribute( 'SCADA', parser.INT, default=[1, 2, 3] )
    entry.path			= None
    entry.error			= 0
    dict.__setitem__( tags, 'SCADA', entry )		# as enip.main does

    read			= dict( path={'segment': [ {'symbolic': 'SCADA'}, {'element': 0} ]}, read_tag=dict( elements=3 ))
    logix.setup( tags=tags )				# as logix.process does before every request
    obj				= device.lookup( 0x02, 1 )
    s0				= transact( obj, read ).status
    tags.SCADA.error		= 8			# api/tags/SCADA/error=8
    logix.setup( tags=tags )
    s1				= transact( obj, read ).status
    tags.SCADA.error		= 0			# api/tags/SCADA/error/0
    logix.setup( tags=tags )
    s2				= transact( obj, read ).status
    print( "Read Tag SCADA[0-2]: status 0x%02x; with error=8: 0x%02x; after error=0: 0x%02x" % ( s0, s1, s2 ))
    if ( s0, s1 ) != ( 0, 8 ):
        print( "unexpected preliminaries" )
        return 2
    if s2 != 0:
        print( "CONTRADICTION: after the forced error code was restored to 0 the tag still answers 0x%02x; expected 0x00" % s2 )
        return 1
    return 0

if __name__ == "__main__":
    sys.exit( main() )
