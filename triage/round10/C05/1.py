#!/usr/bin/env python
"""C05 defect 1: a Write Tag whose SSTRING payload ends before the announced .length octets is
acknowledged with success (the sibling STRING case is refused since 6db9b7e).

Input:    Write Tag LABELS[0], type SSTRING (0xDA), 1 element, payload  03 'a' 'b'  (length 3, 2 octets)
Expected: the request is not a complete SSTRING; it is refused and LABELS stays ['one', 'two']
Observed: status 0x00, LABELS == ['ab', 'two']
"""
from __future__ import print_function
import sys
import cpppo
from cpppo.server import enip
from cpppo.server.enip import logix, device, parser

def main():
    enip.lookup_reset()
    obj				= logix.Logix( instance_id=1 )
    att = obj.attribute['1']	= device.Attribute( 'LABELS', parser.SSTRING, default=['one', 'two'] )
    device.redirect_tag( 'LABELS', {'class': obj.class_id, 'instance': obj.instance_id, 'attribute': 1} )

    epath			= parser.EPATH.produce( cpppo.dotdict( segment=[ {'symbolic': 'LABELS'}, {'element': 0} ] ))
    bad				= []
    for payload in ( b'\x03ab', b'\xffabc', b'\x01' ):
        att.value[:]		= ['one', 'two']
        request			= ( b'\x4d' + epath + parser.UINT.produce( parser.SSTRING.tag_type )
                                    + parser.UINT.produce( 1 ) + payload )
        data			= cpppo.dotdict()
        try:
            with obj.parser as machine:
                for _ in machine.run( source=cpppo.rememberable( request ), data=data ):
                    pass
        except Exception as exc:
            print( "payload %r: not parsed as a request (%s): fine" % ( payload, str( exc )[:60] ))
            continue
        obj.request( data )
        print( "payload %r: status 0x%02x, LABELS == %r" % ( payload, data.status, att.value ))
        if data.status == 0 or att.value != ['one', 'two']:
            bad.append( "SSTRING of .length %d carrying %d octets: status 0x%02x, LABELS %r; expected a refusal and %r" % (
                bytearray( payload )[0], len( payload ) - 1, data.status, att.value, ['one', 'two'] ))
    for b in bad:
        print( "CONTRADICTION: " + b )
    return 1 if bad else 0

if __name__ == "__main__":
    sys.exit( main() )
