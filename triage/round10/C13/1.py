#!/usr/bin/env python
"""C13 contradiction (unchanged code): over an Implicit ("connected") session - client.implicit, as used by
get_attribute.proxy_connected - replies are paired with requests by arrival order alone.

client.implicit.index_to_sender_context() gives every request the sender context b'', so the
context comparison in connector.harvest is vacuous; the CIP sequence count that connected_send puts
into every request (and that the peer echoes in connection_data.sequence) is never compared.  When one
reply of a pipelined exchange is lost entirely, every later reply is handed to the previous request:
proxy_connected.read yields another request's value as if it were this request's.

Run on the clean checkout: exits 1 and prints observed-versus-expected while the contradiction is
present; would exit 0 if every value that is yielded belonged to its own request (and the loss ended
the stream with an error).
"""
from __future__ import print_function
import logging, select, socket, sys, threading, time

import cpppo
from cpppo.server.enip.main import main as enip_main
from cpppo.server.enip.get_attribute import proxy_connected

SRV_PORT, RLY_PORT = 44818, 44819
logging.basicConfig( level=logging.CRITICAL )


def start_server( tags ):
    control = cpppo.apidict( timeout=1.0 )
    control['done'] = False
    thr = threading.Thread( target=enip_main, kwargs=dict(
        argv=[ '--no-udp', '--address', 'localhost:%d' % SRV_PORT ] + list( tags ),
        server=cpppo.dotdict( control=control )))
    thr.daemon = True
    thr.start()
    for _ in range( 100 ):
        try:
            socket.create_connection( ('localhost', SRV_PORT), timeout=.2 ).close()
            return control
        except Exception:
            time.sleep( .1 )
    raise RuntimeError( "simulator did not start" )


class relay( threading.Thread ):
    """TCP relay RLY_PORT --> SRV_PORT that swallows whole EtherNet/IP frames of the server-to-client
    stream: those whose number (0 is the first frame of the connection) is in self.drop[<connection>]"""
    def __init__( self ):
        super( relay, self ).__init__()
        self.daemon = True
        self.drop = {}
        self.conns = 0
        self.lsn = socket.socket()
        self.lsn.setsockopt( socket.SOL_SOCKET, socket.SO_REUSEADDR, 1 )
        self.lsn.bind( ('localhost', RLY_PORT) )
        self.lsn.listen( 5 )
        self.start()

    def run( self ):
        while True:
            cli,_ = self.lsn.accept()
            thr = threading.Thread( target=self.serve, args=(cli, self.drop.get( self.conns, () )))
            self.conns += 1
            thr.daemon = True
            thr.start()

    def serve( self, cli, drop ):
        srv = socket.create_connection( ('localhost', SRV_PORT) )
        buf,num = b'',0
        try:
            while True:
                r,_,_ = select.select( [cli,srv], [], [] )
                for s in r:
                    dat = s.recv( 4096 )
                    if not dat:
                        return
                    if s is cli:
                        srv.sendall( dat )
                        continue
                    buf += dat
                    while len( buf ) >= 24 and len( buf ) >= 24 + bytearray( buf )[2] + 256 * bytearray( buf )[3]:
                        siz = 24 + bytearray( buf )[2] + 256 * bytearray( buf )[3]
                        frm,buf = buf[:siz],buf[siz:]
                        if num not in drop:
                            cli.sendall( frm )
                        num += 1
        finally:
            cli.close()
            srv.close()


def main():
    start_server( [ 'A=DINT[10]', 'B=INT[10]' ] )
    rly = relay()
    tags = [ 'A[0-9]=(DINT)10,11,12,13,14,15,16,17,18,19', 'B[0-9]=(INT)0,1,2,3,4,5,6,7,8,9',
             'A[0-4]', 'B[2]', 'A[9]', 'B[0-9]', 'A[3]' ]
    expect = [ True, True, [10,11,12,13,14], [2], [19], [0,1,2,3,4,5,6,7,8,9], [13] ]

    def reading( drop ):
        rly.drop[rly.conns] = drop
        via = proxy_connected( host='localhost', port=RLY_PORT, timeout=1.0, depth=3 )
        got,err = [],None
        try:
            for val in via.read( tags ):
                got.append( val )
        except Exception as exc:
            err = exc
        via.close_gateway()
        return got,err

    got,err = reading( () )
    assert got == expect and err is None, "unexpected without any fault: %r, %r" % ( got, err )

    # Frames on a connected session: 0 Register, 1 List Identity, 2 Forward Open, 3.. the replies
    failed = 0
    for lost in range( 3, 3 + len( tags )):
        got,err = reading( (lost,) )
        wrong = [ (tags[i], g, expect[i]) for i,g in enumerate( got ) if g != expect[i] ]
        if wrong or ( err is None and len( got ) != len( expect )):
            failed += 1
            print( "reply #%d (to %r) lost entirely:" % ( lost - 3, tags[lost - 3] ))
            for tag,g,e in wrong:
                print( "    observed: %-8s yielded %r;  expected: %r (or an error)" % ( tag, g, e ))
            print( "    the stream then ended with: %s" % (
                "no error" if err is None else "%s: %s" % ( type( err ).__name__, str( err ).split( '\n' )[0] )))
    if failed:
        print( "FAILED: proxy_connected.read yielded values belonging to other requests in %d of %d cases" % (
            failed, len( tags )))
        return 1
    print( "OK: no value was yielded for a request it did not belong to" )
    return 0


if __name__ == "__main__":
    sys.exit( main() )
