#!/usr/bin/env python
"""
C12 defect 1 (unchanged code): the Unconnected Send parameters of an operation -- priority_time_tick and
timeout_ticks, as set by client.main --priority-time-tick / --timeout-ticks, by parse_operations( ...,
timeout_ticks=... ) or by get_attribute.proxy( ..., timeout_ticks=... ) -- reach the wire when the
operations are issued one by one, and are silently replaced by the defaults as soon as the very same
operations are bundled ( multiple=... / --multiple ).

Expected: the encapsulation of a request does not depend on bundling.
Exits 1 while the contradiction is present.
"""
from __future__ import print_function
import logging, socket, sys, threading, time

import cpppo
from cpppo.server import enip
from cpppo.server.enip import client
from cpppo.server.enip.main import main as enip_main

logging.basicConfig( level=logging.ERROR )
ADDR				= ('localhost', 12512)

def start():
    control			= cpppo.apidict( enip.timeout, { 'done': False } )
    thr				= threading.Thread( target=enip_main, kwargs=dict(
        argv=[ '--address', '%s:%d' % ADDR, 'Int=INT[10]' ], server={ 'control': control } ))
    thr.daemon			= True
    thr.start()
    for _ in range( 100 ):
        try:
            socket.create_connection( ADDR, timeout=.2 ).close()
            break
        except Exception:
            time.sleep( .1 )
    return control

class recording( client.connector ):
    """Remembers the (priority,timeout_ticks) of every Unconnected Send it transmits."""
    def cip_send( self, cip, **kwds ):
        us			= cip.get( 'send_data.CPF.item[1].unconnected_send' )
        if us and 'timeout_ticks' in us:
            self.ticks.append( (us.priority, us.timeout_ticks) )
        return super( recording, self ).cip_send( cip=cip, **kwds )

def ticks_used( multiple ):
    with recording( host=ADDR[0], port=ADDR[1], timeout=5 ) as conn:
        conn.ticks		= []
        operations		= client.parse_operations(
            [ 'Int[0]', 'Int[1]', 'Int[2]=3' ], priority_time_tick=7, timeout_ticks=99 )
        failures,results	= conn.process( operations, depth=2, multiple=multiple, timeout=5 )
        assert failures == 0, "I/O failed: %r" % ( results, )
        return sorted( set( conn.ticks ))

control				= start()
try:
    single			= ticks_used( multiple=0 )
    bundle			= ticks_used( multiple=500 )
finally:
    control['done']		= True
print( "requested (priority_time_tick,timeout_ticks): (7, 99)" )
print( "on the wire, multiple=0  : %r" % ( single, ))
print( "on the wire, multiple=500: %r" % ( bundle, ))
if single != bundle:
    print( "CONTRADICTION: bundling replaced the requested Unconnected Send timing by the defaults; expected %r both times" % ( single, ))
    sys.exit( 1 )
sys.exit( 0 )
