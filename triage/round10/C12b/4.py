#!/usr/bin/env python
"""
C12 defect 4 (unchanged code): client.main never tells parse_operations about --fragment.  The client's own
--help says

    If an element range [<first>] or [<first>-<last>] was specified and --no-fragment selected, then the
    exact correct number of elements must be provided.

ie. with --fragment a write may carry only the first part of the range ( a partial Write Tag Fragmented;
that is what parse_operations( ..., fragment=True ) implements ).  But main() calls parse_operations without
fragment=, so the exact-count check of the unfragmented form is applied although --fragment was given:
'Int[0-9]=1,2,3' is refused, while the very same request spelled with an explicit '+0' is accepted.

Expected: client --fragment 'Int[0-9]=1,2,3' writes Int[0..2] ( as 'Int[0-9]+0=1,2,3' does ).
Exits 1 while the contradiction is present.
"""
from __future__ import print_function
import logging, socket, sys, threading, time

import cpppo
from cpppo.server import enip
from cpppo.server.enip import client
from cpppo.server.enip.main import main as enip_main

logging.basicConfig( level=logging.ERROR )
ADDR				= ('localhost', 12515)

def start():
    control			= cpppo.apidict( enip.timeout, { 'done': False } )
    thr				= threading.Thread( target=enip_main, kwargs=dict(
        argv=[ '--address', '%s:%d' % ADDR, 'Int=INT[10]' ], server={ 'control': control } ))
    thr.daemon			= True
    thr.start()
    for _ in range( 100 ):
        try:
            socket.create_connection( ADDR, timeout=.2 ).close()
            break
        except Exception:
            time.sleep( .1 )
    return control

def client_main( *argv ):
    try:
        return client.main( [ '-a', '%s:%d' % ADDR ] + list( argv ))
    except BaseException as exc:
        return "%s: %s" % ( type( exc ).__name__, exc )

def read_back():
    with client.connector( host=ADDR[0], port=ADDR[1], timeout=5 ) as conn:
        value,			= conn.results( client.parse_operations( [ 'Int[0-3]' ] ), timeout=5 )
        return value

control				= start()
try:
    explicit			= client_main( '--fragment', 'Int[0-9]+0=1,2,3' )
    after_explicit		= read_back()
    implicit			= client_main( '--fragment', 'Int[0-9]=4,5,6' )
    after_implicit		= read_back()
finally:
    control['done']		= True
print( "client --fragment Int[0-9]+0=1,2,3 --> %r; Int[0-3] == %r" % ( explicit, after_explicit ))
print( "client --fragment Int[0-9]=4,5,6   --> %r; Int[0-3] == %r   ( expected 0 and [4, 5, 6, 0] )" % (
    implicit, after_implicit ))
if implicit != 0 or after_implicit != [4, 5, 6, 0]:
    print( "CONTRADICTION: --fragment does not lift the exact-count restriction its --help reserves for --no-fragment" )
    sys.exit( 1 )
sys.exit( 0 )
