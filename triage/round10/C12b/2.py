#!/usr/bin/env python
"""
C12 defect 2 (unchanged code): connector.issue forgets the size of the operation that caused a Multiple
Service Packet to be flushed.  That operation opens the next packet, but the packet's request / reply
estimates restart at the bare overhead ( reqmin / rpymin ) instead of overhead + this operation, so the
next operation is always admitted: every packet after the first may hold one operation more than the
'multiple' limit allows.

Here every operation reads 100 DINTs ( estimated reply 4 + 400; 68 + 404 = 472 of 500 ): no two of them fit
into one packet, and the first packet indeed carries one - but all later packets carry two, with replies
of ~900 octets against a limit of 500.

Expected: one operation per packet, ie. request indices 0,1,2,3,4 ( as multiple=500 promises ).
Exits 1 while the contradiction is present.
"""
from __future__ import print_function
import logging, socket, sys, threading, time

import cpppo
from cpppo.server import enip
from cpppo.server.enip import client
from cpppo.server.enip.main import main as enip_main

logging.basicConfig( level=logging.ERROR )
ADDR				= ('localhost', 12513)

def start():
    control			= cpppo.apidict( enip.timeout, { 'done': False } )
    thr				= threading.Thread( target=enip_main, kwargs=dict(
        argv=[ '--address', '%s:%d' % ADDR, 'DInt=DINT[100]' ], server={ 'control': control } ))
    thr.daemon			= True
    thr.start()
    for _ in range( 100 ):
        try:
            socket.create_connection( ADDR, timeout=.2 ).close()
            break
        except Exception:
            time.sleep( .1 )
    return control

class recording( client.connector ):
    """Remembers the size of every response frame it receives."""
    rcvd			= 0
    def recvfrom( self, timeout=None ):
        rcvd,addr		= super( recording, self ).recvfrom( timeout=timeout )
        if rcvd:
            self.rcvd	       += len( rcvd )
        return rcvd,addr

limit				= 500
control				= start()
try:
    with recording( host=ADDR[0], port=ADDR[1], timeout=5 ) as conn:
        conn.rcvd		= 0
        operations		= client.parse_operations(
            [ 'DInt[0-99]' ] * 5, tag_type=enip.DINT.tag_type )
        indices			= []
        sizes			= {}
        for idx,dsc,req,rpy,sts,val in conn.synchronous( operations, multiple=limit, timeout=5 ):
            assert sts == 0 and len( val ) == 100, "I/O failed: %r: %r" % ( sts, val )
            indices.append( idx )
            sizes[idx]		= sizes.get( idx, 0 ) + conn.rcvd
            conn.rcvd		= 0
finally:
    control['done']		= True

print( "5 x read of 100 DINTs, multiple=%d; every operation alone is estimated at 472 octets of reply" % ( limit ))
print( "request index of each operation: %r   ( expected [0, 1, 2, 3, 4] )" % ( indices, ))
print( "octets of response per request : %r" % ( [ sizes[i] for i in sorted( sizes ) ], ))
if indices != [0, 1, 2, 3, 4]:
    print( "CONTRADICTION: packets after the first hold two operations that do not fit the limit together" )
    sys.exit( 1 )
sys.exit( 0 )
