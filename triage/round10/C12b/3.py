#!/usr/bin/env python
"""
C12 defect 3 (unchanged code): client.main ( and get_attribute.main / poll.main, which copy the
expression ) cannot be told "no Send Path".  Their --help says

    --send-path   Send Path to UCMM (default: @6/1); Specify an empty string '' for no Send Path
    ... you may want to specify:   --send-path='' --route-path=false
    to eliminate the *Logix-style Unconnected Send (service 0x52) encapsulation

but main() computes  send_path = args.send_path if args.send_path else '' if args.simple else None,  so
the empty string is taken for "not given" and becomes None == "use the default @6/1": every request still
goes out wrapped in an Unconnected Send (0x52) to @6/1, which a simple ( non-routing ) device refuses.
Only the later -S|--simple option produces what the documented spelling promises.

Expected: --send-path='' --route-path=false produces the same bare requests as --simple.
Exits 1 while the contradiction is present.
"""
from __future__ import print_function
import logging, socket, sys, threading, time

import cpppo
from cpppo.server import enip
from cpppo.server.enip import client
from cpppo.server.enip.main import main as enip_main

logging.basicConfig( level=logging.ERROR )
ADDR				= ('localhost', 12514)

def start():
    control			= cpppo.apidict( enip.timeout, { 'done': False } )
    thr				= threading.Thread( target=enip_main, kwargs=dict(
        argv=[ '--address', '%s:%d' % ADDR, 'Scalar=DINT' ], server={ 'control': control } ))
    thr.daemon			= True
    thr.start()
    for _ in range( 100 ):
        try:
            socket.create_connection( ADDR, timeout=.2 ).close()
            break
        except Exception:
            time.sleep( .1 )
    return control

# Observe what main's connector puts on the wire: the Unconnected Send wrapper ( service, path ) of each request
wrappers			= []
cip_send_orig			= client.client.cip_send
def cip_send( self, cip, **kwds ):
    us				= cip.get( 'send_data.CPF.item[1].unconnected_send' )
    if us is not None:
        path			= us.get( 'path.segment' )
        wrappers.append( ( us.get( 'service' ), client.format_path( path ) if path else None ))
    return cip_send_orig( self, cip=cip, **kwds )
client.client.cip_send		= cip_send

def wrapper_of( *options ):
    del wrappers[:]
    rc				= client.main( [ '-a', '%s:%d' % ADDR ] + list( options ) + [ 'Scalar' ] )
    assert rc == 0, "client.main %r failed: %r" % ( options, rc )
    return list( wrappers )

control				= start()
try:
    simple			= wrapper_of( '--simple' )
    spelled			= wrapper_of( "--send-path=", "--route-path=false" )
finally:
    control['done']		= True
print( "--simple                            : (service,send path) == %r" % ( simple, ))
print( "--send-path='' --route-path=false   : (service,send path) == %r" % ( spelled, ))
if spelled != simple:
    print( "CONTRADICTION: the documented spelling for 'no Send Path' still wraps the request in an Unconnected Send (0x52 == 82) to the default @6/1" )
    sys.exit( 1 )
sys.exit( 0 )
