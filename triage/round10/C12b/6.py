#!/usr/bin/env python
"""
C12 defect 6 (unchanged code, minor): connector.pipeline promises "allowing up to 'depth' outstanding requests
to be in the pipeline" ( client --depth: "Pipeline requests to this depth" ), but it tests  curr - last > depth
only after the next request has been transmitted: depth+1 requests are outstanding before the first reply is
awaited ( --depth 1, the client's default, keeps two requests in flight; there is no way to ask the pipeline
for one ).  Results are not affected; a device that accepts only N unanswered requests is over-run by one.

Expected: never more than 'depth' requests transmitted and not yet answered.
Exits 1 while the contradiction is present.
"""
from __future__ import print_function
import logging, socket, sys, threading, time

import cpppo
from cpppo.server import enip
from cpppo.server.enip import client
from cpppo.server.enip.main import main as enip_main

logging.basicConfig( level=logging.ERROR )
ADDR				= ('localhost', 12517)

def start():
    control			= cpppo.apidict( enip.timeout, { 'done': False } )
    thr				= threading.Thread( target=enip_main, kwargs=dict(
        argv=[ '--address', '%s:%d' % ADDR, 'Int=INT[10]' ], server={ 'control': control } ))
    thr.daemon			= True
    thr.start()
    for _ in range( 100 ):
        try:
            socket.create_connection( ADDR, timeout=.2 ).close()
            break
        except Exception:
            time.sleep( .1 )
    return control

class counting( client.connector ):
    """Counts the requests transmitted and the responses received; remembers the most ever outstanding."""
    sent = rcvd = most		= 0
    def cip_send( self, **kwds ):
        self.sent	       += 1
        self.most		= max( self.most, self.sent - self.rcvd )
        return super( counting, self ).cip_send( **kwds )
    def __next__( self ):
        response		= super( counting, self ).__next__()
        if response:
            self.rcvd	       += 1
        return response
    next			= __next__

control				= start()
observed			= {}
try:
    for depth in (1,2,5):
        with counting( host=ADDR[0], port=ADDR[1], timeout=5 ) as conn:
            conn.sent = conn.rcvd = conn.most = 0 # forget the session registration
            results		= list( conn.pipeline(
                client.parse_operations( [ 'Int[%d]' % ( i % 10 ) for i in range( 20 ) ] ), depth=depth, timeout=5 ))
            assert len( results ) == 20
            observed[depth]	= conn.most
finally:
    control['done']		= True
for depth in sorted( observed ):
    print( "pipeline( ..., depth=%d ): at most %d requests outstanding   ( expected <= %d )" % (
        depth, observed[depth], depth ))
if any( most > depth for depth,most in observed.items() ):
    print( "CONTRADICTION: one request more than 'depth' is in flight" )
    sys.exit( 1 )
sys.exit( 0 )
