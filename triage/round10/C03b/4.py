# -*- coding: utf-8 -*-
"""
C03 / unchanged code, defect 4: a simulator started by a second main() call in the same process serves
values ( and tags ) of the first one.

main() collects its tags in the module-level dict cpppo.server.enip.main.tags and never empties it; and when
a tag names an explicit address, main() searches *that* dict for a tag at the same address to share its
Attribute with.  The repository's own tests start several simulators per process this way
( device.lookup_reset() between them ).

  1st main():  A@0x99/1/2=INT[3]  P=INT[2]      write A = 7,8,9 and P = 1,2; shut down
  2nd main():  A@0x99/1/2=INT[3]  P=INT[2]      ( CIP Objects reset in between ) read A and P

Expected: the new simulator's tags hold their initial zeroes: A == [0,0,0], P == [0,0].
Observed: P == [0,0] ( plain tags get a new Attribute ), but A == [7,8,9]: the addressed tag found its own
stale entry of the previous run "at the same address" and adopted that Attribute.  In the same way a 2nd
configuration B@0x99/1/2=INT[3] inherits A's old values, and the tags of the 1st configuration that the 2nd
one does not mention stay alive.
"""
from __future__ import print_function

import socket
import sys
import threading
import time

import cpppo
from cpppo.server.enip import client, device, logix, parser
from cpppo.server.enip.main import main as enip_main
import cpppo.server.enip.main as enip_main_module


def simulator_start( argv, port, fresh=True ):
    """Run cpppo.server.enip.main:main in a Thread of this process; returns (control,thread)."""
    device.lookup_reset()
    logix.setup_reset()
    if fresh:
        enip_main_module.tags.clear()
    control			= cpppo.apidict( 2.0, { 'done': False } )
    failure			= {}

    def run():
        try:
            enip_main( argv=[ '--no-config', '--no-udp', '--address', 'localhost:%d' % port ] + list( argv ),
                       server={ 'control': control } )
        except BaseException as exc:
            failure['exc']	= exc

    thread			= threading.Thread( target=run )
    thread.daemon		= True
    thread.start()
    for _ in range( 200 ):
        assert 'exc' not in failure, "Simulator failed to start: %r" % ( failure['exc'], )
        try:
            socket.create_connection( ('localhost', port), timeout=.2 ).close()
            return control,thread
        except Exception:
            time.sleep( .05 )
    raise AssertionError( "Simulator did not come up on port %d" % port )


def simulator_stop( control, thread ):
    control['done']		= True
    thread.join( 5 )


def io( port, *operations, **kwds ):
    """Run Read/Write Tag operations one by one; returns [(description, status, value), ...]; a session
    that breaks down yields a final ('session', <exception>, None)."""
    results			= []
    try:
        with client.connector( host='localhost', port=port, timeout=5 ) as conn:
            for idx,dsc,op,rpy,sts,val in conn.synchronous(
                    operations=client.parse_operations( operations, **kwds )):
                results.append( (dsc,sts,val) )
    except Exception as exc:
        results.append( ('session',exc,None) )
    return results


def main():
    config			= [ 'A@0x99/1/2=INT[3]', 'P=INT[2]' ]
    control,thread		= simulator_start( config, 44818 )
    try:
        first			= io( 44818, 'A[0-2]=(INT)7,8,9', 'P[0-1]=(INT)1,2', 'A[0-2]', 'P[0-1]' )
    finally:
        simulator_stop( control, thread )
    # A second simulator, as an application ( or a test ) would start it: CIP Objects reset, main() again
    control,thread		= simulator_start( config, 44819, fresh=False )
    try:
        second			= io( 44819, 'A[0-2]', 'P[0-1]' )
    finally:
        simulator_stop( control, thread )
    print( "1st simulator: %r" % ( first, ))
    print( "2nd simulator: %r" % ( second, ))
    assert [ r[1:] for r in first ] == [ (0,True), (0,True), (0,[7,8,9]), (0,[1,2]) ], "unexpected preliminaries"
    if [ r[1:] for r in second ] != [ (0,[0,0,0]), (0,[0,0]) ]:
        print( "DEFECT: the 2nd simulator reads A[0-2] == %r, P[0-1] == %r before anything was written to it; expected [0, 0, 0] and [0, 0]" % (
            second[0][2], second[1][2] ))
        return 1
    print( "OK" )
    return 0


if __name__ == "__main__":
    sys.exit( main() )
