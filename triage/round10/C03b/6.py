# -*- coding: utf-8 -*-
"""
C03 / unchanged code, defect 6: Set Attribute Single cannot write a SSTRING ( or STRING ) tag.

Configuration:   N=INT[2]   S=SSTRING[2]   T@0x99/1/7=SSTRING      ( README: "TEXT@22/1/2=SSTRING[100]" )

Get Attribute Single returns the octets of such a tag ( for S == ['ab','c']:  2,'a','b',1,'c' ), so the
octets that Set Attribute Single must take are well defined ( and they are what cpppo's own client sends for
"S=(SSTRING)..." ).  Object.request, however, converts the octets with att.parser.struct_calcsize /
.struct_format, which only the fixed-size numeric types have: for a SSTRING / STRING Attribute it raises,
and the request is answered with status 0x08 ( Service not supported ).

Expected: status 0, and the strings are read back by Read Tag and Get Attribute Single.
Observed: status 8; the tag keeps its old value.  ( The numeric tag N shows that the service as such works. )
"""
from __future__ import print_function

import socket
import sys
import threading
import time

import cpppo
from cpppo.server.enip import client, device, logix, parser
from cpppo.server.enip.main import main as enip_main
import cpppo.server.enip.main as enip_main_module


def simulator_start( argv, port, fresh=True ):
    """Run cpppo.server.enip.main:main in a Thread of this process; returns (control,thread)."""
    device.lookup_reset()
    logix.setup_reset()
    if fresh:
        enip_main_module.tags.clear()
    control			= cpppo.apidict( 2.0, { 'done': False } )
    failure			= {}

    def run():
        try:
            enip_main( argv=[ '--no-config', '--no-udp', '--address', 'localhost:%d' % port ] + list( argv ),
                       server={ 'control': control } )
        except BaseException as exc:
            failure['exc']	= exc

    thread			= threading.Thread( target=run )
    thread.daemon		= True
    thread.start()
    for _ in range( 200 ):
        assert 'exc' not in failure, "Simulator failed to start: %r" % ( failure['exc'], )
        try:
            socket.create_connection( ('localhost', port), timeout=.2 ).close()
            return control,thread
        except Exception:
            time.sleep( .05 )
    raise AssertionError( "Simulator did not come up on port %d" % port )


def simulator_stop( control, thread ):
    control['done']		= True
    thread.join( 5 )


def io( port, *operations, **kwds ):
    """Run Read/Write Tag operations one by one; returns [(description, status, value), ...]; a session
    that breaks down yields a final ('session', <exception>, None)."""
    results			= []
    try:
        with client.connector( host='localhost', port=port, timeout=5 ) as conn:
            for idx,dsc,op,rpy,sts,val in conn.synchronous(
                    operations=client.parse_operations( operations, **kwds )):
                results.append( (dsc,sts,val) )
    except Exception as exc:
        results.append( ('session',exc,None) )
    return results


from cpppo.server.enip.get_attribute import attribute_operations

def aio( port, *operations ):
    """Run Get/Set Attribute Single operations one by one; returns [(description, status, value), ...]"""
    results			= []
    try:
        with client.connector( host='localhost', port=port, timeout=5 ) as conn:
            for idx,dsc,op,rpy,sts,val in conn.synchronous( operations=attribute_operations( operations )):
                results.append( (dsc,sts,val) )
    except Exception as exc:
        results.append( ('session',exc,None) )
    return results


def main():
    port			= 44818
    control,thread		= simulator_start( [ 'N=INT[2]', 'S=SSTRING[2]', 'T@0x99/1/7=SSTRING' ], port )
    try:
        results			= aio( port, 'N=(INT)258,-2', 'S=(SSTRING)"ab","c"', '@0x99/1/7=(SSTRING)"xyz"', 'N', 'S', '@0x99/1/7' )
        results		       += io( port, 'N[0-1]', 'S[0-1]', 'T' )
    finally:
        simulator_stop( control, thread )
    for r in results:
        print( "%-32s status %r value %r" % r )
    expect			= [ (0, True), (0, True), (0, True),
                                    (0, [2, 1, 254, 255]), (0, [2, 97, 98, 1, 99]), (0, [3, 120, 121, 122]),
                                    (0, [258, -2]), (0, ['ab', 'c']), (0, ['xyz']) ]
    assert [ r[1:] for r in results ][0::3] == expect[0::3], "unexpected preliminaries: %r" % ( results, )
    if [ r[1:] for r in results ] != expect:
        print( "DEFECT: Set Attribute Single of SSTRING tags S and @0x99/1/7: observed %r; expected %r" % (
            [ r[1:] for r in results ], expect ))
        return 1
    print( "OK" )
    return 0


if __name__ == "__main__":
    sys.exit( main() )
