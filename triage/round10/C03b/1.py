# -*- coding: utf-8 -*-
"""
C03 / unchanged code, defect 1: a tag's forced error code can be set, but never taken back.

The tags dict handed to logix.setup ( via main() ) carries an 'error' code per tag; the README
( "api/tags/<tagname>/error" ) documents setting it to force an error status, and "Restore it to return
success: .../api/tags/SCADA/error/0".  setup()'s docstring: "If it's error code doesn't match, change it."

Here: write A, set tags.A.error = 8 ( what the web API does ), read -> status 8 ( fine ); set it back
to 0, read again.  Expected: status 0 and the values written.  Observed: status 8 for ever.
"""
from __future__ import print_function

import socket
import sys
import threading
import time

import cpppo
from cpppo.server.enip import client, device, logix, parser
from cpppo.server.enip.main import main as enip_main
import cpppo.server.enip.main as enip_main_module


def simulator_start( argv, port, fresh=True ):
    """Run cpppo.server.enip.main:main in a Thread of this process; returns (control,thread)."""
    device.lookup_reset()
    logix.setup_reset()
    if fresh:
        enip_main_module.tags.clear()
    control			= cpppo.apidict( 2.0, { 'done': False } )
    failure			= {}

    def run():
        try:
            enip_main( argv=[ '--no-config', '--no-udp', '--address', 'localhost:%d' % port ] + list( argv ),
                       server={ 'control': control } )
        except BaseException as exc:
            failure['exc']	= exc

    thread			= threading.Thread( target=run )
    thread.daemon		= True
    thread.start()
    for _ in range( 200 ):
        assert 'exc' not in failure, "Simulator failed to start: %r" % ( failure['exc'], )
        try:
            socket.create_connection( ('localhost', port), timeout=.2 ).close()
            return control,thread
        except Exception:
            time.sleep( .05 )
    raise AssertionError( "Simulator did not come up on port %d" % port )


def simulator_stop( control, thread ):
    control['done']		= True
    thread.join( 5 )


def io( port, *operations, **kwds ):
    """Run Read/Write Tag operations one by one; returns [(description, status, value), ...]; a session
    that breaks down yields a final ('session', <exception>, None)."""
    results			= []
    try:
        with client.connector( host='localhost', port=port, timeout=5 ) as conn:
            for idx,dsc,op,rpy,sts,val in conn.synchronous(
                    operations=client.parse_operations( operations, **kwds )):
                results.append( (dsc,sts,val) )
    except Exception as exc:
        results.append( ('session',exc,None) )
    return results


def main():
    port			= 44818
    control,thread		= simulator_start( [ 'A=INT[5]' ], port )
    try:
        first			= io( port, 'A[1-2]=(INT)7,8', 'A[0-4]' )
        enip_main_module.tags['A'].error = 8		# as: curl .../api/tags/A/error=8
        forced			= io( port, 'A[0-4]' )
        enip_main_module.tags['A'].error = 0		# as: curl .../api/tags/A/error/0
        restored		= io( port, 'A[0-4]' )
    finally:
        simulator_stop( control, thread )
    print( "written, read:       %r" % ( first, ))
    print( "error = 8, read:     %r" % ( forced, ))
    print( "error = 0, read:     %r" % ( restored, ))
    assert first[-1][1:] == (0, [0, 7, 8, 0, 0]) and forced[-1][1] != 0, "unexpected preliminaries"
    if restored[-1][1:] != (0, [0, 7, 8, 0, 0]):
        print( "DEFECT: after tags.A.error was set back to 0, reading A[0-4] yields status %r, value %r; expected status 0, value [0, 7, 8, 0, 0]" % (
            restored[-1][1], restored[-1][2] ))
        return 1
    print( "OK" )
    return 0


if __name__ == "__main__":
    sys.exit( main() )
