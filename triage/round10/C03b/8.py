# -*- coding: utf-8 -*-
"""
C03 / unchanged code, defect 8: once a simulator was run with -S ( or --route-path ), every later main()
of the same process refuses routed requests too - no tag can be read through them any more.

main() keeps its options in the module-level dict cpppo.server.enip.main.options and enters the UCMM class it
builds for -S / --route-path with options.setdefault( 'UCMM_class', ... ): the entry of the first call stays,
a later main() without -S finds it, and logix.setup creates the "simple" UCMM again.

  1st main():  -S A=INT[3]       a routed ( Unconnected Send ) request is refused: correct
  2nd main():     A=INT[3]       ( CIP Objects and UCMM reset in between ) the same request must be served

Expected: the 2nd simulator answers the routed Write / Read Tag with status 0.
Observed: EtherNet/IP status 0x08, as if -S were still in force.
"""
from __future__ import print_function

import socket
import sys
import threading
import time

import cpppo
from cpppo.server.enip import client, device, logix, parser
from cpppo.server.enip.main import main as enip_main
import cpppo.server.enip.main as enip_main_module


def simulator_start( argv, port, fresh=True ):
    """Run cpppo.server.enip.main:main in a Thread of this process; returns (control,thread)."""
    device.lookup_reset()
    logix.setup_reset()
    if fresh:
        enip_main_module.tags.clear()
    control			= cpppo.apidict( 2.0, { 'done': False } )
    failure			= {}

    def run():
        try:
            enip_main( argv=[ '--no-config', '--no-udp', '--address', 'localhost:%d' % port ] + list( argv ),
                       server={ 'control': control } )
        except BaseException as exc:
            failure['exc']	= exc

    thread			= threading.Thread( target=run )
    thread.daemon		= True
    thread.start()
    for _ in range( 200 ):
        assert 'exc' not in failure, "Simulator failed to start: %r" % ( failure['exc'], )
        try:
            socket.create_connection( ('localhost', port), timeout=.2 ).close()
            return control,thread
        except Exception:
            time.sleep( .05 )
    raise AssertionError( "Simulator did not come up on port %d" % port )


def simulator_stop( control, thread ):
    control['done']		= True
    thread.join( 5 )


def io( port, *operations, **kwds ):
    """Run Read/Write Tag operations one by one; returns [(description, status, value), ...]; a session
    that breaks down yields a final ('session', <exception>, None)."""
    results			= []
    try:
        with client.connector( host='localhost', port=port, timeout=5 ) as conn:
            for idx,dsc,op,rpy,sts,val in conn.synchronous(
                    operations=client.parse_operations( operations, **kwds )):
                results.append( (dsc,sts,val) )
    except Exception as exc:
        results.append( ('session',exc,None) )
    return results


def main():
    control,thread		= simulator_start( [ '-S', 'A=INT[3]' ], 44818 )
    try:
        simple			= io( 44818, 'A[0-2]=(INT)1,2,3', 'A[0-2]' )	# routed: route_path 1/0, send_path @6/1
        direct			= io( 44818, 'A[0-2]=(INT)1,2,3', 'A[0-2]', route_path=False, send_path='' )
    finally:
        simulator_stop( control, thread )
    control,thread		= simulator_start( [ 'A=INT[3]' ], 44819 )
    try:
        routed			= io( 44819, 'A[0-2]=(INT)4,5,6', 'A[0-2]' )
    finally:
        simulator_stop( control, thread )
    print( "1st simulator ( -S ), routed request:  %r" % ( simple, ))
    print( "1st simulator ( -S ), direct request:  %r" % ( direct, ))
    print( "2nd simulator,        routed request:  %r" % ( routed, ))
    assert [ r[1:] for r in direct ] == [ (0, True), (0, [1, 2, 3]) ], "unexpected preliminaries"
    if [ r[1:] for r in routed ] != [ (0, True), (0, [4, 5, 6]) ]:
        print( "DEFECT: the 2nd simulator ( started without -S ) answers a routed Write/Read Tag with %r; expected status 0 and [4, 5, 6]" % (
            [ r[1:] for r in routed ], ))
        return 1
    print( "OK" )
    return 0


if __name__ == "__main__":
    sys.exit( main() )
