# -*- coding: utf-8 -*-
"""
C03 / unchanged code, defect 5: of two tags one of whose names is a '.'-prefix of the other's, only the
shorter one can be reached.

Configuration:   a=INT[2]   a.b=DINT[2]        ( multi-segment symbolic names are supported: a tag "a.b" is
                                                 requested as the two symbolic segments 'a','b' )

device.resolve() joins symbolic segments one by one and stops at the first joined name that is a tag: for
the request path [ 'a', 'b' ] that is 'a'; the segment 'b' then finds no tag "b" and the request is
refused ( status 0x05 ).  Alone ( without a tag "a" ) the tag "a.b" works.

Expected: both tags can be written and read.  Observed: every request for a.b yields status 5.
"""
from __future__ import print_function

import socket
import sys
import threading
import time

import cpppo
from cpppo.server.enip import client, device, logix, parser
from cpppo.server.enip.main import main as enip_main
import cpppo.server.enip.main as enip_main_module


def simulator_start( argv, port, fresh=True ):
    """Run cpppo.server.enip.main:main in a Thread of this process; returns (control,thread)."""
    device.lookup_reset()
    logix.setup_reset()
    if fresh:
        enip_main_module.tags.clear()
    control			= cpppo.apidict( 2.0, { 'done': False } )
    failure			= {}

    def run():
        try:
            enip_main( argv=[ '--no-config', '--no-udp', '--address', 'localhost:%d' % port ] + list( argv ),
                       server={ 'control': control } )
        except BaseException as exc:
            failure['exc']	= exc

    thread			= threading.Thread( target=run )
    thread.daemon		= True
    thread.start()
    for _ in range( 200 ):
        assert 'exc' not in failure, "Simulator failed to start: %r" % ( failure['exc'], )
        try:
            socket.create_connection( ('localhost', port), timeout=.2 ).close()
            return control,thread
        except Exception:
            time.sleep( .05 )
    raise AssertionError( "Simulator did not come up on port %d" % port )


def simulator_stop( control, thread ):
    control['done']		= True
    thread.join( 5 )


def io( port, *operations, **kwds ):
    """Run Read/Write Tag operations one by one; returns [(description, status, value), ...]; a session
    that breaks down yields a final ('session', <exception>, None)."""
    results			= []
    try:
        with client.connector( host='localhost', port=port, timeout=5 ) as conn:
            for idx,dsc,op,rpy,sts,val in conn.synchronous(
                    operations=client.parse_operations( operations, **kwds )):
                results.append( (dsc,sts,val) )
    except Exception as exc:
        results.append( ('session',exc,None) )
    return results


def main():
    port			= 44818
    control,thread		= simulator_start( [ 'a=INT[2]', 'a.b=DINT[2]' ], port )
    try:
        results			= io( port, 'a[0-1]=(INT)1,2', 'a.b[0-1]=(DINT)70000,80000', 'a[0-1]', 'a.b[0-1]' )
    finally:
        simulator_stop( control, thread )
    for r in results:
        print( "%-32s status %r value %r" % r )
    expect			= [ (0, True), (0, True), (0, [1, 2]), (0, [70000, 80000]) ]
    if [ r[1:] for r in results ] != expect:
        print( "DEFECT: with tags 'a' and 'a.b' configured, observed %r; expected %r" % (
            [ r[1:] for r in results ], expect ))
        return 1
    print( "OK" )
    return 0


if __name__ == "__main__":
    sys.exit( main() )
