# -*- coding: utf-8 -*-
"""
C03 / unchanged code, defect 7: logix.setup( tags=... ) refuses the tag entries its docstring describes.

    "If a tags dict (or dotdict) is supplied, its key: { 'attribute': <Attribute>, 'error': <int> } items are
     used to initialize the given Tag names."

setup_tag reads the entry partly as a mapping ( val['attribute'], val['error'], val['path'] ) and partly as
an object ( val.attribute, in the branch that installs a new tag ): a plain dict entry - exactly what the
docstring shows - raises AttributeError, and so no tag is created.  Only dotdict entries work.

Expected: tag A exists afterwards, backed by the Attribute given.  Observed: AttributeError.
"""
from __future__ import print_function

import socket
import sys
import threading
import time

import cpppo
from cpppo.server.enip import client, device, logix, parser
from cpppo.server.enip.main import main as enip_main
import cpppo.server.enip.main as enip_main_module


def simulator_start( argv, port, fresh=True ):
    """Run cpppo.server.enip.main:main in a Thread of this process; returns (control,thread)."""
    device.lookup_reset()
    logix.setup_reset()
    if fresh:
        enip_main_module.tags.clear()
    control			= cpppo.apidict( 2.0, { 'done': False } )
    failure			= {}

    def run():
        try:
            enip_main( argv=[ '--no-config', '--no-udp', '--address', 'localhost:%d' % port ] + list( argv ),
                       server={ 'control': control } )
        except BaseException as exc:
            failure['exc']	= exc

    thread			= threading.Thread( target=run )
    thread.daemon		= True
    thread.start()
    for _ in range( 200 ):
        assert 'exc' not in failure, "Simulator failed to start: %r" % ( failure['exc'], )
        try:
            socket.create_connection( ('localhost', port), timeout=.2 ).close()
            return control,thread
        except Exception:
            time.sleep( .05 )
    raise AssertionError( "Simulator did not come up on port %d" % port )


def simulator_stop( control, thread ):
    control['done']		= True
    thread.join( 5 )


def io( port, *operations, **kwds ):
    """Run Read/Write Tag operations one by one; returns [(description, status, value), ...]; a session
    that breaks down yields a final ('session', <exception>, None)."""
    results			= []
    try:
        with client.connector( host='localhost', port=port, timeout=5 ) as conn:
            for idx,dsc,op,rpy,sts,val in conn.synchronous(
                    operations=client.parse_operations( operations, **kwds )):
                results.append( (dsc,sts,val) )
    except Exception as exc:
        results.append( ('session',exc,None) )
    return results


def main():
    device.lookup_reset()
    logix.setup_reset()
    attribute			= device.Attribute( 'A', parser.INT, default=[0, 0, 0] )
    try:
        logix.setup( tags={ 'A': { 'attribute': attribute, 'error': 0 } } )
        address			= device.resolve_tag( 'A' )
        found			= device.lookup( *address ) if address else None
    except Exception as exc:
        print( "DEFECT: logix.setup( tags={ 'A': { 'attribute': <Attribute>, 'error': 0 } } ) raised %r; expected tag A to be created" % ( exc, ))
        return 1
    if found is not attribute:
        print( "DEFECT: tag A resolves to %r, where %r is found; expected the Attribute supplied" % ( address, found ))
        return 1
    print( "OK: tag A at %r" % ( address, ))
    return 0


if __name__ == "__main__":
    sys.exit( main() )
