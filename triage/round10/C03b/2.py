# -*- coding: utf-8 -*-
"""
C03 / unchanged code, defect 2: a tag that is auto-allocated in the Message Router and a tag bound to an
explicit Message Router address end up as ONE array.

Configuration:   A=INT[5]   X@2/1/1=INT[5]

A has no address, so setup_tag gives it the next free Attribute of the Message Router ( class 2,
instance 1 ): Attribute 1.  X then claims @2/1/1 explicitly, finds "a compatible Attribute" there
( A's ) and replaces it: both names now address the same storage.  ( With the two tags listed in the other
order A gets Attribute 2, and all is well. )

Expected: two independent tags; a write to A changes only A.  Observed: the write to A shows up in X.
"""
from __future__ import print_function

import socket
import sys
import threading
import time

import cpppo
from cpppo.server.enip import client, device, logix, parser
from cpppo.server.enip.main import main as enip_main
import cpppo.server.enip.main as enip_main_module


def simulator_start( argv, port, fresh=True ):
    """Run cpppo.server.enip.main:main in a Thread of this process; returns (control,thread)."""
    device.lookup_reset()
    logix.setup_reset()
    if fresh:
        enip_main_module.tags.clear()
    control			= cpppo.apidict( 2.0, { 'done': False } )
    failure			= {}

    def run():
        try:
            enip_main( argv=[ '--no-config', '--no-udp', '--address', 'localhost:%d' % port ] + list( argv ),
                       server={ 'control': control } )
        except BaseException as exc:
            failure['exc']	= exc

    thread			= threading.Thread( target=run )
    thread.daemon		= True
    thread.start()
    for _ in range( 200 ):
        assert 'exc' not in failure, "Simulator failed to start: %r" % ( failure['exc'], )
        try:
            socket.create_connection( ('localhost', port), timeout=.2 ).close()
            return control,thread
        except Exception:
            time.sleep( .05 )
    raise AssertionError( "Simulator did not come up on port %d" % port )


def simulator_stop( control, thread ):
    control['done']		= True
    thread.join( 5 )


def io( port, *operations, **kwds ):
    """Run Read/Write Tag operations one by one; returns [(description, status, value), ...]; a session
    that breaks down yields a final ('session', <exception>, None)."""
    results			= []
    try:
        with client.connector( host='localhost', port=port, timeout=5 ) as conn:
            for idx,dsc,op,rpy,sts,val in conn.synchronous(
                    operations=client.parse_operations( operations, **kwds )):
                results.append( (dsc,sts,val) )
    except Exception as exc:
        results.append( ('session',exc,None) )
    return results


def main():
    port			= 44818
    control,thread		= simulator_start( [ 'A=INT[5]', 'X@2/1/1=INT[5]' ], port )
    try:
        results			= io( port, 'A[1-2]=(INT)7,8', 'A[0-4]', 'X[0-4]', '@2/1/1[0-4]' )
    finally:
        simulator_stop( control, thread )
    for r in results:
        print( "%-32s status %r value %r" % r )
    assert results[0][1] == 0 and results[1][1:] == (0, [0, 7, 8, 0, 0]), "unexpected preliminaries"
    if results[2][1:] != (0, [0, 0, 0, 0, 0]):
        print( "DEFECT: after writing 7,8 to A[1-2] only, tag X reads status %r, value %r; expected the never written X to read [0, 0, 0, 0, 0]" % (
            results[2][1], results[2][2] ))
        return 1
    print( "OK" )
    return 0


if __name__ == "__main__":
    sys.exit( main() )
