# -*- coding: utf-8 -*-
"""
C03 / unchanged code, defect 3: a tag bound to a new instance of the TCP/IP Interface class ( 0xF5 )
brings every session down.

Configuration:   T@0xF5/2/1=INT[2]       ( instance 1 of class 0xF5 is the simulator's own TCPIP Object )

setup_tag finds no instance 2, looks up the class-level ( "meta" ) Object of class 0xF5 to learn which
Python class to instantiate - and gets an *Attribute*: device.TCPIP.__init__ stores the class-level
'Revision' Attribute under key '0', which is where every Object keeps *itself* ( it should be key '1' ).
So class_type is device.Attribute, and "class_type( instance_id=2 )" raises a TypeError from logix.setup -
on every request of every connection, for all tags.

Expected: instance 2 is created ( as for any other class ), T and the other tags can be written and read.
Observed: no request is ever answered.
"""
from __future__ import print_function

import socket
import sys
import threading
import time

import cpppo
from cpppo.server.enip import client, device, logix, parser
from cpppo.server.enip.main import main as enip_main
import cpppo.server.enip.main as enip_main_module


def simulator_start( argv, port, fresh=True ):
    """Run cpppo.server.enip.main:main in a Thread of this process; returns (control,thread)."""
    device.lookup_reset()
    logix.setup_reset()
    if fresh:
        enip_main_module.tags.clear()
    control			= cpppo.apidict( 2.0, { 'done': False } )
    failure			= {}

    def run():
        try:
            enip_main( argv=[ '--no-config', '--no-udp', '--address', 'localhost:%d' % port ] + list( argv ),
                       server={ 'control': control } )
        except BaseException as exc:
            failure['exc']	= exc

    thread			= threading.Thread( target=run )
    thread.daemon		= True
    thread.start()
    for _ in range( 200 ):
        assert 'exc' not in failure, "Simulator failed to start: %r" % ( failure['exc'], )
        try:
            socket.create_connection( ('localhost', port), timeout=.2 ).close()
            return control,thread
        except Exception:
            time.sleep( .05 )
    raise AssertionError( "Simulator did not come up on port %d" % port )


def simulator_stop( control, thread ):
    control['done']		= True
    thread.join( 5 )


def io( port, *operations, **kwds ):
    """Run Read/Write Tag operations one by one; returns [(description, status, value), ...]; a session
    that breaks down yields a final ('session', <exception>, None)."""
    results			= []
    try:
        with client.connector( host='localhost', port=port, timeout=5 ) as conn:
            for idx,dsc,op,rpy,sts,val in conn.synchronous(
                    operations=client.parse_operations( operations, **kwds )):
                results.append( (dsc,sts,val) )
    except Exception as exc:
        results.append( ('session',exc,None) )
    return results


def main():
    port			= 44818
    control,thread		= simulator_start( [ 'A=INT[3]', 'T@0xF5/2/1=INT[2]' ], port )
    try:
        results			= io( port, 'A[0-2]=(INT)1,2,3', 'A[0-2]', 'T[0-1]=(INT)4,5', 'T[0-1]' )
        meta			= device.lookup( 0xF5, 0 )
    finally:
        simulator_stop( control, thread )
    for r in results:
        print( "%-32s status %r value %r" % r )
    print( "lookup( 0xF5, 0 ) is a %s: %r" % ( type( meta ).__name__, meta ))
    expect			= [ (0, True), (0, [1, 2, 3]), (0, True), (0, [4, 5]) ]
    if [ r[1:] for r in results ] != expect:
        print( "DEFECT: with a tag at @0xF5/2/1 configured, observed %r; expected the four operations to yield %r" % (
            [ r[1:] for r in results ], expect ))
        return 1
    print( "OK" )
    return 0


if __name__ == "__main__":
    sys.exit( main() )
