#!/usr/bin/env python
"""
C02 defect 2 (unchanged code): the client cuts every UDP reply datagram at 4096 octets.

Get Attribute Single of a 2000 x DINT Attribute is answered with one EtherNet/IP frame of ~8 kB.  Over
TCP the client frames and delivers it.  Over UDP the simulator sends the very same frame in one datagram
( it arrives completely: a raw socket reading with a large buffer gets all of it ), but client.recvfrom
--> network.recv( maxlen=4096 ) keeps only its first 4096 octets and client.__next__ then refuses the
"Incomplete UDP response" - the message is lost although its final byte was delivered.

Exits 1 while the contradiction is present.
"""
from __future__ import print_function
import socket, struct, sys, threading, time
from cpppo.dotdict import apidict
from cpppo.server.enip import client
from cpppo.server.enip.main import main as enip_main

ADDR				= ( '127.0.0.1', 44818 )

def start_server():
    control			= apidict( 2.0, { 'done': False } )
    thr				= threading.Thread( target=enip_main, kwargs=dict(
        argv=[ '--address', '%s:%d' % ADDR, 'BIG@0x99/1/1=DINT[2000]' ], server={ 'control': control } ))
    thr.daemon			= True
    thr.start()
    for _ in range( 100 ):
        try:
            socket.create_connection( ADDR, timeout=1 ).close()
            return control
        except socket.error:
            time.sleep( .1 )
    raise RuntimeError( "simulator did not start" )

def ask( udp, sent=None ):
    try:
        with client.connector( host=ADDR[0], port=ADDR[1], udp=udp, timeout=5 ) as conn:
            if sent is not None:
                send		= conn.send
                def capture( request, timeout=None ):
                    sent.append( bytes( request ))
                    return send( request, timeout=timeout )
                conn.send	= capture
            conn.get_attribute_single( '@0x99/1/1' )
            rsp,_		= client.await_response( conn, timeout=5 )
            return "response, enip.length == %d, status %d" % ( rsp.enip.length, rsp.enip.status ) if rsp else "no response"
    except Exception as exc:
        return "%s: %s" % ( type( exc ).__name__, exc )

def main():
    control			= start_server()
    try:
        sent			= []
        tcp			= ask( udp=False )
        print( "TCP client: %s" % tcp )
        udp			= ask( udp=True, sent=sent )
        print( "UDP client: %s" % udp )
        # What did the simulator really send over UDP?  Ask again with a plain socket and a large buffer
        sock			= socket.socket( socket.AF_INET, socket.SOCK_DGRAM )
        sock.settimeout( 3 )
        sock.sendto( sent[-1], ADDR )
        dgram			= sock.recvfrom( 65535 )[0]
        sock.close()
        whole			= len( dgram ) == 24 + struct.unpack( '<H', dgram[2:4] )[0]
        print( "raw UDP socket: reply datagram of %d octets, %s" % (
            len( dgram ), "one whole frame" if whole else "not a whole frame" ))
        assert tcp.startswith( "response" ) and whole, "setup: expected a whole reply over TCP and in the raw datagram"
    finally:
        control['done']		= True
    if not udp.startswith( "response" ):
        print( "CONTRADICTION: the %d-octet reply arrived completely in one datagram, but the UDP client reports\n"
               "               %r; expected the same response as over TCP ( %s )" % ( len( dgram ), udp, tcp ))
        return 1
    print( "OK" )
    return 0

if __name__ == "__main__":
    sys.exit( main() )
