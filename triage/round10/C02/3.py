#!/usr/bin/env python
"""
C02 defect 3 (unchanged code): over UDP the client takes an empty datagram for the end of the stream.

A cpppo UDP client ( as list_identity_simple / list_services use it ) sends List Identity and collects
replies with client.await_response until nothing more arrives.  A zero-length datagram - the shortest
possible incomplete frame - reaches the client ahead of the genuine reply.  client.__next__ treats
len( rcvd ) == 0 as EOF whatever the transport and raises StopIteration, await_response reports {}
( "session ended" ) and the collection loop stops: the genuine reply that follows is never delivered.
UDP has no end-of-stream; an incomplete ( here: empty ) frame must have no effect.

Exits 1 while the contradiction is present.
"""
from __future__ import print_function
import socket, struct, sys, threading, time
from cpppo.dotdict import apidict
from cpppo.server.enip import client
from cpppo.server.enip.main import main as enip_main

SIM				= ( '127.0.0.1', 44818 )
FAKE				= ( '127.0.0.1', 44819 )

def genuine_reply():
    control			= apidict( 2.0, { 'done': False } )
    thr				= threading.Thread( target=enip_main, kwargs=dict(
        argv=[ '--address', '%s:%d' % SIM, 'T=DINT[4]' ], server={ 'control': control } ))
    thr.daemon			= True
    thr.start()
    sock			= socket.socket( socket.AF_INET, socket.SOCK_DGRAM )
    sock.settimeout( .5 )
    try:
        for _ in range( 40 ):
            try:
                sock.sendto( struct.pack( '<HHIIQI', 0x0063, 0, 0, 0, 0, 0 ), SIM )
                return sock.recvfrom( 65535 )[0]
            except socket.error:
                time.sleep( .25 )
        raise RuntimeError( "simulator did not answer" )
    finally:
        sock.close()
        control['done']		= True

def collect( datagrams, broadcast ):
    fake			= socket.socket( socket.AF_INET, socket.SOCK_DGRAM )
    fake.bind( FAKE )
    fake.settimeout( 5 )
    replies			= []
    try:
        with client.client( host=FAKE[0], port=FAKE[1], udp=True, broadcast=broadcast ) as conn:
            conn.list_identity( timeout=5 )
            _,peer		= fake.recvfrom( 65535 )
            for dgram in datagrams:
                fake.sendto( dgram, peer )
            time.sleep( .2 )
            while True: # exactly the loop of cpppo/server/enip/list_identity_simple.py
                response,_	= client.await_response( conn, timeout=1.0 )
                if response:
                    replies.append( response )
                else:
                    break
    finally:
        fake.close()
    return replies

def main():
    reply			= genuine_reply()
    bad				= []
    for broadcast in ( False, True ):
        plain			= collect( [ reply ], broadcast )
        empty			= collect( [ b'', reply ], broadcast )
        print( "UDP%s: reply alone --> %d response(s); empty datagram, then reply --> %d response(s)" % (
            " (unconnected socket)" if broadcast else "", len( plain ), len( empty )))
        assert len( plain ) == 1, "setup: the genuine reply alone should be delivered"
        if len( empty ) != 1:
            bad.append( broadcast )
    if bad:
        print( "CONTRADICTION: a zero-length datagram ahead of the genuine List Identity reply made the client report\n"
               "               end of session and deliver 0 responses; expected 1 ( an empty frame has no effect )" )
        return 1
    print( "OK" )
    return 0

if __name__ == "__main__":
    sys.exit( main() )
