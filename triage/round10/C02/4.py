#!/usr/bin/env python
"""
C02 defect 4 (unchanged code; adjacent to C02: "... leaves the listener working"): the UDP service
thread never notices server.control.disable / done while it is idle, so disabling and re-enabling the
simulator ( as the web API allows ) kills it.

enip_srv_udp tests control.done / control.disable only at the top of its outer loop; the inner
"while msg is None" receive loop spins on network.recvfrom( timeout=latency ) for ever while no datagram
arrives.  On disable, server_main joins the thread ( time-out: "hanging on None" ), forgets it and
returns; the thread - and its bound UDP socket - live on.  On enable, server_main binds the UDP port
again: "OSError: Address already in use" escapes main(), and neither TCP nor UDP is served any more.
( With --no-udp the same disable / enable sequence works. )

Exits 1 while the contradiction is present.
"""
from __future__ import print_function
import socket, struct, sys, threading, time
from cpppo.dotdict import apidict
from cpppo.server.enip.main import main as enip_main

ADDR				= ( '127.0.0.1', 44818 )
LISTID				= struct.pack( '<HHIIQI', 0x0063, 0, 0, 0, 0, 0 )

def over_tcp():
    try:
        sock			= socket.create_connection( ADDR, timeout=1 )
        sock.settimeout( 2 )
        sock.sendall( LISTID )
        got			= sock.recv( 65535 )
        sock.close()
        return len( got )
    except Exception as exc:
        return type( exc ).__name__

def over_udp():
    sock			= socket.socket( socket.AF_INET, socket.SOCK_DGRAM )
    sock.settimeout( 2 )
    try:
        sock.sendto( LISTID, ADDR )
        return len( sock.recvfrom( 65535 )[0] )
    except Exception as exc:
        return type( exc ).__name__
    finally:
        sock.close()

def main():
    control			= apidict( 2.0, { 'done': False, 'disable': False } )
    thr				= threading.Thread( target=enip_main, kwargs=dict(
        argv=[ '--address', '%s:%d' % ADDR, 'T=DINT[4]' ], server={ 'control': control } ))
    thr.daemon			= True
    thr.start()
    for _ in range( 100 ):
        if over_tcp() == 84:
            break
        time.sleep( .1 )
    before			= over_tcp(),over_udp()
    print( "enabled:    List Identity over TCP --> %r, over UDP --> %r" % before )
    assert before == (84,84), "setup: simulator should answer on both transports"
    control['disable']		= True
    time.sleep( 3 )
    print( "disabled:   List Identity over TCP --> %r" % ( over_tcp(), ))
    control['disable']		= False
    time.sleep( 3 )
    after			= over_tcp(),over_udp()
    print( "re-enabled: List Identity over TCP --> %r, over UDP --> %r; simulator thread alive: %r" % (
        after + ( thr.is_alive(), )))
    control['done']		= True
    if after != (84,84):
        print( "CONTRADICTION: after disable + enable the simulator answers %r / %r ( TCP / UDP ) and its main thread is %s;\n"
               "               expected 84 / 84 octets as before ( listener working again )" % (
                   after + ( "alive" if thr.is_alive() else "dead", )))
        return 1
    print( "OK" )
    return 0

if __name__ == "__main__":
    sys.exit( main() )
