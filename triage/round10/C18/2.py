"""
C18 defect 2: with a look-ahead, records that were read ahead of time are NOT applied to the replayed
register map ( loader.values / .until ) when the historical clock reaches them, if the NEXT record of the
file is still in the future: load() finds the reader waiting ( ts, None ), goes/stays AWAITING and breaks
out of its loop before the code that absorbs loader.future.  The registers stay stale until the next
record is read -- here for 7 historical seconds, over many load() calls -- although load() documents
"Load values up to the current historical timestamp into self.values".
"""
import os, sys, shutil, tempfile
from cpppo.history import files as hfiles, times as htimes
from cpppo.history import timestamp, logger, loader

class Clock( object ):
    now			= 0.0
    def __call__( self ):
        return self.now
clock			= Clock()
hfiles.timer = htimes.timer = clock

T,B			= 1400000000.0, 2000000000.0
recs			= [ (T + 10, { '40001': 1 }), (T + 11, { '40001': 2 }), (T + 20, { '40001': 3 }) ]
d			= tempfile.mkdtemp( prefix='c18_def2_' )
try:
    base		= os.path.join( d, 'plc.hst' )
    with logger( base ) as l:
        for ts,regs in recs:
            l.write( regs, now=ts )
    clock.now		= B
    ld			= loader( base, historical=T + 9, basis=B, factor=1.0, lookahead=2.0 )
    bad			= []
    w			= 0.0
    while ld and w < 15:
        clock.now	= B + w
        hist		= T + 9 + w
        cur,events	= ld.load()
        due		= None
        for ts,regs in recs:
            if timestamp( ts ) <= timestamp( hist ):
                due	= regs['40001']
        got		= ld.values.get( 40001, (None,None) )[1]
        if ld and got != due:	# (while not yet complete)
            bad.append( "historical +%5.2fs: register 40001 == %r, logged value at that time: %r" % ( hist - T, got, due ))
        w	       += 0.5
    if bad:
        print( "observed: the register map lags the historical clock in %d load() calls, eg.:\n  %s" % (
            len( bad ), "\n  ".join( bad[:4] + ['...'] + bad[-2:] )))
        print( "expected: after every load() the map holds the values logged up to the historical clock" )
        sys.exit( 1 )
    print( "OK" )
finally:
    shutil.rmtree( d, ignore_errors=True )
