"""
C18 defect 6 ( minor; misc.natural, the sort key reader.open orders the history files by ):
 a) numbers are padded to 9 characters ( fmt="%9s" ), so a number of ten or more digits sorts BEFORE a
    shorter one: files suffixed by epoch seconds, 'plc.hst.999999999' and 'plc.hst.1000000000', come out in
    the wrong order ( "embedded numbers are compared numerically" ).
 b) a character for which str.isdigit() is true but int() fails ( '²', SUPERSCRIPT TWO ) raises
    ValueError, although natural promises to work "without using regular expressions or exceptions"; one such
    file name next to the history makes every reader.open fail.
"""
import sys
from cpppo.misc import natural
bad			= []
names			= [ 'plc.hst.20', 'plc.hst.999999999', 'plc.hst.1000000000' ]
got			= sorted( reversed( names ), key=natural )
if got != names:
    bad.append( "observed: sorted( ..., key=natural ) == %r\nexpected: %r" % ( got, names ))
try:
    natural( u'plc.hst.²' )
except Exception as exc:
    bad.append( "observed: natural( u'plc.hst.\\u00b2' ) raises %r\nexpected: a sort key" % ( exc, ))
if bad:
    print( "\n".join( bad ))
    sys.exit( 1 )
print( "OK" )
