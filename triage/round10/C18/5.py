"""
C18 defect 5: equal timestamps across a file boundary.  After a file holding a single record (or a single
timestamp) the next file is searched with strict=True ( first timestamp > last timestamp ); a next file
that BEGINS with that same timestamp is rejected and never replayed: the search settles for a newer file,
or - when there is none - ends the replay ( HistoryExhausted ).  Here 2 of 6 records are lost ( all of
plc.hst.1, also its later record ) and the final register map is wrong.
( The position is kept as a timestamp only; remembering the file that was last read would disambiguate. )
"""
import os, sys, shutil, tempfile
from cpppo.history import files as hfiles, times as htimes
from cpppo.history import timestamp, logger, loader

class Clock( object ):
    now			= 0.0
    def __call__( self ):
        return self.now
clock			= Clock()
hfiles.timer = htimes.timer = clock

T,B			= 1400000000.0, 2000000000.0
history			= [ # oldest first
    [ (T + 0.0, { '40001': 1 }), (T + 1.0, { '40001': 2 }) ],
    [ (T + 2.0, { '40001': 3 }) ],						# rotated right after its initial frame
    [ (T + 2.0, { '40002': 7 }), (T + 3.0, { '40001': 4 }) ],			# same millisecond
    [ (T + 4.0, { '40001': 5 }) ],
]
d			= tempfile.mkdtemp( prefix='c18_def5_' )
try:
    base		= os.path.join( d, 'plc.hst' )
    for i,recs in enumerate( history ):
        e		= len( history ) - 1 - i
        with logger( base + (( '.%d' % e ) if e else '' )) as l:
            for ts,regs in recs:
                l.write( regs, now=ts )
    clock.now		= B
    ld			= loader( base, historical=T, basis=B, factor=1.0 )
    got			= []
    w			= 0.0
    while ld and w < 10:
        clock.now	= B + w
        cur,events	= ld.load()
        got	       += [ (str( e['timestamp'] ),e['values']) for e in events ]
        w	       += 0.25
    exp			= [ (str( timestamp( ts )),regs) for recs in history for ts,regs in recs ]
    final		= dict( (r,v) for r,(rt,v) in ld.values.items() )
    if got != exp or final != { 40001: 5, 40002: 7 }:
        print( "observed: %d records delivered: %r; final map %r" % ( len( got ), got, final ))
        print( "expected: %d records delivered: %r; final map %r" % ( len( exp ), exp, { 40001: 5, 40002: 7 } ))
        sys.exit( 1 )
    print( "OK" )
finally:
    shutil.rmtree( d, ignore_errors=True )
