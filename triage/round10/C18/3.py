"""
C18 defect 3: plain and compressed copies of one history file present together.  reader.open documents "If a
duplicate file (eg. blah.hst.1 and blah.hst.1.gz ) is detected, the earlier (uncompressed) is preferred,
addressing potential issues with using a file currently being compressed" -- but when it looks for the
next file AFTER a timestamp the last candidate wins, which is the compressed copy ( '.1' sorts before
'.1.gz' ).  With the .gz still being written ( first half of the stream on disk ) the reader takes it, its
stream fails half way, the file is abandoned -- and the records only the intact plain copy holds are lost.
"""
import os, sys, io, gzip, shutil, tempfile, random
from cpppo.history import files as hfiles, times as htimes
from cpppo.history import timestamp, logger, loader

class Clock( object ):
    now			= 0.0
    def __call__( self ):
        return self.now
clock			= Clock()
hfiles.timer = htimes.timer = clock

T,B			= 1400000000.0, 2000000000.0
rnd			= random.Random( 18 )
history			= [ # oldest first
    [ (T + 0.0, { '40001': 1 }), (T + 0.5, { '40001': 2 }) ],
    [ (T + 1.0 + i * .01, { '40001': rnd.randint( 0, 65535 ), '40002': rnd.randint( 0, 65535 ) }) for i in range( 400 ) ],
    [ (T + 10.0, { '40001': 3 }) ],
]
d			= tempfile.mkdtemp( prefix='c18_def3_' )
try:
    base		= os.path.join( d, 'plc.hst' )
    for i,recs in enumerate( history ):
        e		= len( history ) - 1 - i
        with logger( base + (( '.%d' % e ) if e else '' )) as l:
            for ts,regs in recs:
                l.write( regs, now=ts )
    # plc.hst.1 is being compressed: the first half of the gzip stream has reached the disk
    buf			= io.BytesIO()
    with gzip.GzipFile( fileobj=buf, mode='wb' ) as g:
        with open( base + '.1', 'rb' ) as rd:
            g.write( rd.read() )
    with open( base + '.1.gz', 'wb' ) as f:
        f.write( buf.getvalue()[:len( buf.getvalue() ) // 2] )

    clock.now		= B
    ld			= loader( base, historical=T, basis=B, factor=1.0 )
    got			= []
    w			= 0.0
    while ld and w < 20:
        clock.now	= B + w
        cur,events	= ld.load()
        got	       += [ (str( e['timestamp'] ),e['values']) for e in events ]
        w	       += 0.25
    exp			= [ (str( timestamp( ts )),regs) for recs in history for ts,regs in recs ]
    if got != exp:
        print( "observed: %d of %d records delivered; the intact plain copy plc.hst.1 was passed over for the partial plc.hst.1.gz" % (
            len( got ), len( exp )))
        print( "expected: all %d records (the uncompressed copy is preferred, as reader.open documents)" % len( exp ))
        sys.exit( 1 )
    print( "OK" )
finally:
    shutil.rmtree( d, ignore_errors=True )
