"""
C18 defect 1: a history file whose first record is ONE MILLISECOND later than the last record of the file
before it is never opened when that previous file holds a single record (or one timestamp): the rest of the
history is dropped (HistoryExhausted), although the timestamps are strictly increasing to the millisecond.

reader.open( strict=True ) asks ts > target; timestamp.__gt__ is "self.value - _epsilon > rhs.value" with
_epsilon == 0.001, which for two values 1ms apart depends on the binary rounding of the floats (here it is
False): comparisons are NOT equivalent to comparing the millisecond strings, as timestamp's doc claims.
"""
import os, sys, shutil, tempfile
from cpppo.history import files as hfiles, times as htimes
from cpppo.history import timestamp, logger, loader

class Clock( object ):
    now			= 0.0
    def __call__( self ):
        return self.now
clock			= Clock()
hfiles.timer = htimes.timer = clock

T,B			= 1400000000.0, 2000000000.0
history			= [ # oldest first
    [ (T + 1.000, { '40001': 1 }) ],
    [ (T + 1.001, { '40001': 2 }), (T + 1.500, { '40001': 3 }), (T + 2.000, { '40001': 4 }) ],
]
d			= tempfile.mkdtemp( prefix='c18_def1_' )
try:
    base		= os.path.join( d, 'plc.hst' )
    for i,recs in enumerate( history ):
        e		= len( history ) - 1 - i
        with logger( base + (( '.%d' % e ) if e else '' )) as l:
            for ts,regs in recs:
                l.write( regs, now=ts )
    assert str( timestamp( T + 1.001 )) > str( timestamp( T + 1.000 ))	# as logged: strictly increasing
    clock.now		= B
    ld			= loader( base, historical=T, basis=B, factor=1.0 )
    got			= []
    w			= 0.0
    while ld and w < 10:
        clock.now	= B + w
        cur,events	= ld.load()
        got	       += [ (str( e['timestamp'] ),e['values']) for e in events ]
        w	       += 0.25
    exp			= [ (str( timestamp( ts )),regs) for recs in history for ts,regs in recs ]
    if got != exp or ld.values.get( 40001, (0,None) )[1] != 4:
        print( "timestamp( T+1.001 ) > timestamp( T+1.000 ): %r" % ( timestamp( T + 1.001 ) > timestamp( T + 1.000 )))
        print( "observed: %d records delivered: %r; final 40001 == %r" % ( len( got ), got, ld.values.get( 40001 )))
        print( "expected: %d records delivered: %r; final 40001 == 4" % ( len( exp ), exp ))
        sys.exit( 1 )
    print( "OK" )
finally:
    shutil.rmtree( d, ignore_errors=True )
