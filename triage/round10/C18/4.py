"""
C18 defect 4: "any number of files".  reader.open keeps EVERY candidate file it has examined open until the
search is over ( the 'opened' list ), so a search over more history files than the process may hold open
( RLIMIT_NOFILE, commonly 1024 ) runs out of descriptors; the failing opens are reported as "Ignoring
history file ...: Too many open files", and the last file that could still be opened wins.  A replay from the
start of a 1100-file history ( limit 1024 ) silently begins 79 files too late: 158 records are never delivered.
Only the last candidate can win; closing the superseded one when the next is deferred repairs it.
"""
import os, sys, shutil, tempfile, resource
from cpppo.history import files as hfiles, times as htimes
from cpppo.history import timestamp, logger, loader

class Clock( object ):
    now			= 0.0
    def __call__( self ):
        return self.now
clock			= Clock()
hfiles.timer = htimes.timer = clock

T,B			= 1400000000.0, 2000000000.0
N			= 1100
soft,hard		= resource.getrlimit( resource.RLIMIT_NOFILE )
resource.setrlimit( resource.RLIMIT_NOFILE, (1024 if hard == resource.RLIM_INFINITY else min( 1024, hard ), hard) )
d			= tempfile.mkdtemp( prefix='c18_def4_' )
try:
    base		= os.path.join( d, 'plc.hst' )
    for i in range( N ):			# oldest first; two records per file
        e		= N - 1 - i
        with logger( base + (( '.%d' % e ) if e else '' )) as l:
            l.write( { '40001': i }, now=T + i )
            l.write( { '40002': i }, now=T + i + .5 )
    clock.now		= B
    ld			= loader( base, historical=T, basis=B, factor=1000.0 )
    got			= []
    w			= 0.0
    while ld and w < 5:
        clock.now	= B + w
        cur,events	= ld.load()
        got	       += [ str( e['timestamp'] ) for e in events ]
        w	       += 0.25
    if len( got ) != 2 * N or got[0] != str( timestamp( T )):
        print( "observed: %d records delivered, the first is %s" % ( len( got ), got[0] if got else None ))
        print( "expected: %d records delivered, the first is %s" % ( 2 * N, timestamp( T )))
        sys.exit( 1 )
    print( "OK" )
finally:
    shutil.rmtree( d, ignore_errors=True )
