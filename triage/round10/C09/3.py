#!/usr/bin/env python
"""
Contradiction of C09 in the UNCHANGED code: a Get Attributes All (0x01) request is not atomic -- its reply
can combine Attribute values from before and after the requests of another session, in a way no sequential
order of all requests allows.

Object.request collects the reply of Get Attributes All (and likewise Get Attribute List) with a loop of
separate  self.attribute[str(a_id)].produce()  calls; nothing keeps the request-handling thread of another
session from executing its writes between two of them.

One session writes the Attributes 1..N of Object @0x99/1, always in the order 1, 2, ..., N, always the same
number k into all of them, then k+1, ... (N Write Tag requests, one after the other).  In every sequential
order of all requests, at any instant, the values therefore never INCREASE along the Attribute number
( s, s, ..., s, s-1, ..., s-1 ).  Other sessions read the Object with Get Attributes All and check just that.

With plain in-memory Attributes the window between two produce() calls is a few microseconds, and the
writes of another session (each needs a parse under the shared parsers' locks) rarely fall into it; so the
Attributes used here are of a class that takes a moment for each access ( attribute_class=..., the documented
way to serve remote / historized data -- cf. historize.py, which writes a file record per access ).  That
does not change what a reply may contain, it only makes the thread switch between two Attributes likely.

Exits 1 (observed vs. expected) when a reply shows a later Attribute already holding a newer value than an
earlier one, 0 if all replies are consistent.
"""
from __future__ import print_function

import logging
import os
import struct
import sys
import threading
import time

import cpppo
from cpppo.server import enip
from cpppo.server.enip import client, device
from cpppo.server.enip.main import main as enip_main

ADDR				= ('127.0.0.1', 44933)
N				= 12		# Attributes of the Object
READERS				= 2
DEADLINE			= time.time() + 40

class Attribute_remote( device.Attribute ):
    """An Attribute whose value is not at hand: every access takes a moment (and lets other threads run)."""
    def __getitem__( self, key ):
        time.sleep( .002 )
        return super( Attribute_remote, self ).__getitem__( key )

    def __setitem__( self, key, value ):
        time.sleep( .002 )
        super( Attribute_remote, self ).__setitem__( key, value )


tags				= [ 'A%d@0x99/1/%d=DINT' % ( a, a ) for a in range( 1, N + 1 ) ]
control				= cpppo.apidict( enip.timeout, { 'done': False } )
server				= threading.Thread(
    target=enip_main, kwargs=dict( argv=[ '--address', '%s:%d' % ADDR, '--no-udp' ] + tags,
                                   attribute_class=Attribute_remote,
                                   server={ 'control': control } ))
server.daemon			= True
server.start()

def connect():
    for _ in range( 100 ):
        try:
            return client.connector( host=ADDR[0], port=ADDR[1], timeout=15 )
        except ( OSError, IOError ):
            time.sleep( .1 )
    raise AssertionError( "no simulator" )

logging.disable( logging.WARNING )
observed			= []
done				= []
sweeps				= [ 0 ]
reads				= [ 0 ] * READERS

def writer():
    try:
        with connect() as conn:
            k			= 0
            while not done:
                k	       += 1
                ops		= client.parse_operations( [ 'A%d=(DINT)%d' % ( a, k ) for a in range( 1, N + 1 ) ] )
                for idx,dsc,op,rpy,sts,val in conn.operate( ops, depth=4, multiple=0, timeout=15 ):
                    assert sts == 0 or sts is None and val is True, "write failed: %s: %r" % ( dsc, sts )
                sweeps[0]	= k
    except Exception as exc:
        observed.append( "writer: %r" % ( exc, ))

def reader( r ):
    try:
        with connect() as conn:
            while not done:
                conn.get_attributes_all( path='@0x99/1', timeout=15 )
                rpy,_		= client.await_response( conn, timeout=15 )
                req		= rpy.enip.CIP.send_data.CPF.item[1].unconnected_send.request
                assert req.status == 0, "Get Attributes All failed: %r" % ( req, )
                values		= struct.unpack( '<%di' % N, bytes( bytearray( req.get_attributes_all.data )))
                reads[r]       += 1
                for a in range( 1, N ):
                    if values[a] > values[a-1]:
                        observed.append(
                            "Get Attributes All reply: Attribute %d == %d already, while Attribute %d == %d still; all: %r" % (
                                a + 1, values[a], a, values[a-1], values ))
                        return
    except Exception as exc:
        observed.append( "reader %d: %r" % ( r, exc ))

threads				= [ threading.Thread( target=writer ) ] \
                                  + [ threading.Thread( target=reader, args=(r,) ) for r in range( READERS ) ]
for t in threads:
    t.daemon			= True
    t.start()
while not observed and time.time() < DEADLINE:
    time.sleep( .1 )
done.append( True )
for t in threads:
    t.join( 5 )

print( "%d sweeps written over Attributes 1..%d, %d Get Attributes All replies checked" % ( sweeps[0], N, sum( reads )))
if observed:
    print( "observed: %s" % ( observed[0], ))
    print( "expected: values never increase along the Attribute number (they are written in that order, one request each)" )
    sys.stdout.flush()
    os._exit( 1 )
print( "every reply was consistent with a sequential order of the requests" )
sys.stdout.flush()
os._exit( 0 )
