#!/usr/bin/env python
"""
Contradiction of C09 in the UNCHANGED code: the first "Read Dynamic Variable" (0x4B) requests that
several sessions send to the same HART channel at the same time are not all answered alike.

hart.HART.request --> fldnam_attribute() creates the HART_Data Object of the channel (and the
Attributes / Tags of its fields) on demand, with a bare check-then-create ( lookup() ... HART_Data( ... ) )
executed by the request-handling thread of whatever session comes first -- outside setup.lock, or any
other lock.  When two sessions' threads interleave there, the second HART_Data( instance_id=... ) hits
Object.__init__'s "CIP Object class ... already exists" assertion, and that session's (perfectly valid)
request is answered with General Status 0x08 instead of the channel's variables.

Sequentially ( any order of the same requests ) every one of them is answered with status 0x00.

( A second consequence of the same unguarded check-then-create, a few lines further down: two threads pick the
same "next free" Attribute number for two different fields, and two Tags -- eg. HART_4_Data.FV_assignment_code
and HART_4_Data.PV_status -- end up naming one Attribute for the rest of the run.  Reported below for
information, from the Tag table; the exit status only depends on what the sessions were answered. )

The window is narrow (each channel offers it once, at its first request), so many channels are tried: with the
default thread switch interval about 1 channel in 40 is hit.

Exits 1 (printing observed vs. expected) if any of the simultaneous requests was refused; 0 if all succeed.
"""
from __future__ import print_function

import sys
import threading
import time

import cpppo
from cpppo.server import enip
from cpppo.server.enip import client
from cpppo.server.enip.hart import HART
from cpppo.server.enip.main import main as enip_main

SESSIONS			= 8
CHANNELS			= 250	# every channel gives the race one chance (its first request only)
ADDR				= ('127.0.0.1', 44931)

HART( name="HART Channels", instance_id=0 )
for i in range( CHANNELS ):
    HART( name="HART Channel %d" % i, instance_id=i + 1 )

control				= cpppo.apidict( enip.timeout, { 'done': False } )
server				= threading.Thread(
    target=enip_main, kwargs=dict( argv=[ '--address', '%s:%d' % ADDR, '--no-udp', 'Dummy=INT' ],
                                   server={ 'control': control } ))
server.daemon			= True
server.start()

for _ in range( 100 ):
    try:
        client.connector( host=ADDR[0], port=ADDR[1], timeout=5 ).close()
        break
    except Exception:
        time.sleep( .1 )

statuses			= {}	# (channel,session) --> CIP General Status of the reply
failures			= []
barrier				= threading.Barrier( SESSIONS )

def session( s ):
    try:
        with client.connector( host=ADDR[0], port=ADDR[1], timeout=10 ) as conn:
            for c in range( 1, CHANNELS + 1 ):
                try:
                    barrier.wait( timeout=30 )
                except threading.BrokenBarrierError:
                    pass
                conn.service_code( code=HART.RD_VAR_REQ, path='@0x%X/%d' % ( HART.class_id, c ), timeout=10 )
                # Pick the raw reply out of the frame; don't depend on the client's ability to parse it
                while True:
                    assert conn.readable( timeout=10 ), "no reply"
                    try:
                        rpy	= next( conn )
                    except Exception:
                        rpy	= conn.data		# framed, CIP parsed; the HART reply parser refused it
                        conn.engine = None
                    if rpy is not None:
                        break
                raw		= bytearray( rpy.enip.CIP.send_data.CPF.item[1].unconnected_send.request.input )
                assert raw[0] == HART.RD_VAR_RPY, "not a Read Dynamic Variable reply: %r" % ( raw, )
                statuses[c,s]	= raw[2]
    except Exception as exc:
        failures.append( "session %d: %r" % ( s, exc ))
        barrier.abort()

threads				= [ threading.Thread( target=session, args=(s,) ) for s in range( SESSIONS ) ]
for t in threads:
    t.start()
for t in threads:
    t.join()
control['done']			= True

# For information: Tags of a channel that ended up naming the same Attribute
from cpppo.server.enip import device
aliased				= []
for c in range( CHANNELS ):
    where			= {}
    for typ,fld,dfl in HART.RD_VAR_RPY_FLD:
        where.setdefault( device.resolve_tag( "HART_%d_Data.%s" % ( c, fld )), [] ).append( fld )
    aliased		       += [ ( c + 1, ids, flds ) for ids,flds in where.items() if len( flds ) > 1 ]
for c,ids,flds in aliased:
    print( "channel %3d: Tags %s all name Attribute %r" % ( c, ' and '.join( flds ), ids ))

refused				= sorted( (c,s,sts) for (c,s),sts in statuses.items() if sts != 0 )
print( "%d simultaneous first requests to %d HART channels by %d sessions: %d answered, %d refused" % (
    SESSIONS * CHANNELS, CHANNELS, SESSIONS, len( statuses ), len( refused )))
if failures:
    print( "sessions failed: %s" % ( failures, ))
if refused or failures:
    for c,s,sts in refused:
        print( "observed: channel %2d, session %d: Read Dynamic Variable refused with status 0x%02x" % ( c, s, sts ))
    print( "expected: every request answered with status 0x00, as in every sequential order of the same requests" )
    sys.exit( 1 )
print( "every request was answered with status 0x00" )
sys.exit( 0 )
