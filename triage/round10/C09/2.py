#!/usr/bin/env python
"""
Contradiction in the UNCHANGED code ( UCMM sessions table ): two sessions that are registered at the same
time can be given the SAME EtherNet/IP session handle.

ucmm.UCMM.request ( Register Session ) draws a random handle and repeats

    while not session or session in self.__class__.sessions:

but .sessions maps  <peer address> --> <handle> ( "All known session handles, by addr" ), so the membership
test looks the (integer) candidate up among the (tuple) peer addresses: it is never true, and a handle that
is in use by another live session is handed out again.  (The guard is evidently meant to look among the
handles: sessions.values().)

To make the (otherwise 2^-32) collision happen, the generator the UCMM draws from is put into the same
state ahead of both registrations -- what the guard exists for is exactly the case of the generator
producing a value that is already in use.

Exits 1 (observed vs. expected) when both live sessions hold the same handle, 0 when they differ.
"""
from __future__ import print_function

import random
import sys
import threading
import time

import cpppo
from cpppo.server import enip
from cpppo.server.enip import client
from cpppo.server.enip.main import main as enip_main

ADDR				= ('127.0.0.1', 44932)

control				= cpppo.apidict( enip.timeout, { 'done': False } )
server				= threading.Thread(
    target=enip_main, kwargs=dict( argv=[ '--address', '%s:%d' % ADDR, '--no-udp', 'Dummy=INT' ],
                                   server={ 'control': control } ))
server.daemon			= True
server.start()

def connect():
    for _ in range( 100 ):
        try:
            return client.client( host=ADDR[0], port=ADDR[1], timeout=5 )
        except Exception:
            time.sleep( .1 )
    raise AssertionError( "no simulator" )

def register( conn ):
    random.seed( 20261005 )	# the next handle drawn by the (in-process) UCMM is the same one again
    conn.register( timeout=5 )
    while True:
        assert conn.readable( timeout=5 ), "no Register Session reply"
        rpy			= next( conn )
        if rpy is not None:
            break
    assert rpy.enip.status == 0 and 'enip.CIP.register' in rpy, "Register Session failed: %r" % ( rpy, )
    return rpy.enip.session_handle

with connect() as a, connect() as b:
    handle_a			= register( a )
    handle_b			= register( b )		# session a is still registered, and stays connected
    live			= dict( enip.logix.setup.ucmm.sessions )
control['done']			= True
print( "live sessions (peer --> handle): %r" % ( live, ))
if handle_a == handle_b:
    print( "observed: both live sessions were given session handle %d (0x%08x)" % ( handle_a, handle_a ))
    print( "expected: a handle that is in use is never handed out to another session" )
    sys.exit( 1 )
print( "handles differ: %d, %d" % ( handle_a, handle_b ))
sys.exit( 0 )
