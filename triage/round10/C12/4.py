#!/usr/bin/env python
"""
C12 / unchanged code: get_attribute.attribute_operations parses integer values as SINT by default, and the SINT
validator accepts -128..255.  "@0x99/1/1=-1,2" therefore parses to a Set Attribute Single with tag_type SINT and
data [-1, 2] -- but client.set_attribute_single ( and service_code ) skip the conversion to USINT octets for
SINT data ( `tag_type not in (None,SINT,USINT)` ) and hand the negative number to the USINT producer: the
request cannot be produced, and the whole operation list dies with struct.error.  "(INT)-1" works.

expected: the attribute is set to [ -1, 2 ] ( octets 0xFF, 0x02 ), like "@0x99/1/2=(INT)-1,2" sets 0xFFFF, 2
observed: struct.error: 'B' format requires 0 <= number <= 255 out of connector.operate
"""
from __future__ import print_function
import socket, sys, threading, time

from cpppo.dotdict import apidict
from cpppo.server import enip
from cpppo.server.enip import client, device
from cpppo.server.enip.main import main as enip_main

def simulator( port, tags ):
    control			= apidict( enip.timeout, { 'done': False } )
    thread			= threading.Thread( target=enip_main, kwargs=dict(
        argv=[ '--address', 'localhost:%d' % port ] + tags, server={ 'control': control } ))
    thread.daemon		= True
    thread.start()
    for _ in range( 100 ):
        try:
            socket.create_connection( ('localhost', port), timeout=.5 ).close()
            break
        except Exception:
            time.sleep( .1 )
    return control

from cpppo.server.enip.get_attribute import attribute_operations

PORT				= 44904

def main():
    control			= simulator( PORT, [ 'Sn@0x99/1/1=SINT[2]', 'In@0x99/1/2=INT[2]' ] )
    bad				= 0
    try:
        for tags,expected in (
                ( [ '@0x99/1/2=(INT)-1,2', '@0x99/1/2' ], [ True, [ 255, 255, 2, 0 ]] ),
                ( [ '@0x99/1/1=-1,2',      '@0x99/1/1' ], [ True, [ 255, 2 ]] ),
                ( [ '@0x99/1/1=(SINT)-128,127', '@0x99/1/1' ], [ True, [ 128, 127 ]] ), ):
            operations		= list( attribute_operations( tags ))	# the texts are accepted
            with client.connector( host='localhost', port=PORT, timeout=5 ) as conn:
                try:
                    results	= [ val for idx,dsc,req,rpy,sts,val in conn.operate( operations, timeout=5 ) ]
                except Exception as exc:
                    results	= "%s: %s" % ( type( exc ).__name__, exc )
            print( "%r --> %r" % ( tags, results ))
            if results != expected:
                bad	       += 1
                print( "CONTRADICTION: observed %r\n               expected %r" % ( results, expected ))
        return 1 if bad else 0
    finally:
        control['done']		= True

if __name__ == "__main__":
    sys.exit( main() )
