#!/usr/bin/env python
"""
C12 / unchanged code: connector.issue bundles operations "'til we exceed the specified multiple service packet
request size limit", estimating request and reply sizes ( 68 octets of overhead + every member's estimate ).  The
estimate of an operation is added to the running totals only when the operation JOINS the bundle under
construction; the operation that did not fit, and therefore OPENS the next bundle after the flush, is queued with
the totals reset to the bare overhead - its own size is never counted.  Every bundle but the first so holds one
operation more than the limit allows ( the first bundle counts its first member, through `not requests` ).

With 8 identical reads of 40 DINTs ( reply estimate 4 + 160 octets each ) and multiple = 68 + 2*164 + 1 = 397, two
operations fit a bundle ( 396 < 397 ) and a third ( 560 ) does not:

expected: bundles of 2, 2, 2, 2 operations   ( every bundle's estimated reply <= 396 octets )
observed: bundles of 2, 3, 3                 ( estimated reply of the later bundles: 68 + 3*164 = 560 octets > 397 )
"""
from __future__ import print_function
import itertools, socket, sys, threading, time

from cpppo.dotdict import apidict
from cpppo.server import enip
from cpppo.server.enip import client
from cpppo.server.enip.main import main as enip_main

PORT				= 44910

def simulator( port, tags ):
    control			= apidict( enip.timeout, { 'done': False } )
    thread			= threading.Thread( target=enip_main, kwargs=dict(
        argv=[ '--address', 'localhost:%d' % port ] + tags, server={ 'control': control } ))
    thread.daemon		= True
    thread.start()
    for _ in range( 100 ):
        try:
            socket.create_connection( ('localhost', port), timeout=.5 ).close()
            break
        except Exception:
            time.sleep( .1 )
    return control

def main():
    control			= simulator( PORT, [ 'Big@0x99/1/1=DINT[40]' ] )
    try:
        limit			= 68 + 2 * ( 4 + 40 * 4 ) + 1
        with client.connector( host='localhost', port=PORT, timeout=5 ) as conn:
            packets		= [ idx for idx,dsc,req,rpy,sts,val in conn.operate(
                client.parse_operations( [ 'Big[0-39]' ] * 8 ), multiple=limit, timeout=5 ) ]
        bundles			= [ len( list( g )) for _,g in itertools.groupby( packets ) ]
        print( "multiple=%d: packet index of each of the 8 operations: %r; bundle sizes %r" % ( limit, packets, bundles ))
        if bundles != [ 2, 2, 2, 2 ]:
            print( "CONTRADICTION: observed bundles of %r operations\n               expected [2, 2, 2, 2] ( 68 + 2*164 = 396 < %d <= 68 + 3*164 = 560 )" % (
                bundles, limit ))
            return 1
        return 0
    finally:
        control['done']		= True

if __name__ == "__main__":
    sys.exit( main() )
