#!/usr/bin/env python
"""
C12 / unchanged code: an operation carries, next to its route_path and send_path, the Unconnected Send time-out
parameters priority_time_tick / timeout_ticks ( parse_operations( ..., priority_time_tick=, timeout_ticks= ), as
client.main --priority-time-tick / --timeout-ticks and get_attribute.proxy( priority_time_tick=, timeout_ticks= )
supply them ).  Issued alone, the request goes out with these values.  Bundled into a Multiple Service Packet,
connector.issue forwards only route_path and send_path ( requests_paths ) to connector.multiple: the bundle goes
out with the connector's defaults ( 5 / 157 ), and operations with different time-outs are mixed in one bundle.

expected: the Unconnected Send that carries an operation has the operation's priority / timeout_ticks, bundled or not
observed: multiple=0: ( 7, 99 ) for every request;  multiple=500: one request with ( 5, 157 )

( observed on the wire: the octets handed to client.send, Unconnected Send 0x52 to @6/1 = 52 02 20 06 24 01 <prio> <ticks> )
"""
from __future__ import print_function
import socket, sys, threading, time

from cpppo.dotdict import apidict
from cpppo.server import enip
from cpppo.server.enip import client, device
from cpppo.server.enip.main import main as enip_main

def simulator( port, tags ):
    control			= apidict( enip.timeout, { 'done': False } )
    thread			= threading.Thread( target=enip_main, kwargs=dict(
        argv=[ '--address', 'localhost:%d' % port ] + tags, server={ 'control': control } ))
    thread.daemon		= True
    thread.start()
    for _ in range( 100 ):
        try:
            socket.create_connection( ('localhost', port), timeout=.5 ).close()
            break
        except Exception:
            time.sleep( .1 )
    return control

PORT				= 44905

def main():
    control			= simulator( PORT, [ 'Int@0x99/1/1=INT[4]' ] )
    sent			= []
    class spy( client.connector ):
        def send( self, request, timeout=None ):
            sent.append( bytes( request ))
            return super( spy, self ).send( request, timeout=timeout )
    marker			= b'\x52\x02\x20\x06\x24\x01'	# Unconnected Send, path @6/1
    try:
        observed		= {}
        for multiple in ( 0, 500 ):
            with spy( host='localhost', port=PORT, timeout=5 ) as conn:
                del sent[:]
                values		= [ val for idx,dsc,req,rpy,sts,val in conn.operate(
                    client.parse_operations( [ 'Int[0]', 'Int[1]' ], priority_time_tick=7, timeout_ticks=99 ),
                    multiple=multiple, timeout=5 ) ]
                assert values == [ [0], [0] ], values
            observed[multiple]	= [ tuple( bytearray( s[s.index( marker )+6:s.index( marker )+8] )) for s in sent if marker in s ]
            print( "multiple %3d: ( priority_time_tick, timeout_ticks ) on the wire: %r" % ( multiple, observed[multiple] ))
        wrong			= [ (m,pt) for m,pts in observed.items() for pt in pts if pt != (7,99) ]
        if wrong or not all( observed.values() ):
            print( "CONTRADICTION: observed %r\n               expected ( 7, 99 ) in every Unconnected Send" % ( observed, ))
            return 1
        return 0
    finally:
        control['done']		= True

if __name__ == "__main__":
    sys.exit( main() )
