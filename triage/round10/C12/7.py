#!/usr/bin/env python
"""
C12 / unchanged code: "a formatted path parses back to the same segments".  client.format_path keeps ONE pending
element index: a second {'element': n} segment behind the same component ( a multi-dimensional index, which the
EPATH parser / producer carry, and which device.parse_path yields for "@1/2/3/{"element":4}/{"element":5}" )
silently overwrites the first, so the text names another element than the segments.  Neither is the path refused as
"Unformattable" ( as other shapes format_path cannot express are ).

expected: parse_path( format_path( segments )) == segments, or an "Unformattable path segment" AssertionError
observed: [A, element 3, element 4] --> "A[4]";   [@1/2/3, element 4, element 5] --> "@0x0001/2/3[5]"
"""
from __future__ import print_function
import sys
from cpppo.server.enip import client, device

def main():
    bad				= 0
    parsed			= device.parse_path( '@1/2/3/{"element":4}/{"element":5}' )
    assert parsed == [ {'class': 1}, {'instance': 2}, {'attribute': 3}, {'element': 4}, {'element': 5} ], parsed
    for segments in ( parsed, [ {'symbolic': 'A'}, {'element': 3}, {'element': 4} ] ):
        try:
            text		= client.format_path( segments )
        except AssertionError as exc:
            print( "%r --> refused: %s" % ( segments, exc ))
            continue						# an honest refusal is fine
        back			= device.parse_path( text )
        print( "%r --> %r --> %r" % ( segments, text, back ))
        if back != segments:
            bad		       += 1
            print( "CONTRADICTION: observed %r\n               expected %r ( or a refusal to format )" % ( back, segments ))
    return 1 if bad else 0

if __name__ == "__main__":
    sys.exit( main() )
