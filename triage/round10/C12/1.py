#!/usr/bin/env python
"""
C12 / unchanged code: proxy.read_details documents the attribute form ( "Tag", None, "kWh" ) -- "a type/types
( may be None, to force Tag I/O ), and an optional description" -- but proxy.is_request refuses a None type,
so read_details ( and read / write / poll ) fail with "Not a valid read/write target".

expected: ( "Int[0-2]", None, "kWh" ) is read with Read Tag, like the bare "Int[0-2]", and yields the units
observed: AssertionError: Not a valid read/write target: ('Int[0-2]', None, 'kWh')
"""
from __future__ import print_function
import socket, sys, threading, time

from cpppo.dotdict import apidict
from cpppo.server import enip
from cpppo.server.enip import client, device
from cpppo.server.enip.main import main as enip_main

def simulator( port, tags ):
    control			= apidict( enip.timeout, { 'done': False } )
    thread			= threading.Thread( target=enip_main, kwargs=dict(
        argv=[ '--address', 'localhost:%d' % port ] + tags, server={ 'control': control } ))
    thread.daemon		= True
    thread.start()
    for _ in range( 100 ):
        try:
            socket.create_connection( ('localhost', port), timeout=.5 ).close()
            break
        except Exception:
            time.sleep( .1 )
    return control

from cpppo.server.enip.get_attribute import proxy

PORT				= 44901

def main():
    control			= simulator( PORT, [ 'Int@0x99/1/1=INT[4]' ] )
    try:
        via			= proxy( 'localhost', PORT, timeout=5 )
        results			= {}
        for attribute in ( 'Int[0-2]', ( 'Int[0-2]', None, 'kWh' ), ( 'Int[0-2]', None ) ):
            try:
                with via:
                    results[attribute] = [ ( val, sts, uni ) for val,(sts,(att,typ,uni)) in via.read_details( [ attribute ] ) ]
            except Exception as exc:
                results[attribute] = "%s: %s" % ( type( exc ).__name__, exc )
            print( "%-30r --> %r" % ( attribute, results[attribute] ))
        expected		= { 'Int[0-2]':			[ ( [0,0,0], 0, None ) ],
                                    ( 'Int[0-2]', None, 'kWh' ):	[ ( [0,0,0], 0, 'kWh' ) ],
                                    ( 'Int[0-2]', None ):	[ ( [0,0,0], 0, None ) ] }
        if results != expected:
            print( "CONTRADICTION: observed %r\n               expected %r" % ( results, expected ))
            return 1
        return 0
    finally:
        control['done']		= True

if __name__ == "__main__":
    sys.exit( main() )
