#!/usr/bin/env python
"""
C12 / unchanged code: client.CIP_TYPES documents that the signed types SINT / INT / DINT / LINT "allow the full
unsigned range, plus the negative range ... all provided values will fit legitimately into the data type
without loss", and parse_operations accepts eg. "Sn[0]=(SINT)200" or "In[0]=(INT)65535".  But the Write Tag
request such an operation denotes cannot be produced: typed_data.produce packs SINT / INT / DINT / LINT with the
signed struct formats, so connector.issue raises struct.error, and every operation behind it in the list is
lost ( whatever the depth / bundling ).

expected: one result per operation; the write is either carried out ( the tag then holds the same bit pattern,
          -56 / -1 ) or refused when the text is parsed
observed: struct.error: 'b' format requires -128 <= number <= 127 out of connector.operate; no results at all
"""
from __future__ import print_function
import socket, sys, threading, time

from cpppo.dotdict import apidict
from cpppo.server import enip
from cpppo.server.enip import client, device
from cpppo.server.enip.main import main as enip_main

def simulator( port, tags ):
    control			= apidict( enip.timeout, { 'done': False } )
    thread			= threading.Thread( target=enip_main, kwargs=dict(
        argv=[ '--address', 'localhost:%d' % port ] + tags, server={ 'control': control } ))
    thread.daemon		= True
    thread.start()
    for _ in range( 100 ):
        try:
            socket.create_connection( ('localhost', port), timeout=.5 ).close()
            break
        except Exception:
            time.sleep( .1 )
    return control

PORT				= 44903

def main():
    control			= simulator( PORT, [ 'Sn@0x99/1/1=SINT[2]', 'In@0x99/1/2=INT[2]' ] )
    bad				= 0
    try:
        for tags,expected in (
                ( [ 'Sn[1]=(SINT)5', 'Sn[0]=(SINT)200',   'Sn[0-1]' ], ( [ -56, 5 ], [ 200, 5 ] )),
                ( [ 'In[1]=(INT)5',  'In[0]=(INT)65535',  'In[0-1]' ], ( [ -1, 5 ],  [ 65535, 5 ] )), ):
            for depth,multiple in ( (0,0), (2,0), (0,500) ):
                operations	= list( client.parse_operations( tags ))	# the texts are accepted
                with client.connector( host='localhost', port=PORT, timeout=5 ) as conn:
                    try:
                        results	= [ ( sts, val ) for idx,dsc,req,rpy,sts,val in conn.operate(
                            operations, depth=depth, multiple=multiple, timeout=5 ) ]
                    except Exception as exc:
                        results	= "%s: %s" % ( type( exc ).__name__, exc )
                print( "%r depth %d multiple %3d --> %r" % ( tags, depth, multiple, results ))
                if ( isinstance( results, str ) or len( results ) != len( tags )
                     or results[-1][1] not in expected ):
                    bad	       += 1
                    print( "CONTRADICTION: observed %r\n               expected 3 results, the last one a read of %r or %r" % (
                        results, expected[0], expected[1] ))
        return 1 if bad else 0
    finally:
        control['done']		= True

if __name__ == "__main__":
    sys.exit( main() )
