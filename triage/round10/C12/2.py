#!/usr/bin/env python
"""
C12 / unchanged code: proxy.read_details accepts "an iterable containing 2 or 3 values; a Tag/address, a
type/types ..., and an optional description", and proxy.is_request says a 2-element LIST is a valid request
( a 3-element list works ).  Completing the missing description is done with `a+(None,)`, which is a TypeError
for a list.

expected: [ "@0x99/1/1", "INT" ] yields the same as ( "@0x99/1/1", "INT" ) and [ "@0x99/1/1", "INT", None ]
observed: TypeError: can only concatenate list (not "tuple") to list ( and the gateway is closed )
"""
from __future__ import print_function
import socket, sys, threading, time

from cpppo.dotdict import apidict
from cpppo.server import enip
from cpppo.server.enip import client, device
from cpppo.server.enip.main import main as enip_main

def simulator( port, tags ):
    control			= apidict( enip.timeout, { 'done': False } )
    thread			= threading.Thread( target=enip_main, kwargs=dict(
        argv=[ '--address', 'localhost:%d' % port ] + tags, server={ 'control': control } ))
    thread.daemon		= True
    thread.start()
    for _ in range( 100 ):
        try:
            socket.create_connection( ('localhost', port), timeout=.5 ).close()
            break
        except Exception:
            time.sleep( .1 )
    return control

from cpppo.server.enip.get_attribute import proxy

PORT				= 44902

def main():
    control			= simulator( PORT, [ 'Int@0x99/1/1=INT[4]' ] )
    try:
        via			= proxy( 'localhost', PORT, timeout=5 )
        results			= []
        for attribute in ( ( '@0x99/1/1', 'INT' ), [ '@0x99/1/1', 'INT', None ], [ '@0x99/1/1', 'INT' ] ):
            assert via.is_request( attribute ), "%r is not even a request" % ( attribute, )
            try:
                with via:
                    results.append( [ val for val,(sts,(att,typ,uni)) in via.read_details( [ attribute ] ) ] )
            except Exception as exc:
                results.append( "%s: %s" % ( type( exc ).__name__, exc ))
            print( "%-30r --> %r" % ( attribute, results[-1] ))
        if results != [ [[0,0,0,0]] ] * 3:
            print( "CONTRADICTION: observed %r\n               expected %r" % ( results, [ [[0,0,0,0]] ] * 3 ))
            return 1
        return 0
    finally:
        control['done']		= True

if __name__ == "__main__":
    sys.exit( main() )
