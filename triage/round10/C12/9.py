#!/usr/bin/env python
"""
C12 / unchanged code: device.parse_path( path, elm= ) / parse_path_elements( path, elm=, cnt= ) take a DEFAULT element
index.  For "Tag[4]" the explicit index wins over the default, but for the numeric form with an explicit fourth
term, "@1/2/3/4", the default REPLACES the element that was spelled ( parse_path_component treats the trailing
{'element': 4} as something to overwrite whenever `elm` is not None ).

expected: parse_path( '@1/2/3/4', elm=0 ) == [ class 1, instance 2, attribute 3, element 4 ]  ( like 'A[4]', elm=0 )
observed: [ class 1, instance 2, attribute 3, element 0 ]
"""
from __future__ import print_function
import sys
from cpppo.server.enip import device

def main():
    bad				= 0
    for text,default,expected in (
            ( 'A[4]',		0, [ {'symbolic': 'A'}, {'element': 4} ] ),
            ( '@1/2/3[4]',	0, [ {'class': 1}, {'instance': 2}, {'attribute': 3}, {'element': 4} ] ),
            ( '@1/2/3',		0, [ {'class': 1}, {'instance': 2}, {'attribute': 3}, {'element': 0} ] ),
            ( '@1/2/3/4',	None, [ {'class': 1}, {'instance': 2}, {'attribute': 3}, {'element': 4} ] ),
            ( '@1/2/3/4',	0, [ {'class': 1}, {'instance': 2}, {'attribute': 3}, {'element': 4} ] ), ):
        got			= device.parse_path( text, elm=default )
        print( "parse_path( %r, elm=%r ) --> %r" % ( text, default, got ))
        if got != expected:
            bad		       += 1
            print( "CONTRADICTION: observed %r\n               expected %r" % ( got, expected ))
    return 1 if bad else 0

if __name__ == "__main__":
    sys.exit( main() )
