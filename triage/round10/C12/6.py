#!/usr/bin/env python
"""
C12 / unchanged code: "a formatted path parses back to the same segments".  device.parse_path promises "any segment
type at all by providing it in JSON form", and client.format_path renders every segment it has no short form for as
JSON.  parse_path_elements however splits the whole text on '.' BEFORE it looks at the components, so a JSON term
that contains a '.' ( a port segment with an IP link address - what parse_route_path / port_link produce - or any
string value with a dot ) is cut in two and refused.

expected: parse_path( format_path( segments )) == segments
observed: Exception: Invalid @<class>/<instance>/<attribute>/<element>; ...: Unterminated string starting at ...
"""
from __future__ import print_function
import sys
from cpppo.server.enip import client, device

def main():
    bad				= 0
    for segments in (
            [ {'class': 2}, {'instance': 1}, {'connection': 100} ],				# no dot: fine
            [ {'port': 2, 'link': '1.2.3.4'}, {'class': 2}, {'instance': 1} ], ):
        text			= client.format_path( segments )
        try:
            back		= device.parse_path( text )
        except Exception as exc:
            back		= "%s: %s" % ( type( exc ).__name__, exc )
        print( "%r --> %r --> %r" % ( segments, text, back ))
        if back != segments:
            bad		       += 1
            print( "CONTRADICTION: observed %r\n               expected %r" % ( back, segments ))
    # ... and directly, the documented JSON form:
    text			= '@{"port":2,"link":"10.0.0.7"}/2/1'
    try:
        back			= device.parse_path( text )
    except Exception as exc:
        back			= "%s: %s" % ( type( exc ).__name__, exc )
    expected			= [ {'port': 2, 'link': '10.0.0.7'}, {'instance': 2}, {'attribute': 1} ]
    print( "%r --> %r" % ( text, back ))
    if back != expected:
        bad		       += 1
        print( "CONTRADICTION: observed %r\n               expected %r" % ( back, expected ))
    return 1 if bad else 0

if __name__ == "__main__":
    sys.exit( main() )
