#!/usr/bin/env python
"""
C12 / unchanged code: client.main --fragment ( "Always use Read/Write Tag Fragmented requests" ) hands `fragment`
to connection.process, but not to parse_operations, whose `fragment` parameter exists to select the Write Tag
Fragmented rules ( the element range names the whole destination, fewer values may be supplied ).  The epilog says
the exact number of values is required when "--no-fragment" is selected.  So with --fragment the operation
"Int[0-9]=1,2" is refused by the parser, although the same text with an explicit "+0" is accepted and issued as the
identical Write Tag Fragmented request.

expected: `client --fragment 'Int[0-9]=1,2' 'Int[0-9]'` writes the first two of ten elements ( like 'Int[0-9]+0=1,2' )
observed: AssertionError: Number of data values (2: [1, 2]) doesn't match element count (10): Int[0-9]=1,2
"""
from __future__ import print_function
import socket, sys, threading, time

from cpppo.dotdict import apidict
from cpppo.server import enip
from cpppo.server.enip import client, device
from cpppo.server.enip.main import main as enip_main

def simulator( port, tags ):
    control			= apidict( enip.timeout, { 'done': False } )
    thread			= threading.Thread( target=enip_main, kwargs=dict(
        argv=[ '--address', 'localhost:%d' % port ] + tags, server={ 'control': control } ))
    thread.daemon		= True
    thread.start()
    for _ in range( 100 ):
        try:
            socket.create_connection( ('localhost', port), timeout=.5 ).close()
            break
        except Exception:
            time.sleep( .1 )
    return control

PORT				= 44908

def main():
    control			= simulator( PORT, [ 'Int@0x99/1/1=INT[10]' ] )
    try:
        results			= []
        for argv in ( [ '--fragment', 'Int[0-9]+0=1,2' ], [ '--fragment', 'Int[0-9]=1,2' ] ):
            try:
                results.append( client.main( [ '-a', 'localhost:%d' % PORT, '--print' ] + argv + [ 'Int[0-9]' ] ))
            except Exception as exc:
                results.append( "%s: %s" % ( type( exc ).__name__, exc ))
            print( "%r --> %r" % ( argv, results[-1] ))
        if results != [ 0, 0 ]:
            print( "CONTRADICTION: observed %r\n               expected [0, 0] ( both spellings carried out )" % ( results, ))
            return 1
        return 0
    finally:
        control['done']		= True

if __name__ == "__main__":
    sys.exit( main() )
