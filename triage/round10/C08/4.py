"""C08 / defect 4: every UDP peer address costs the simulator resources that are never released; some 16000 datagrams
from different source ports take the whole server down ( UDP *and* TCP ).

main.enip_srv_udp calls stats_for( peer ) for every datagram received - before anything is parsed, so a single octet of
garbage is enough - and stats_for() creates a connections[<peer>] entry: an apidict, ie. a multiprocessing.RLock plus a
multiprocessing.Condition = 4 POSIX semaphores = 4 memory mappings of the process.  A TCP connection's entry is removed
when the connection ends ( enip_srv_tcp's finally ); a UDP peer's entry never is.  So the table and the process' memory
mappings grow with the number of *distinct* peer addresses seen, without bound.

In a full run ( FULL=1 ) on this machine ( vm.max_map_count 65530 ): after 16315 peers every further apidict fails with
"OSError: [Errno 12] Cannot allocate memory"; the UDP server no longer answers anybody, and new TCP connections are not
served any more either ( threads cannot be started: MemoryError; a client sees 'Failed to receive any response' ).
That takes about 90 s; by default this program sends N=3000 ListIdentity requests from 3000 different ports, closes every
client socket, and reports what the simulator still holds for them.

Expected ( "never takes the whole server down", "keeps serving new sessions" ): resources held for UDP peers are bounded.
Exit 1 while the contradiction is present, 0 otherwise.
"""
from __future__ import print_function
import logging, os, select, socket, struct, sys, threading, time

import cpppo
from cpppo.server.enip import client
from cpppo.server.enip import main as enip_main_module
from cpppo.server.enip.main import main as enip_main

PORT = 44818
ADDR = ('127.0.0.1', PORT)

def start_server():
    control = cpppo.apidict( 2.0, { 'done': False } )
    t = threading.Thread( target=enip_main, kwargs=dict(
        argv=[ '--address', '127.0.0.1:%d' % PORT, 'SCADA=INT[10]' ],
        server={ 'control': control } ))
    t.daemon = True
    t.start()
    for _ in range( 200 ):
        try:
            socket.create_connection( ADDR, timeout=.2 ).close()
            return control
        except Exception:
            time.sleep( .05 )
    raise RuntimeError( "simulator did not start" )

def mappings():
    with open( '/proc/self/maps' ) as f:
        return sum( 1 for _ in f )

def tcp_probe():
    with client.connector( host='127.0.0.1', port=PORT, timeout=5.0 ) as c:
        return [ val for idx,dsc,op,rpy,sts,val in c.synchronous( client.parse_operations( [ 'SCADA[0-1]' ] )) ]

logging.basicConfig( level=logging.CRITICAL )
logging.getLogger().setLevel( logging.CRITICAL )
control = start_server()
try:
    full = bool( os.environ.get( 'FULL' ))
    N = 40000 if full else int( os.environ.get( 'N', 3000 ))
    list_identity = struct.pack( '<HHII', 0x0063, 0, 0, 0 ) + b'\0' * 8 + struct.pack( '<I', 0 )

    tcp_probe()
    maps0,held0 = mappings(),len( enip_main_module.connections )
    sent = answered = 0
    beg = time.time()
    alive = True
    while sent < N and alive:
        socks = []
        for _ in range( 100 ):				# 100 peers at a time, each its own source port
            s = socket.socket( socket.AF_INET, socket.SOCK_DGRAM )
            s.sendto( list_identity, ADDR )
            socks.append( s )
            sent += 1
        pend = set( socks )
        dead = time.time() + 5
        while pend and time.time() < dead:
            r,_,_ = select.select( list( pend ), [], [], .5 )
            for s in r:
                s.recvfrom( 4096 )
                pend.discard( s )
                answered += 1
        for s in socks:
            s.close()
        if pend:
            alive = False
    maps1,held1 = mappings(),len( enip_main_module.connections )
    print( "%d UDP peers came and went in %.1fs ( %d answered ); the simulator now holds %d connections[] entries "
           "( %d before ) and %d memory mappings ( %d before ): %.1f mappings per peer" % (
               sent, time.time() - beg, answered, held1, held0, maps1, maps0, ( maps1 - maps0 ) * 1.0 / max( 1, held1 - held0 )))
    try:
        limit = int( open( '/proc/sys/vm/max_map_count' ).read() )
        print( "vm.max_map_count is %d: at this rate exhausted by about %d distinct UDP peer addresses" % (
            limit, ( limit - maps0 ) * ( held1 - held0 ) // max( 1, maps1 - maps0 )))
    except Exception:
        pass
    served = None
    try:
        served = tcp_probe()
    except Exception as exc:
        print( "a new TCP session is not served any more: %r" % ( exc, ))
    if not alive or served is None:
        print( "CONTRADICTION: after %d datagrams from distinct UDP peers the simulator %s; expected it to keep serving" % (
            sent, "stopped answering UDP" if not alive else "no longer serves TCP sessions" ))
        sys.exit( 1 )
    if held1 - held0 >= 0.5 * sent and maps1 - maps0 >= held1 - held0:
        print( "CONTRADICTION: the simulator keeps a connections[] entry and >= 1 memory mapping ( semaphores of an apidict ) "
               "for every UDP peer address it ever heard from, although all those peers are gone: observed %d entries / "
               "%d mappings held after %d peers; expected resources held for UDP peers to be bounded ( as for TCP, whose "
               "entries are removed when the connection ends )" % ( held1 - held0, maps1 - maps0, sent ))
        sys.exit( 1 )
    print( "OK: resources held for departed UDP peers are bounded" )
    sys.exit( 0 )
finally:
    control['done'] = True
