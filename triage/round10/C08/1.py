"""C08 / defect 1: a Write Tag whose SSTRING value is cut off inside its text is executed.

The request announces an SSTRING of .length 5, but the request ends after 3 octets of text ( the request
is truncated: "...da 00 01 00 05 61 62 63" ).  parser.SSTRING uses the .length only as a *limit* for its
'string' sub-machine ( which is terminal after any number of octets ), so the fragment is accepted as a
complete value and Logix.request stores it: the tag is altered by an incomplete write request, and the
reply says success.  ( The sibling parser.STRING was repaired for exactly this: "a STRING whose text
ends before its .length octets were seen is not complete"; SSTRING was not. )

Expected: the truncated request is refused ( non-zero status, or the session is closed ) and S[1] keeps its
value.  Exit 1 while the contradiction is present, 0 otherwise.
"""
from __future__ import print_function
import logging, socket, sys, threading, time

import cpppo
from cpppo.server.enip import client
from cpppo.server.enip.main import main as enip_main

PORT = 44818

def start_server():
    control = cpppo.apidict( 2.0, { 'done': False } )
    t = threading.Thread( target=enip_main, kwargs=dict(
        argv=[ '--address', '127.0.0.1:%d' % PORT, 'S=SSTRING[3]', 'SCADA=INT[10]' ],
        server={ 'control': control } ))
    t.daemon = True
    t.start()
    for _ in range( 200 ):
        try:
            socket.create_connection( ('127.0.0.1', PORT), timeout=.2 ).close()
            return control
        except Exception:
            time.sleep( .05 )
    raise RuntimeError( "simulator did not start" )

def read_tags( tags ):
    with client.connector( host='127.0.0.1', port=PORT, timeout=5.0 ) as c:
        return [ val for idx,dsc,op,rpy,sts,val in c.synchronous( client.parse_operations( tags )) ]

def raw_request( req, timeout=3.0 ):
    """Carry the opaque CIP request octets in an ( otherwise well formed ) Unconnected Send."""
    with client.connector( host='127.0.0.1', port=PORT, timeout=timeout ) as c:
        c.unconnected_send( request=bytes( req ))
        beg = time.time()
        for rsp in c:
            if rsp is not None:
                return rsp
            if time.time() - beg > timeout:
                return None

logging.basicConfig( level=logging.CRITICAL )
logging.getLogger().setLevel( logging.CRITICAL )
control = start_server()
try:
    before = read_tags( [ 'S[0-2]' ] )[0]
    #                      Write Tag, path S[1]         SSTRING  1 elem. .length 5, but only "abc"
    req = bytes( bytearray.fromhex( '4d 03 91 01 53 00 28 01' 'da 00' '01 00' '05' '61 62 63' ))
    try:
        rsp = raw_request( req )
    except Exception as exc:
        rsp = None
        print( "session failed: %r" % ( exc, ))
    status = None
    if rsp is not None:
        status = rsp.get( 'enip.CIP.send_data.CPF.item[1].unconnected_send.request.status' )
    after = read_tags( [ 'S[0-2]' ] )[0]
    print( "S before: %r, reply status: %r, S after: %r" % ( before, status, after ))
    if after != before:
        print( "CONTRADICTION: a Write Tag cut off inside its SSTRING ( .length 5, 3 octets present ) altered the tag: "
               "observed S == %r with reply status %r; expected the request to be refused and S == %r" % (
                   after, status, before ))
        sys.exit( 1 )
    print( "OK: truncated SSTRING write refused, tag unchanged" )
    sys.exit( 0 )
finally:
    control['done'] = True
