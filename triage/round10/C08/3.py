"""C08 / defect 3: a frame that ends before the lengths it announces alters a tag ( default configuration ).

A SendRRData frame carries an Unconnected Send ( 0x52 ) with a Write Tag SCADA[1] = 7 and the usual route path
"01 00 01 00" ( 1 word: port 1, link 0 ).  The frame is cut 2 octets short - the route path's only segment is
missing - and the EtherNet/IP header's length is that of what is really sent.  So:

  - the CPF item ( type 0x00b2 ) announces .length 32, but only 30 octets of the frame remain, and
  - the route path announces .size 1 word, but no segment follows.

parser.CPF runs the item parser with limit='..length' ( only an upper limit; nothing requires the item to be all
there ), parser.EPATH's 'seg' dfa is terminal at once when no input remains ( .size 1, .segment missing ), and the
UCMM checks the route path only if one is configured ( --route-path / -S ); with the default "any route path" the
Write Tag inside the truncated envelope is executed and answered with success.

Expected: a frame that is not all there is refused ( error status or the session closed ), and SCADA[1] unchanged.
( With a route path configured the UCMM's "route path of %d words not (completely) recognized" check refuses it. )
Exit 1 while the contradiction is present, 0 otherwise.
"""
from __future__ import print_function
import logging, socket, sys, threading, time

import cpppo
from cpppo.server.enip import client
from cpppo.server.enip.main import main as enip_main

PORT = 44818

def start_server():
    control = cpppo.apidict( 2.0, { 'done': False } )
    t = threading.Thread( target=enip_main, kwargs=dict(
        argv=[ '--address', '127.0.0.1:%d' % PORT, 'SCADA=INT[10]' ],
        server={ 'control': control } ))
    t.daemon = True
    t.start()
    for _ in range( 200 ):
        try:
            socket.create_connection( ('127.0.0.1', PORT), timeout=.2 ).close()
            return control
        except Exception:
            time.sleep( .05 )
    raise RuntimeError( "simulator did not start" )

def read_tags( tags ):
    with client.connector( host='127.0.0.1', port=PORT, timeout=5.0 ) as c:
        return [ val for idx,dsc,op,rpy,sts,val in c.synchronous( client.parse_operations( tags )) ]

def raw_request( req, timeout=3.0 ):
    """Carry the opaque CIP request octets in an ( otherwise well formed ) Unconnected Send."""
    with client.connector( host='127.0.0.1', port=PORT, timeout=timeout ) as c:
        c.unconnected_send( request=bytes( req ))
        beg = time.time()
        for rsp in c:
            if rsp is not None:
                return rsp
            if time.time() - beg > timeout:
                return None

import struct

def frame( session, unc_send, item_length=None ):
    cpf = ( struct.pack( '<IHH', 0, 8, 2 ) + struct.pack( '<HH', 0, 0 )
            + struct.pack( '<HH', 0x00b2, len( unc_send ) if item_length is None else item_length ) + unc_send )
    return struct.pack( '<HHII', 0x006f, len( cpf ), session, 0 ) + b'ctx_0001' + struct.pack( '<I', 0 ) + cpf

def transact( frm, timeout=3.0 ):
    """Register, send the frame, return ( reply octets or b'', connection closed by peer? )"""
    s = socket.create_connection( ('127.0.0.1', PORT), timeout=timeout )
    try:
        s.sendall( struct.pack( '<HHII', 0x0065, 4, 0, 0 ) + b'ctx_0000' + struct.pack( '<IHH', 0, 1, 0 ))
        reg = s.recv( 4096 )
        session, = struct.unpack_from( '<I', reg, 4 )
        s.sendall( frm( session ))
        try:
            rpy = s.recv( 4096 )
        except socket.timeout:
            return None, False
        return rpy, not rpy
    finally:
        s.close()

logging.basicConfig( level=logging.CRITICAL )
logging.getLogger().setLevel( logging.CRITICAL )
control = start_server()
try:
    write = bytes( bytearray.fromhex( '4d 05 91 05 53 43 41 44 41 00 28 01' 'c3 00' '01 00' '07 00' ))
    unc = ( bytes( bytearray.fromhex( '52 02 20 06 24 01 05 9d' )) + struct.pack( '<H', len( write )) + write
            + bytes( bytearray.fromhex( '01 00 01 00' )))

    before = read_tags( [ 'SCADA[0-3]' ] )[0]
    # The complete frame must of course work; use another value/element to tell them apart
    rpy,closed = transact( lambda session: frame( session, unc.replace( b'\x28\x01', b'\x28\x02' )))
    middle = read_tags( [ 'SCADA[0-3]' ] )[0]
    assert middle[2] == 7, "the complete frame should have written SCADA[2]: %r" % ( middle, )

    # Now the truncated one: the last 2 octets ( the route path's segment ) are not sent, the CPF item still says 32
    rpy,closed = transact( lambda session: frame( session, unc[:-2], item_length=len( unc )))
    status = None
    if rpy and len( rpy ) >= 24+16+4:
        enip_status, = struct.unpack_from( '<I', rpy, 8 )
        status = ( enip_status, rpy[24+16+2] if len( rpy ) > 24+16+2 else None )   # ( EtherNet/IP status, CIP status )
    after = read_tags( [ 'SCADA[0-3]' ] )[0]
    print( "SCADA before: %r, after the truncated frame: %r; reply ( enip, CIP ) status: %r, closed: %r" % (
        middle, after, status, closed ))
    if after != middle:
        print( "CONTRADICTION: a frame cut short of its CPF item .length ( 32 announced, 30 sent ) and of its route path "
               "( 1 word announced, none sent ) altered the tag: observed SCADA[0-3] == %r, reply status %r; "
               "expected the frame to be refused and SCADA[0-3] == %r" % ( after, status, middle ))
        sys.exit( 1 )
    print( "OK: truncated frame refused, tag unchanged" )
    sys.exit( 0 )
finally:
    control['done'] = True
