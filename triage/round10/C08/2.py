"""C08 / defect 2: the request path's .size ( and a symbolic segment's .length ) only limit the EPATH parser;
a Write Tag whose path announces more than is present is executed.

 a) "4d 06 | 91 05 S C A D A 00 | 28 01 | c3 00 01 00 0d 00": the path announces 6 words, 5 are present; the
    6th "word" is the request's type field.  parser.EPATH's 'seg' dfa ( limit=size_init ) simply stops at the
    first octet that is no segment type ( 0xc3 ) although its limit is not used up, and the request parser carries
    on with the type/elements/data from there: SCADA[1] = 13 is written, status 0.
 b) "4d 02 | 91 09 D I | c4 00 01 00 ...": a symbolic segment announces 9 octets of name, the 2-word path leaves room
    for 2: the name is cut at the path's limit and 'DI' is resolved and written.

In both the length fields of the request contradict each other ( the request is not well-formed ), and a tag is
altered with a success reply.  Expected: refused ( a real controller answers 0x26 "Request Path Size received was
shorter or longer than expected", as Logix.request's own comment table says ) and the tags unchanged.
Exit 1 while the contradiction is present, 0 otherwise.
"""
from __future__ import print_function
import logging, socket, sys, threading, time

import cpppo
from cpppo.server.enip import client
from cpppo.server.enip.main import main as enip_main

PORT = 44818

def start_server():
    control = cpppo.apidict( 2.0, { 'done': False } )
    t = threading.Thread( target=enip_main, kwargs=dict(
        argv=[ '--address', '127.0.0.1:%d' % PORT, 'DI=DINT[4]', 'SCADA=INT[10]' ],
        server={ 'control': control } ))
    t.daemon = True
    t.start()
    for _ in range( 200 ):
        try:
            socket.create_connection( ('127.0.0.1', PORT), timeout=.2 ).close()
            return control
        except Exception:
            time.sleep( .05 )
    raise RuntimeError( "simulator did not start" )

def read_tags( tags ):
    with client.connector( host='127.0.0.1', port=PORT, timeout=5.0 ) as c:
        return [ val for idx,dsc,op,rpy,sts,val in c.synchronous( client.parse_operations( tags )) ]

def raw_request( req, timeout=3.0 ):
    """Carry the opaque CIP request octets in an ( otherwise well formed ) Unconnected Send."""
    with client.connector( host='127.0.0.1', port=PORT, timeout=timeout ) as c:
        c.unconnected_send( request=bytes( req ))
        beg = time.time()
        for rsp in c:
            if rsp is not None:
                return rsp
            if time.time() - beg > timeout:
                return None

logging.basicConfig( level=logging.CRITICAL )
logging.getLogger().setLevel( logging.CRITICAL )
control = start_server()
try:
    failed = []
    for what,tag,req in [
        ( "path .size 6 words, 5 present", 'SCADA[0-3]',
          '4d 06 91 05 53 43 41 44 41 00 28 01' 'c3 00' '01 00' '0d 00' ),
        ( "symbolic .length 9 in a 2-word path", 'DI[0-3]',
          '4d 02 91 09 44 49' 'c4 00' '01 00' '11 00 00 00' ),
    ]:
        before = read_tags( [ tag ] )[0]
        try:
            rsp = raw_request( bytes( bytearray.fromhex( req )))
        except Exception as exc:
            rsp = None
            print( "session failed: %r" % ( exc, ))
        status = None
        if rsp is not None:
            status = rsp.get( 'enip.CIP.send_data.CPF.item[1].unconnected_send.request.status' )
        after = read_tags( [ tag ] )[0]
        print( "%s: %s before: %r, reply status: %r, after: %r" % ( what, tag, before, status, after ))
        if after != before:
            failed.append( what )
            print( "CONTRADICTION: %s: a Write Tag with inconsistent path lengths altered the tag: observed %s == %r "
                   "with reply status %r; expected the request to be refused and %s == %r" % (
                       what, tag, after, status, tag, before ))
    if failed:
        sys.exit( 1 )
    print( "OK: requests with inconsistent path lengths refused, tags unchanged" )
    sys.exit( 0 )
finally:
    control['done'] = True
