#!/usr/bin/env python
"""C14 defect 2: a tag whose dotted prefix is itself a tag cannot be reached.

The simulator accepts tag names with '.' ( `Motor=DINT` `Motor.Speed=INT` - as in a controller, where Motor is a
structure and Motor.Speed one of its members; enip/main.py: "Since the tag_name may contain '.'" ).  Every client
( pylogix, cpppo's own, the reference encoder ) sends Motor.Speed as two ANSI extended symbolic segments.
device.resolve joins symbolic segments until the joined name is a known tag - and stops at the SHORTEST one:
'Motor' is known, so it is resolved and 'Speed' is left over -> "Unrecognized symbolic name 'Speed'" -> status
0x05 Path destination unknown.  Without the tag Motor, Motor.Speed is served.

Expected: every tag of the simulator can be read and written: Motor.Speed == 1234 with status Success.
"""
from __future__ import print_function

import logging
import socket
import struct
import sys
import threading
import time
import traceback

import cpppo
from cpppo.server import enip
from cpppo.server.enip.main import main as enip_main

ADDRESS				= ( 'localhost', 44818 )


def simulate( tags, clients ):
    """Run the Logix simulator in the main thread and clients() in a thread started from its idle loop;
    returns what clients() returned ( a list of "observed vs. expected" complaints )."""
    logging.disable( logging.CRITICAL )
    enip.lookup_reset()
    control			= cpppo.apidict( enip.timeout, { 'done': False } )
    outcome			= {}

    def run():
        try:
            time.sleep( .25 )
            outcome['complaints'] = clients()
        except BaseException as exc:
            outcome['complaints'] = [ "clients failed: %s\n%s" % ( exc, traceback.format_exc() ) ]
        finally:
            control['done']	= True

    started			= []
    def idle_service():
        if not started:
            thread		= threading.Thread( target=run )
            thread.daemon	= True
            thread.start()
            started.append( thread )

    enip_main( argv=[ '--address', '%s:%d' % ADDRESS ] + list( tags ), server={ 'control': control },
               idle_service=idle_service )
    if started:
        started[0].join( 30 )
    return outcome.get( 'complaints', [ "clients never ran" ] )


def report( complaints ):
    if complaints:
        print( "CONTRADICTION:" )
        for c in complaints:
            print( "  - " + c )
        return 1
    print( "OK" )
    return 0

import pylogix


def clients():
    complaints			= []
    with pylogix.PLC() as comm:
        comm.IPAddress		= ADDRESS[0]
        comm.conn.Port		= ADDRESS[1]
        comm.SocketTimeout	= 5
        for tag,value in ( ( 'Pump.Speed', 4321 ), ( 'Motor', 99 ), ( 'Motor.Speed', 1234 ) ):
            wrt			= comm.Write( tag, value )
            rsp			= comm.Read( tag )
            if ( wrt.Status, rsp.Status, rsp.Value ) != ( 'Success', 'Success', value ):
                complaints.append( "pylogix Write( %r, %r ): %r, Read: %r %r; expected 'Success', 'Success' %r" % (
                    tag, value, wrt.Status, rsp.Status, rsp.Value, value ))
        for rsp,value in zip( comm.Read( [ 'Motor', 'Motor.Speed', 'Pump.Speed' ] ), ( 99, 1234, 4321 )):
            if ( rsp.Status, rsp.Value ) != ( 'Success', value ):
                complaints.append( "pylogix multi-read %s: %r %r; expected 'Success' %r" % (
                    rsp.TagName, rsp.Status, rsp.Value, value ))
    return complaints


if __name__ == "__main__":
    sys.exit( report( simulate( [ 'Motor=DINT', 'Motor.Speed=INT', 'Pump.Speed=INT' ], clients )))
