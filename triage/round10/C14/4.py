#!/usr/bin/env python
"""C14 defect 4: a Multiple Service Packet with a failing member is answered with general status 0x00.

The general status of a Multiple Service Packet reply is 0x1E ( Embedded service error ) when one or more of the
services it carries returned an error ( Logix5000 Data Access, Multiple Service Packet Service; CIP Vol 1,
Appendix B ).  cpppo's own parser and producer know the code ( `data.status in (0x00, 0x1E)` in
Message_Router.produce and in the reply parser ), and the capture of a C*Logix reply kept in server/enip_test.py
( 18 members, the last one failing with status 0x04 ) has "...request.status": 30.  Message_Router.request, however, ends its loop
over the members with an unconditional `data.status = 0x00`.  pylogix only looks at the member statuses; a
decoder written from the specification finds a success reply that carries errors.

Expected: general status 0x1E whenever a member reply has a non-zero status ( 0x00 otherwise ).
"""
from __future__ import print_function

import logging
import socket
import struct
import sys
import threading
import time
import traceback

import cpppo
from cpppo.server import enip
from cpppo.server.enip.main import main as enip_main

ADDRESS				= ( 'localhost', 44818 )


def simulate( tags, clients ):
    """Run the Logix simulator in the main thread and clients() in a thread started from its idle loop;
    returns what clients() returned ( a list of "observed vs. expected" complaints )."""
    logging.disable( logging.CRITICAL )
    enip.lookup_reset()
    control			= cpppo.apidict( enip.timeout, { 'done': False } )
    outcome			= {}

    def run():
        try:
            time.sleep( .25 )
            outcome['complaints'] = clients()
        except BaseException as exc:
            outcome['complaints'] = [ "clients failed: %s\n%s" % ( exc, traceback.format_exc() ) ]
        finally:
            control['done']	= True

    started			= []
    def idle_service():
        if not started:
            thread		= threading.Thread( target=run )
            thread.daemon	= True
            thread.start()
            started.append( thread )

    enip_main( argv=[ '--address', '%s:%d' % ADDRESS ] + list( tags ), server={ 'control': control },
               idle_service=idle_service )
    if started:
        started[0].join( 30 )
    return outcome.get( 'complaints', [ "clients never ran" ] )


def report( complaints ):
    if complaints:
        print( "CONTRADICTION:" )
        for c in complaints:
            print( "  - " + c )
        return 1
    print( "OK" )
    return 0


class Reference( object ):
    """Encoder / decoder written from the CIP tables ( struct only; shares no code with cpppo )."""
    MR_PATH			= b'\x01\x00\x20\x02\x24\x01'		# backplane port 1, slot 0; Message Router

    def __init__( self, addr, timeout=5 ):
        self.sock		= socket.create_connection( addr, timeout=timeout )
        self.session		= 0
        self.sequence		= 0

    def close( self ):
        self.sock.close()

    def frame( self ):
        buf			= b''
        while len( buf ) < 24 or len( buf ) < 24 + struct.unpack_from( '<H', buf, 2 )[0]:
            try:
                got		= self.sock.recv( 4096 )
            except socket.timeout:
                return None
            if not got:
                return None
            buf		       += got
        return buf

    def encapsulated( self, command, payload, context=b'_defect_' ):
        self.sock.sendall( struct.pack( '<HHII8sI', command, len( payload ), self.session, 0, context, 0 ) + payload )
        reply			= self.frame()
        if reply is None:
            return None,None,None
        cmd,length,session,status,ctx,options = struct.unpack_from( '<HHII8sI', reply, 0 )
        return session,status,reply[24:]

    def register( self ):
        self.session,status,body= self.encapsulated( 0x0065, struct.pack( '<HH', 1, 0 ))
        assert self.session and status == 0, "RegisterSession failed"

    def unconnected( self, cip ):
        _,status,body		= self.encapsulated( 0x006F, struct.pack( '<IHHHHHH', 0, 5, 2, 0, 0, 0x00B2, len( cip )) + cip )
        assert status == 0, "EtherNet/IP status 0x%x" % status
        return body[16:]

    def connected( self, cip, connection=None, sequence=None ):
        """Returns (connection ID, sequence, CIP reply) of the reply, or (None,None,None) if refused/unanswered"""
        if sequence is None:
            self.sequence	= ( self.sequence + 1 ) & 0xFFFF
            sequence		= self.sequence
        _,status,body		= self.encapsulated( 0x0070, struct.pack(
            '<IHHHHIHHH', 0, 0, 2, 0x00A1, 4, self.o_t_id if connection is None else connection,
            0x00B1, len( cip ) + 2, sequence ) + cip )
        if status or not body:
            return None,None,None
        interface,timeout,count,t0,l0,cid,t1,l1,seq = struct.unpack_from( '<IHHHHIHHH', body, 0 )
        return cid,seq,body[22:]

    def forward_open( self, size=500, t_o_id=0x00C0FFEE, serial=0x1234, vendor=0x4321, o_serial=0x0BADCAFE ):
        cip			= struct.pack( '<BBBBBB', 0x54, 2, 0x20, 0x06, 0x24, 0x01 )
        cip		       += struct.pack( '<BBIIHHIB3x', 0x0A, 0x0E, 0x20000002, t_o_id, serial, vendor, o_serial, 3 )
        cip		       += struct.pack( '<IHIH', 0x00201234, 0x4200 + size, 0x00204001, 0x4200 + size )
        cip		       += struct.pack( '<BB', 0xA3, len( self.MR_PATH ) // 2 ) + self.MR_PATH
        rpy			= self.unconnected( cip )
        assert rpy[0] == 0xD4 and rpy[2] == 0 and len( rpy ) == 30, "Forward Open failed: %r" % rpy
        self.o_t_id,self.t_o_id	= struct.unpack_from( '<II', rpy, 4 )
        assert self.t_o_id == t_o_id, "Forward Open reply does not echo the T->O connection ID"
        self.triplet		= ( serial, vendor, o_serial )

    def forward_close( self, triplet=None ):
        cip			= struct.pack( '<BBBBBB', 0x4E, 2, 0x20, 0x06, 0x24, 0x01 )
        cip		       += struct.pack( '<BBHHI', 0x0A, 0x0E, *( triplet or self.triplet ))
        cip		       += struct.pack( '<BB', len( self.MR_PATH ) // 2, 0 ) + self.MR_PATH
        return self.unconnected( cip )

    @staticmethod
    def symbolic( name, *elements ):
        sym			= name.encode( 'ascii' )
        path			= struct.pack( '<BB', 0x91, len( sym )) + sym + ( b'\x00' if len( sym ) % 2 else b'' )
        for e in elements:
            path	       += struct.pack( '<BB', 0x28, e )
        return struct.pack( '<B', len( path ) // 2 ) + path

    @classmethod
    def read_tag( cls, name, elements=1, *index ):
        return b'\x4C' + cls.symbolic( name, *index ) + struct.pack( '<H', elements )

    @classmethod
    def write_dint( cls, name, value ):
        return b'\x4D' + cls.symbolic( name ) + struct.pack( '<HHi', 0x00C4, 1, value )


def multiple( *requests ):
    offset			= 2 + 2 * len( requests )
    offsets			= b''
    for r in requests:
        offsets		       += struct.pack( '<H', offset )
        offset		       += len( r )
    return struct.pack( '<BBBBBBH', 0x0A, 2, 0x20, 0x02, 0x24, 0x01, len( requests )) + offsets + b''.join( requests )


def members( rpy ):
    assert rpy[0] == 0x8A and rpy[3] == 0, "Multiple Service Packet reply: %r" % rpy
    body			= rpy[4:]
    count			= struct.unpack_from( '<H', body, 0 )[0]
    offsets			= list( struct.unpack_from( '<%dH' % count, body, 2 )) + [ len( body ) ]
    return rpy[2],[ body[offsets[i]:offsets[i+1]] for i in range( count ) ]


def clients():
    complaints			= []
    ref				= Reference( ADDRESS )
    try:
        ref.register()
        ref.forward_open()
        for what,requests in (
                ( "all members succeed",	[ Reference.read_tag( 'D' ), Reference.read_tag( 'A', 2, 3 ) ] ),
                ( "unknown tag",		[ Reference.read_tag( 'D' ), Reference.read_tag( 'NOPE' ) ] ),
                ( "read beyond the end",	[ Reference.read_tag( 'A', 2, 9 ), Reference.read_tag( 'D' ) ] ),
        ):
            cid,seq,rpy		= ref.connected( multiple( *requests ))
            general,replies	= members( rpy )
            statuses		= [ r[2] for r in replies ]
            expected		= 0x1E if any( statuses ) else 0x00
            if general != expected:
                complaints.append( "%s: member statuses %s, general status 0x%02x; expected 0x%02x" % (
                    what, ' '.join( '0x%02x' % s for s in statuses ), general, expected ))
        ref.forward_close()
    finally:
        ref.close()
    return complaints


if __name__ == "__main__":
    sys.exit( report( simulate( [ 'D=DINT', 'A=INT[10]' ], clients )))
