#!/usr/bin/env python
"""C14 defect 7: the ListServices reply item is 19 octets; the specification's item is 20.

The ListServices reply carries one CPF item of type 0x0100 ( CIP Vol 2, 2-4.6: "Target Items" ):

    Item Type Code  UINT  0x0100        Encapsulation Protocol Version  UINT  1
    Item Length     UINT  20            Capability Flags                UINT
                                        Name of Service   ARRAY[16] of USINT  "Communications" NUL-padded

i.e. a fixed 16 octet name field ( this is also how Wireshark dissects it ).  parser.communications_service
parses and produces the name as a NUL-terminated string of any length ( its docstring says `USINT[*] .length-8` ),
so UCMM.list_services answers with "Communications\\0" = 15 octets, item length 0x13.  A decoder written from the
table ( struct '<HH16s' ) runs off the end of the item.  TCP and UDP replies are the same.

Expected: item length 20, the name field 16 octets: b'Communications\\0\\0'.
"""
from __future__ import print_function

import logging
import socket
import struct
import sys
import threading
import time
import traceback

import cpppo
from cpppo.server import enip
from cpppo.server.enip.main import main as enip_main

ADDRESS				= ( 'localhost', 44818 )


def simulate( tags, clients ):
    """Run the Logix simulator in the main thread and clients() in a thread started from its idle loop;
    returns what clients() returned ( a list of "observed vs. expected" complaints )."""
    logging.disable( logging.CRITICAL )
    enip.lookup_reset()
    control			= cpppo.apidict( enip.timeout, { 'done': False } )
    outcome			= {}

    def run():
        try:
            time.sleep( .25 )
            outcome['complaints'] = clients()
        except BaseException as exc:
            outcome['complaints'] = [ "clients failed: %s\n%s" % ( exc, traceback.format_exc() ) ]
        finally:
            control['done']	= True

    started			= []
    def idle_service():
        if not started:
            thread		= threading.Thread( target=run )
            thread.daemon	= True
            thread.start()
            started.append( thread )

    enip_main( argv=[ '--address', '%s:%d' % ADDRESS ] + list( tags ), server={ 'control': control },
               idle_service=idle_service )
    if started:
        started[0].join( 30 )
    return outcome.get( 'complaints', [ "clients never ran" ] )


def report( complaints ):
    if complaints:
        print( "CONTRADICTION:" )
        for c in complaints:
            print( "  - " + c )
        return 1
    print( "OK" )
    return 0


def list_services( sock_type ):
    request			= struct.pack( '<HHII8sI', 0x0004, 0, 0, 0, b'_defect_', 0 )
    sock			= socket.socket( socket.AF_INET, sock_type )
    sock.settimeout( 5 )
    sock.connect( ADDRESS )
    try:
        sock.sendall( request )
        reply			= b''
        while len( reply ) < 24 or len( reply ) < 24 + struct.unpack_from( '<H', reply, 2 )[0]:
            reply	       += sock.recv( 4096 )
    finally:
        sock.close()
    return reply


def clients():
    complaints			= []
    for what,sock_type in ( ( 'TCP', socket.SOCK_STREAM ), ( 'UDP', socket.SOCK_DGRAM ) ):
        reply			= list_services( sock_type )
        command,length,session,status = struct.unpack_from( '<HHII', reply, 0 )
        assert ( command, status, length ) == ( 4, 0, len( reply ) - 24 ), "ListServices reply header: %r" % reply
        count,type_id,itemlen	= struct.unpack_from( '<HHH', reply, 24 )
        item			= reply[30:30+itemlen]
        assert ( count, type_id ) == ( 1, 0x0100 ) and len( item ) == itemlen == len( reply ) - 30
        try:
            version,flags,name	= struct.unpack( '<HH16s', item )
            assert ( version, flags & 0x20, name ) == ( 1, 0x20, b'Communications\x00\x00' ), ( version, flags, name )
        except Exception as exc:
            complaints.append( "%s ListServices item of %d octets %r does not decode as UINT, UINT, ARRAY[16] of USINT ( %s ); "
                               "expected 20 octets ending in the 16 octet name b'Communications\\x00\\x00'" % (
                                   what, itemlen, item, exc ))
    return complaints


if __name__ == "__main__":
    sys.exit( report( simulate( [ 'D=DINT' ], clients )))
