#!/usr/bin/env python
"""C14 defect 5: a Forward Close closes nothing observable, and reports success for a connection that never existed.

  a) Connection_Manager.forward_close deletes the entries of `forwards` that match the connection serial number,
     and Connection_Manager.request answers status 0x00 whether or not there was one.  A Forward Close whose
     triplet ( connection serial, vendor, originator serial ) names no connection of the session has to be refused
     ( general status 0x01, extended 0x0107 "Target connection not found", CIP Vol 1 3-5.5 ).
  b) Connection_Manager.request looks the connection ID of a SendUnitData up in `forwards` only to find the
     target path; when there is no such connection it falls through to the unconnected branch and serves the
     request from its own path.  So after its Forward Close a connection goes on answering - a Write Tag sent
     over the closed connection changes the tag - and so does a connection ID that no Forward Open ever returned.

Expected: a) status 0x01 / 0x0107 ( at any rate not 0x00 ) for the Forward Close of an unknown connection;
          b) no Write / Read service over a connection that is closed or was never opened.
"""
from __future__ import print_function

import logging
import socket
import struct
import sys
import threading
import time
import traceback

import cpppo
from cpppo.server import enip
from cpppo.server.enip.main import main as enip_main

ADDRESS				= ( 'localhost', 44818 )


def simulate( tags, clients ):
    """Run the Logix simulator in the main thread and clients() in a thread started from its idle loop;
    returns what clients() returned ( a list of "observed vs. expected" complaints )."""
    logging.disable( logging.CRITICAL )
    enip.lookup_reset()
    control			= cpppo.apidict( enip.timeout, { 'done': False } )
    outcome			= {}

    def run():
        try:
            time.sleep( .25 )
            outcome['complaints'] = clients()
        except BaseException as exc:
            outcome['complaints'] = [ "clients failed: %s\n%s" % ( exc, traceback.format_exc() ) ]
        finally:
            control['done']	= True

    started			= []
    def idle_service():
        if not started:
            thread		= threading.Thread( target=run )
            thread.daemon	= True
            thread.start()
            started.append( thread )

    enip_main( argv=[ '--address', '%s:%d' % ADDRESS ] + list( tags ), server={ 'control': control },
               idle_service=idle_service )
    if started:
        started[0].join( 30 )
    return outcome.get( 'complaints', [ "clients never ran" ] )


def report( complaints ):
    if complaints:
        print( "CONTRADICTION:" )
        for c in complaints:
            print( "  - " + c )
        return 1
    print( "OK" )
    return 0


class Reference( object ):
    """Encoder / decoder written from the CIP tables ( struct only; shares no code with cpppo )."""
    MR_PATH			= b'\x01\x00\x20\x02\x24\x01'		# backplane port 1, slot 0; Message Router

    def __init__( self, addr, timeout=5 ):
        self.sock		= socket.create_connection( addr, timeout=timeout )
        self.session		= 0
        self.sequence		= 0

    def close( self ):
        self.sock.close()

    def frame( self ):
        buf			= b''
        while len( buf ) < 24 or len( buf ) < 24 + struct.unpack_from( '<H', buf, 2 )[0]:
            try:
                got		= self.sock.recv( 4096 )
            except socket.timeout:
                return None
            if not got:
                return None
            buf		       += got
        return buf

    def encapsulated( self, command, payload, context=b'_defect_' ):
        self.sock.sendall( struct.pack( '<HHII8sI', command, len( payload ), self.session, 0, context, 0 ) + payload )
        reply			= self.frame()
        if reply is None:
            return None,None,None
        cmd,length,session,status,ctx,options = struct.unpack_from( '<HHII8sI', reply, 0 )
        return session,status,reply[24:]

    def register( self ):
        self.session,status,body= self.encapsulated( 0x0065, struct.pack( '<HH', 1, 0 ))
        assert self.session and status == 0, "RegisterSession failed"

    def unconnected( self, cip ):
        _,status,body		= self.encapsulated( 0x006F, struct.pack( '<IHHHHHH', 0, 5, 2, 0, 0, 0x00B2, len( cip )) + cip )
        assert status == 0, "EtherNet/IP status 0x%x" % status
        return body[16:]

    def connected( self, cip, connection=None, sequence=None ):
        """Returns (connection ID, sequence, CIP reply) of the reply, or (None,None,None) if refused/unanswered"""
        if sequence is None:
            self.sequence	= ( self.sequence + 1 ) & 0xFFFF
            sequence		= self.sequence
        _,status,body		= self.encapsulated( 0x0070, struct.pack(
            '<IHHHHIHHH', 0, 0, 2, 0x00A1, 4, self.o_t_id if connection is None else connection,
            0x00B1, len( cip ) + 2, sequence ) + cip )
        if status or not body:
            return None,None,None
        interface,timeout,count,t0,l0,cid,t1,l1,seq = struct.unpack_from( '<IHHHHIHHH', body, 0 )
        return cid,seq,body[22:]

    def forward_open( self, size=500, t_o_id=0x00C0FFEE, serial=0x1234, vendor=0x4321, o_serial=0x0BADCAFE ):
        cip			= struct.pack( '<BBBBBB', 0x54, 2, 0x20, 0x06, 0x24, 0x01 )
        cip		       += struct.pack( '<BBIIHHIB3x', 0x0A, 0x0E, 0x20000002, t_o_id, serial, vendor, o_serial, 3 )
        cip		       += struct.pack( '<IHIH', 0x00201234, 0x4200 + size, 0x00204001, 0x4200 + size )
        cip		       += struct.pack( '<BB', 0xA3, len( self.MR_PATH ) // 2 ) + self.MR_PATH
        rpy			= self.unconnected( cip )
        assert rpy[0] == 0xD4 and rpy[2] == 0 and len( rpy ) == 30, "Forward Open failed: %r" % rpy
        self.o_t_id,self.t_o_id	= struct.unpack_from( '<II', rpy, 4 )
        assert self.t_o_id == t_o_id, "Forward Open reply does not echo the T->O connection ID"
        self.triplet		= ( serial, vendor, o_serial )

    def forward_close( self, triplet=None ):
        cip			= struct.pack( '<BBBBBB', 0x4E, 2, 0x20, 0x06, 0x24, 0x01 )
        cip		       += struct.pack( '<BBHHI', 0x0A, 0x0E, *( triplet or self.triplet ))
        cip		       += struct.pack( '<BB', len( self.MR_PATH ) // 2, 0 ) + self.MR_PATH
        return self.unconnected( cip )

    @staticmethod
    def symbolic( name, *elements ):
        sym			= name.encode( 'ascii' )
        path			= struct.pack( '<BB', 0x91, len( sym )) + sym + ( b'\x00' if len( sym ) % 2 else b'' )
        for e in elements:
            path	       += struct.pack( '<BB', 0x28, e )
        return struct.pack( '<B', len( path ) // 2 ) + path

    @classmethod
    def read_tag( cls, name, elements=1, *index ):
        return b'\x4C' + cls.symbolic( name, *index ) + struct.pack( '<H', elements )

    @classmethod
    def write_dint( cls, name, value ):
        return b'\x4D' + cls.symbolic( name ) + struct.pack( '<HHi', 0x00C4, 1, value )


def clients():
    complaints			= []
    ref				= Reference( ADDRESS )
    try:
        ref.register()
        ref.forward_open( serial=0x1234 )
        cid,seq,rpy		= ref.connected( Reference.write_dint( 'D', 1 ))
        assert rpy == b'\xCD\x00\x00\x00', "Write over the open connection: %r" % rpy

        # a) a triplet that names no connection
        rpy			= ref.forward_close( triplet=( 0x7777, 0x4321, 0x0BADCAFE ))
        if rpy[2] == 0x00:
            complaints.append( "Forward Close of connection serial 0x7777 ( never opened ): reply %r, status 0x00; "
                               "expected status 0x01 with extended status 0x0107" % rpy )
        cid,seq,rpy		= ref.connected( Reference.read_tag( 'D' ))
        assert rpy is not None and rpy[2] == 0, "the open connection must survive a Forward Close of another: %r" % rpy

        # b) the real Forward Close, then the same connection ID again
        rpy			= ref.forward_close()
        assert rpy[0] == 0xCE and rpy[2] == 0x00, "Forward Close of the open connection: %r" % rpy
        cid,seq,rpy		= ref.connected( Reference.write_dint( 'D', 2 ))
        if rpy is not None and rpy[:3] == b'\xCD\x00\x00':
            complaints.append( "Write Tag over the connection 0x%08x after its Forward Close: reply %r ( success ); "
                               "expected no service ( the connection no longer exists )" % ( ref.o_t_id, rpy ))
        for never in ( 0x01020304, ):
            ref.close()
            ref			= Reference( ADDRESS )
            ref.register()
            cid,seq,rpy		= ref.connected( Reference.write_dint( 'D', 3 ), connection=never )
            if rpy is not None and rpy[:3] == b'\xCD\x00\x00':
                complaints.append( "Write Tag over connection ID 0x%08x, which no Forward Open returned: reply %r "
                                   "( success ); expected no service" % ( never, rpy ))
        # What is the tag now?  ( unconnected Read Tag: 1 was written over the open connection )
        rpy			= ref.unconnected( Reference.read_tag( 'D' ))
        value			= struct.unpack_from( '<i', rpy, 6 )[0]
        if value != 1:
            complaints.append( "D == %d after writes over a closed ( 2 ) and a never opened ( 3 ) connection; expected 1" % value )
    finally:
        ref.close()
    return complaints


if __name__ == "__main__":
    sys.exit( report( simulate( [ 'D=DINT' ], clients )))
