#!/usr/bin/env python
"""C14 defect 1: a fragmented read of an SSTRING array serves the wrong elements, with status Success.

Logix.reply_elements converts the byte offset of a Read Tag Fragmented into an element index by dividing it by
`attribute.parser.struct_calcsize`, which for SSTRING / STRING is 80 - "Average SSTRING size used for
estimations".  Logix.request intends to refuse a non-zero offset for these types ( "We don't presently support a
non-zero .offset for indeterminately sized types" ), but its assert only tests `offremains == 0`, i.e. whether
the offset is a multiple of 80: such an offset is accepted and taken for 80-byte elements.

pylogix reads an array that does not fit one reply with Read Tag, then Read Tag Fragmented at the number of data
bytes it has received so far.  The first reply to a read of SSA[0..7] carries 7 ( = 488 // 80 + 1 ) strings; here
they happen to be 80 bytes on the wire ( six of 10 and one of 13 characters, each with its length octet ), so
pylogix continues at offset 80 - and is served elements 1..7 ( 80 // 80 == 1 ) with status 0x00 instead of
element 7.  pylogix.Read returns 14 strings with Status 'Success'; the array model holds 8.

Expected: the 8 strings of the model ( or, as long as such offsets are unsupported, an error status ).
"""
from __future__ import print_function

import logging
import socket
import struct
import sys
import threading
import time
import traceback

import cpppo
from cpppo.server import enip
from cpppo.server.enip.main import main as enip_main

ADDRESS				= ( 'localhost', 44818 )


def simulate( tags, clients ):
    """Run the Logix simulator in the main thread and clients() in a thread started from its idle loop;
    returns what clients() returned ( a list of "observed vs. expected" complaints )."""
    logging.disable( logging.CRITICAL )
    enip.lookup_reset()
    control			= cpppo.apidict( enip.timeout, { 'done': False } )
    outcome			= {}

    def run():
        try:
            time.sleep( .25 )
            outcome['complaints'] = clients()
        except BaseException as exc:
            outcome['complaints'] = [ "clients failed: %s\n%s" % ( exc, traceback.format_exc() ) ]
        finally:
            control['done']	= True

    started			= []
    def idle_service():
        if not started:
            thread		= threading.Thread( target=run )
            thread.daemon	= True
            thread.start()
            started.append( thread )

    enip_main( argv=[ '--address', '%s:%d' % ADDRESS ] + list( tags ), server={ 'control': control },
               idle_service=idle_service )
    if started:
        started[0].join( 30 )
    return outcome.get( 'complaints', [ "clients never ran" ] )


def report( complaints ):
    if complaints:
        print( "CONTRADICTION:" )
        for c in complaints:
            print( "  - " + c )
        return 1
    print( "OK" )
    return 0

import pylogix

MODEL				= [ 'abcdefghij' ] * 6 + [ 'abcdefghijklm', 'the-last' ]


def clients():
    complaints			= []
    with pylogix.PLC() as comm:
        comm.IPAddress		= ADDRESS[0]
        comm.conn.Port		= ADDRESS[1]
        comm.SocketTimeout	= 5
        for i,s in enumerate( MODEL ):
            rsp			= comm.Write( 'SSA[%d]' % i, s )
            assert rsp.Status == 'Success', "Write SSA[%d]: %s" % ( i, rsp.Status )
        for i,s in enumerate( MODEL ):			# each element alone reads back: the model is what we wrote
            rsp			= comm.Read( 'SSA[%d]' % i )
            assert ( rsp.Status, rsp.Value ) == ( 'Success', s ), "Read SSA[%d]: %r" % ( i, rsp )
        rsp			= comm.Read( 'SSA[0]', len( MODEL ))
        if rsp.Status == 'Success' and rsp.Value != MODEL:
            complaints.append( "pylogix Read( 'SSA[0]', %d ): Status %r with %d values %r; expected the %d values %r" % (
                len( MODEL ), rsp.Status, len( rsp.Value ), rsp.Value, len( MODEL ), MODEL ))
    return complaints


if __name__ == "__main__":
    sys.exit( report( simulate( [ 'SSA=SSTRING[8]' ], clients )))
