#!/usr/bin/env python
"""C03 defect 6 (robustness, at the edge of the property): Get Attribute Single of a large tag kills the
session instead of being answered.

enip_server Big=INT[40000] is a legal configuration ( Read Tag Fragmented serves it ).  Get Attribute
Single of Big ( by name or @2/1/<n> ) makes Object.request produce all 80000 octets; they do not fit
the UINT length of the CPF item / EtherNet/IP frame, the encapsulation raises, and the server ends the
TCP session ( "Session ended (server EtherNet/IP status: 0x08)" ) -- taking every other outstanding
request of that client with it.  The same request inside a Multiple Service Packet is answered with
status 0x11 ( reply data too large ) since an earlier repair; the lone request is not.

Expected: a CIP error reply ( eg. 0x11 Reply data too large ) to that one request, and the session
still serves the next request; observed: the connection is closed.
"""
from __future__ import print_function
import sys, threading, time, logging
import cpppo
from cpppo.server.enip import client, device
from cpppo.server.enip.main import main as enip_main

logging.getLogger().setLevel( logging.CRITICAL )

server			= threading.Thread( target=enip_main, kwargs=dict(
    argv=[ '-a', 'localhost:44818', 'Big=INT[40000]', 'Small=INT[4]' ] ))
server.daemon		= True
server.start()
time.sleep( 2 )

observed		= []
try:
    with client.connector( host='localhost', port=44818, timeout=5 ) as conn:
        for name in ( 'Small', 'Big', 'Small' ):
            ops		= [ { 'method': 'get_attribute_single', 'path': device.parse_path( name ) } ]
            for idx,dsc,op,rpy,sts,val in conn.synchronous( operations=ops ):
                observed.append( ( name, sts, None if val in ( None, True ) else len( val )))
                print( "Get Attribute Single %-5s: status %r, %r octets" % observed[-1] )
except Exception as exc:
    print( "session failed: %r" % ( exc, ))
    observed.append( ( 'session', exc, None ))

ok			= ( len( observed ) == 3
                            and observed[0][1] == 0 and observed[2][1] == 0		# Small is served before and after
                            and observed[1][0] == 'Big' and observed[1][1] not in ( 0, None ))	# Big: a CIP error status
if not ok:
    print( "CONTRADICTION: expected Get Attribute Single Big to be answered with a CIP error status (0x11) and the" )
    print( "               session to go on serving Small; observed %r" % ( observed, ))
    sys.exit( 1 )
print( "OK" )
sys.exit( 0 )
