#!/usr/bin/env python
"""C03 defect 5 (adjacent to the property: the class/instance/attribute directory itself): the class-level
( instance 0 ) TCP/IP Interface Object is not in the directory; an Attribute sits in its place.

directory.<class>.<instance>.0 is where every Object is registered ( Object.__init__: self.attribute['0']
= self ), and lookup( class, instance ) returns it.  TCPIP.__init__ stores its class-level 'Revision'
Attribute under key '0' instead of '1', overwriting the Object: lookup( 0xF5, 0 ) returns an Attribute.
Any request addressed to @0xF5/0/... ( eg. Get Attribute Single of the class Revision, @0xF5/0/1 ) is
routed to that Attribute and dies with AttributeError: 'Attribute' object has no attribute 'request'
( an error reply at best ), and the class Revision 3 is never served ( @0xF5/0/1 holds the default 0 ).

Expected: lookup( 0xF5, 0 ) is the TCPIP class-level Object, and Get Attribute Single @0xF5/0/1 returns
the Revision ( 3 ), like @0x02/0/1 or @0x01/0/1 do for their classes.
"""
from __future__ import print_function
import sys, logging
import cpppo
from cpppo.server import enip
from cpppo.server.enip import logix, device, parser

logging.getLogger().setLevel( logging.CRITICAL )

enip.lookup_reset()
Obj			= logix.Logix( instance_id=1 )
tcpip			= device.TCPIP( instance_id=1 )

meta			= device.lookup( device.TCPIP.class_id, 0 )
print( "lookup( 0xF5, 0 ) == %r" % ( meta, ))
bad			= []
if not isinstance( meta, device.Object ):
    bad.append( "lookup( 0xF5, 0 ) is a %s, expected the class-level TCPIP Object" % type( meta ).__name__ )

req			= cpppo.dotdict( {
    'service': device.Object.GA_SNG_REQ, 'get_attribute_single': True,
    'path': { 'segment': [ cpppo.dotdict( d ) for d in ( {'class': 0xF5}, {'instance': 0}, {'attribute': 1} ) ] }} )
try:
    Obj.request( req )
    print( "Get Attribute Single @0xF5/0/1: status 0x%02x, data %r" % ( req.status, req.get( 'get_attribute_single.data' )))
    if req.status != 0 or req.get_attribute_single.data != [ 3, 0 ]:
        bad.append( "Get Attribute Single @0xF5/0/1: expected status 0 and the Revision [3, 0]; observed status 0x%02x, %r" % (
            req.status, req.get( 'get_attribute_single.data' )))
except Exception as exc:
    print( "Get Attribute Single @0xF5/0/1 raised %r" % ( exc, ))
    bad.append( "Get Attribute Single @0xF5/0/1: expected a reply with the Revision [3, 0]; observed exception %r" % ( exc, ))

if bad:
    print( "CONTRADICTION:" )
    for b in bad:
        print( "  " + b )
    sys.exit( 1 )
print( "OK" )
sys.exit( 0 )
