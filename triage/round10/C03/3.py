#!/usr/bin/env python
"""C03 defect 3: a Write Tag that is answered with an error status has nevertheless changed the tag.

An Attribute may be configured with an error code ( Attribute( ..., error=0x08 ), or tags.<name>.error
through setup() / the web API ): "If an error code is supplied, requests on the Attribute should fail
with that code."  Logix.request tests attribute.error only AFTER it has executed the request: the Write
Tag [Fragmented] is replied to with status 0x08 -- and its data is stored.  When the error is cleared
again ( a simulated fault that goes away ), a read returns the values of the write that was refused.
( Get Attribute Single / Set Attribute Single in Object.request ignore .error altogether. )

Expected: a write that is refused leaves the tag unchanged.
"""
from __future__ import print_function
import sys, logging
import cpppo
from cpppo.server import enip
from cpppo.server.enip import logix, device, parser

logging.getLogger().setLevel( logging.CRITICAL )

def request( Obj, req ):
    enc			= Obj.produce( cpppo.dotdict( req ))
    data		= cpppo.dotdict()
    with Obj.parser as machine:
        for _ in machine.run( source=cpppo.rememberable( enc ), data=data ):
            pass
    Obj.request( data )
    return data

enip.lookup_reset()
Obj			= logix.Logix( instance_id=1 )
att = Obj.attribute['1']= device.Attribute( 'FAULTY', parser.INT, default=[ 10, 20, 30, 40 ], error=0x08 )
device.redirect_tag( 'FAULTY', { 'class': Obj.class_id, 'instance': Obj.instance_id, 'attribute': 1 })
path			= { 'segment': [ cpppo.dotdict( symbolic='FAULTY' ) ] }

w			= request( Obj, { 'path': path, 'write_tag': {
    'type': parser.INT.tag_type, 'elements': 4, 'data': [ 1, 2, 3, 4 ] }} )
print( "Write Tag FAULTY[0-3] = 1,2,3,4 (Attribute.error == 0x08): status 0x%02x" % w.status )
att.error		= 0x00								# the fault is gone
r			= request( Obj, { 'path': path, 'read_tag': { 'elements': 4 }} )
print( "Read Tag  FAULTY[0-3] (error cleared): status 0x%02x, data %r" % ( r.status, r.read_tag.get( 'data' )))

if w.status != 0x00 and r.read_tag.data != [ 10, 20, 30, 40 ]:
    print( "CONTRADICTION: the write was refused (0x%02x), expected the tag to keep [10, 20, 30, 40]; observed %r" % (
        w.status, r.read_tag.data ))
    sys.exit( 1 )
print( "OK" )
sys.exit( 0 )
