#!/usr/bin/env python
"""C03 defect 7: a tag bound to an explicit address in the Message Router and an auto-allocated tag end
up sharing one Attribute, without any complaint: a write to one changes the other.

enip_server  Level=INT[4]  Speed=INT[4]  Limit@2/1/2=INT[4]

logix.setup_tag allocates Level at @2/1/1 and Speed at the next free Attribute, @2/1/2 -- it does not
know that @2/1/2 is reserved for Limit further down the command line.  When Limit@2/1/2 is set up, the
Attribute found there ( Speed's ) has the same type and length, which setup_tag takes as "the Attribute
is known, use it" ( with another type or length the same command line is refused: "Incompatible
Attribute types" ).  Speed and Limit are now one array.  ( Listing Limit first avoids the collision. )

Expected: three independent tags ( the automatic allocation should skip the addresses that are bound
explicitly, or the collision should be refused as it is for different types ); observed: Write Tag
Limit changes what Read Tag Speed returns.
"""
from __future__ import print_function
import sys, logging
import cpppo
from cpppo.server import enip
from cpppo.server.enip import logix, device, parser

logging.getLogger().setLevel( logging.CRITICAL )

def request( Obj, req ):
    enc			= Obj.produce( cpppo.dotdict( req ))
    data		= cpppo.dotdict()
    with Obj.parser as machine:
        for _ in machine.run( source=cpppo.rememberable( enc ), data=data ):
            pass
    Obj.request( data )
    return data

enip.lookup_reset()
logix.setup_reset()
tags			= cpppo.dotdict()
for name,adr in [ ( 'Level', None ), ( 'Speed', None ), ( 'Limit', '@2/1/2' ) ]:	# as main() builds them
    entry		= cpppo.dotdict()
    entry.attribute	= device.Attribute( name, parser.INT, default=[ 0 ] * 4 )
    entry.path		= None if adr is None else { 'segment': device.parse_path( adr ) }
    entry.error		= 0
    dict.__setitem__( tags, name, entry )
logix.setup( tags=tags )
Obj			= device.lookup( 0x02, 1 )
print( "addresses: %r" % ( dict( ( n, device.resolve_tag( n )) for n in ( 'Level', 'Speed', 'Limit' )), ))

def write( name, values ):
    r			= request( Obj, { 'path': { 'segment': [ cpppo.dotdict( symbolic=name ) ] },
                                          'write_tag': { 'type': parser.INT.tag_type, 'elements': len( values ), 'data': values }} )
    assert r.status == 0, "Write Tag %s: status 0x%02x" % ( name, r.status )
def read( name ):
    r			= request( Obj, { 'path': { 'segment': [ cpppo.dotdict( symbolic=name ) ] }, 'read_tag': { 'elements': 4 }} )
    assert r.status == 0, "Read Tag %s: status 0x%02x" % ( name, r.status )
    return r.read_tag.data

write( 'Speed', [ 1, 2, 3, 4 ] )
write( 'Limit', [ 9, 9, 9, 9 ] )
speed			= read( 'Speed' )
print( "Write Tag Speed = 1,2,3,4; Write Tag Limit = 9,9,9,9; Read Tag Speed --> %r" % ( speed, ))
if speed != [ 1, 2, 3, 4 ]:
    print( "CONTRADICTION: expected Speed to keep [1, 2, 3, 4] (a write changes only the addressed tag); observed %r" % ( speed, ))
    sys.exit( 1 )
print( "OK" )
sys.exit( 0 )
