#!/usr/bin/env python
"""C03 defect 1: a Write Tag Fragmented of a STRING (or SSTRING) array whose second fragment begins at
byte offset 80 is stored at element 1 instead of where the first fragment ended.

The byte .offset of a fragmented transfer counts the bytes of the data transmitted so far.
Logix.reply_elements converts it into an element index by dividing by parser.struct_calcsize, which
for STRING / SSTRING is the constant 80 ("average size used for estimations").  A client that tiles a
write of 20 strings into two fragments of 10 strings, each string encoded in 8 bytes (2 length + 6
text), sends the second fragment with offset 80: the simulator acknowledges it with status 0 and stores
it at elements [1,11), destroying 9 of the elements of the first fragment and leaving [11,20) empty.
( Any other offset is refused; offset 160 lands on element 2, etc. )

Expected: elements [0,10) keep the first fragment; the second fragment is either stored at [10,20) or
refused with an error status -- never stored somewhere else.
"""
from __future__ import print_function
import sys, logging
import cpppo
from cpppo.server import enip
from cpppo.server.enip import logix, device, parser

logging.getLogger().setLevel( logging.CRITICAL )

def request( Obj, req ):
    enc			= Obj.produce( cpppo.dotdict( req ))
    data		= cpppo.dotdict()
    with Obj.parser as machine:
        for _ in machine.run( source=cpppo.rememberable( enc ), data=data ):
            pass
    Obj.request( data )
    return data

enip.lookup_reset()
Obj			= logix.Logix( instance_id=1 )
att = Obj.attribute['1']= device.Attribute( 'NAMES', parser.STRING, default=[''] * 20 )
device.redirect_tag( 'NAMES', { 'class': Obj.class_id, 'instance': Obj.instance_id, 'attribute': 1 })

first			= [ 'first%d' % i for i in range( 10 ) ]	# 10 x ( 2 + 6 ) == 80 bytes
second			= [ 'secnd%d' % i for i in range( 10 ) ]
assert len( b''.join( parser.STRING.produce( s ) for s in first )) == 80

path			= { 'segment': [ cpppo.dotdict( symbolic='NAMES' ) ] }
r1			= request( Obj, { 'path': path, 'write_frag': {
    'type': parser.STRING.tag_type, 'elements': 20, 'offset': 0, 'data': first }} )
r2			= request( Obj, { 'path': path, 'write_frag': {
    'type': parser.STRING.tag_type, 'elements': 20, 'offset': 80, 'data': second }} )
print( "fragment 1 status 0x%02x, fragment 2 (offset 80) status 0x%02x" % ( r1.status, r2.status ))
print( "tag now: %r" % ( att.value, ))

ok_stored		= att.value == first + second
ok_refused		= r2.status != 0 and att.value == first + [''] * 10
if r1.status == 0 and ( ok_stored or ok_refused ):
    print( "OK" )
    sys.exit( 0 )
print( "CONTRADICTION: expected elements [0,10) == %r and [10,20) == %r (or untouched, with an error status)" % (
    first, second ))
print( "               observed status 0x%02x and elements %r" % ( r2.status, att.value ))
sys.exit( 1 )
