#!/usr/bin/env python
"""C03 defect 2: Read Tag Fragmented of a STRING (or SSTRING) array with a non-zero byte offset returns
the wrong elements, with a success status.

A STRING[20] tag holds 'name00' .. 'name19' (each 2 + 6 == 8 bytes on the wire, 160 bytes in all).  Read
Tag Fragmented of 20 elements returns the first 7 strings (56 bytes) with status 0x06 (more to come).
The protocol's continuation -- the same request with offset 56 -- is refused (0xFF), so elements [7,20)
can never be fetched as part of the range the client asked for.  Worse, offset 80 (which is the first
byte of element 10) is answered with status 0x06 and elements [1,8): Logix.reply_elements divides the
byte offset by parser.STRING.struct_calcsize, a constant 80 "used for estimations".

Expected for offset 80: the strings beginning at element 10 (that is where byte 80 of the data is), or an
error status if offsets into string data are not supported.  Never data from somewhere else.
"""
from __future__ import print_function
import sys, logging
import cpppo
from cpppo.server import enip
from cpppo.server.enip import logix, device, parser

logging.getLogger().setLevel( logging.CRITICAL )

def request( Obj, req ):
    enc			= Obj.produce( cpppo.dotdict( req ))
    data		= cpppo.dotdict()
    with Obj.parser as machine:
        for _ in machine.run( source=cpppo.rememberable( enc ), data=data ):
            pass
    Obj.request( data )
    reply		= cpppo.dotdict()
    with Obj.parser as machine:
        for _ in machine.run( source=cpppo.rememberable( bytes( data.input )), data=reply ):
            pass
    return reply

enip.lookup_reset()
Obj			= logix.Logix( instance_id=1 )
names			= [ 'name%02d' % i for i in range( 20 ) ]
att = Obj.attribute['1']= device.Attribute( 'NAMES', parser.STRING, default=list( names ))
device.redirect_tag( 'NAMES', { 'class': Obj.class_id, 'instance': Obj.instance_id, 'attribute': 1 })
path			= { 'segment': [ cpppo.dotdict( symbolic='NAMES' ) ] }

bad			= []
for offset in ( 56, 80 ):
    r			= request( Obj, { 'path': path, 'read_frag': { 'elements': 20, 'offset': offset }} )
    got			= r.get( 'read_frag.data' )
    print( "Read Tag Fragmented NAMES, 20 elements, offset %3d: status 0x%02x, data %r" % ( offset, r.status, got ))
    if r.status in ( 0x00, 0x06 ):
        beg		= offset // 8			# every element is 8 bytes on the wire
        if got != names[beg:beg+len( got )]:
            bad.append( "offset %d: expected data beginning with element %d (%r) or an error status; observed status 0x%02x and %r" % (
                offset, beg, names[beg], r.status, got ))
if bad:
    print( "CONTRADICTION:" )
    for b in bad:
        print( "  " + b )
    sys.exit( 1 )
print( "OK" )
sys.exit( 0 )
