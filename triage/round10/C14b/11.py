#!/usr/bin/env python
"""Shared by the defect reproducers: starts the simulator in-process, and a reference EtherNet/IP client
written from the CIP tables ( no cpppo code on the client side )."""
from __future__ import print_function

import socket
import struct
import threading
import time

from cpppo.dotdict import dotdict, apidict
from cpppo.server.enip import main as enip_main

PORT				= 44818

def simulator( tags, extra=(), **kwds ):
    ctl				= dotdict( control=apidict( timeout=1.0 ))
    ctl.control.done		= False
    argv			= [ '--no-config', '--address', '127.0.0.1:%d' % PORT ] + list( extra ) + list( tags )
    thr				= threading.Thread( target=enip_main.main, kwargs=dict( argv=argv, server=ctl, **kwds ))
    thr.daemon			= True
    thr.start()
    for _ in range( 100 ):
        try:
            socket.create_connection( ('127.0.0.1', PORT), timeout=.5 ).close()
            break
        except Exception:
            time.sleep( .1 )
    else:
        raise RuntimeError( "simulator didn't start" )
    def stop():
        ctl.control.done	= True
        thr.join( 5 )
    return stop


def hexs( octets ):
    return ' '.join( '%02x' % b for b in bytearray( octets ))


def symbolic( tag, *elements ):
    path			= b''
    for name in tag.split( '.' ):
        name			= name.encode( 'iso-8859-1' )
        path		       += b'\x91' + struct.pack( 'B', len( name )) + name + ( b'\x00' if len( name ) % 2 else b'' )
    for element in elements:
        path		       += struct.pack( 'BB', 0x28, element )
    return struct.pack( 'B', len( path ) // 2 ) + path

def read_tag( tag, count=1, *elements ):
    return b'\x4C' + symbolic( tag, *elements ) + struct.pack( '<H', count )

def read_frag( tag, count=1, offset=0, *elements ):
    return b'\x52' + symbolic( tag, *elements ) + struct.pack( '<HI', count, offset )

def write_tag( tag, typ, count, data, *elements ):
    return b'\x4D' + symbolic( tag, *elements ) + struct.pack( '<HH', typ, count ) + data

def write_frag( tag, typ, count, offset, data, *elements ):
    return b'\x53' + symbolic( tag, *elements ) + struct.pack( '<HHI', typ, count, offset ) + data

def multiple( *requests ):
    offsets,offset		= [],2 + 2 * len( requests )
    for r in requests:
        offsets.append( offset )
        offset		       += len( r )
    return b'\x0A\x02\x20\x02\x24\x01' + struct.pack( '<H', len( requests )) \
        + b''.join( struct.pack( '<H', o ) for o in offsets ) + b''.join( requests )


class Reference( object ):
    VENDOR,SERIAL		= 0x1337, 0x00C0FFEE

    def __init__( self, register=True ):
        self.sock		= socket.create_connection( ('127.0.0.1', PORT), timeout=5 )
        self.session		= 0
        self.sequence		= 0
        if register:
            self.send( 0x65, struct.pack( '<HH', 1, 0 ))
            cmd,ses,sts,body	= self.recv()
            assert ( cmd, sts ) == ( 0x65, 0 ) and ses, "Register Session failed"
            self.session	= ses

    def send( self, cmd, payload=b'', context=b'C14defct' ):
        self.sock.sendall( struct.pack( '<HHII8sI', cmd, len( payload ), self.session, 0, context, 0 ) + payload )

    def recv( self ):
        def exactly( n ):
            buf			= b''
            while len( buf ) < n:
                got		= self.sock.recv( n - len( buf ))
                assert got, "EOF from simulator"
                buf	       += got
            return buf
        cmd,siz,ses,sts,ctx,opt	= struct.unpack( '<HHII8sI', exactly( 24 ))
        return cmd,ses,sts,exactly( siz )

    def unconnected( self, cip, wrap=False ):
        """SendRRData; w/ wrap, inside an Unconnected Send via the Connection Manager to port 1, link 0"""
        if wrap:
            cip			= b'\x52\x02\x20\x06\x24\x01' + struct.pack( '<BBH', 5, 157, len( cip )) + cip \
                                  + ( b'\x00' if len( cip ) % 2 else b'' ) + b'\x01\x00\x01\x00'
        self.send( 0x6F, struct.pack( '<IHHHHHH', 0, 5, 2, 0, 0, 0xB2, len( cip )) + cip )
        cmd,ses,sts,body	= self.recv()
        assert ( cmd, sts ) == ( 0x6F, 0 ), "SendRRData failed: status %#x" % sts
        ifc,tmo,cnt,t0,l0,t1,l1	= struct.unpack_from( '<IHHHHHH', body, 0 )
        assert ( cnt, t0, l0, t1 ) == ( 2, 0, 0, 0xB2 ) and l1 == len( body ) - 16, "bad CPF framing"
        return body[16:]

    def forward_open( self, serial=0x0101, t_o_id=0x20000001 ):
        path			= b'\x01\x00\x20\x02\x24\x01'
        cip			= b'\x54\x02\x20\x06\x24\x01' \
            + struct.pack( '<BBIIHHIB3x', 10, 14, 0, t_o_id, serial, self.VENDOR, self.SERIAL, 1 ) \
            + struct.pack( '<IHIHB', 2000000, 0x43F4, 2000000, 0x43F4, 0xA3 ) \
            + struct.pack( 'B', len( path ) // 2 ) + path
        rpy			= self.unconnected( cip )
        svc,rsv,sts,ext		= struct.unpack_from( '<BBBB', rpy, 0 )
        assert ( svc, rsv, sts, ext ) == ( 0xD4, 0, 0, 0 ), "Forward Open refused: %r" % rpy
        self.o_t,self.t_o	= struct.unpack_from( '<II', rpy, 4 )
        assert self.t_o == t_o_id, "Forward Open reply doesn't echo the T->O connection ID"
        return self.o_t

    def connected( self, cip ):
        """SendUnitData; returns (<connection ID of the reply's address item>, <sequence>, <CIP reply>)"""
        self.sequence	       += 1
        self.send( 0x70, struct.pack( '<IHHHHIHHH', 0, 0, 2, 0xA1, 4, self.o_t, 0xB1, 2 + len( cip ), self.sequence ) + cip )
        cmd,ses,sts,body	= self.recv()
        assert ( cmd, sts ) == ( 0x70, 0 ), "SendUnitData failed: status %#x" % sts
        ifc,tmo,cnt,t0,l0,cid,t1,l1,seq = struct.unpack_from( '<IHHHHIHHH', body, 0 )
        assert ( cnt, t0, l0, t1 ) == ( 2, 0xA1, 4, 0xB1 ) and l1 == len( body ) - 20, "bad CPF framing"
        return cid,seq,body[22:]


DOC = '''C14 defect 11: a connection is never really closed ( or needed ): SendUnitData on a connection ID that was closed
with Forward Close - or never opened with Forward Open - is served like any other, and a Forward Close that
names no open connection is acknowledged with status 0x00.

CIP Vol.1 3-5.5 ( Connection Manager service status codes ): Forward Close of a connection that doesn't exist
--> general status 0x01, extended status 0x0107 ( target connection not found ); a connected message whose
Connected Address item names no established connection has no connection to be delivered on, and is dropped.
Connection_Manager.request looks the connection up in .forwards, and falls back to treating the request like
an unconnected one when it isn't there.

Observed: a Read Tag over the closed connection, and over the made-up connection ID 0x12345678, is answered
          cc 00 00 00 ...; Forward Close of connection serial 0x7777 ( never opened ) --> ce 00 00 00 ...
Expected: no answer on connections that don't exist; ce 00 01 01 07 01 ... for the Forward Close.
'''
def forward_close( ref, serial ):
    path			= b'\x01\x00\x20\x02\x24\x01'
    return ref.unconnected( b'\x4E\x02\x20\x06\x24\x01' + struct.pack( '<BBHHI', 10, 14, serial, ref.VENDOR, ref.SERIAL )
                            + struct.pack( 'BB', len( path ) // 2, 0 ) + path )

def answered( ref, cip ):
    ref.sock.settimeout( 2 )
    try:
        return ref.connected( cip )[2]
    except ( socket.timeout, AssertionError ):
        return None

def main():
    stop			= simulator( [ 'Speed=DINT[4]' ] )
    try:
        ref			= Reference()
        ref.forward_open( serial=0x0101 )
        assert bytearray( ref.connected( read_tag( 'Speed', 1 ))[2] )[2] == 0x00
        close			= forward_close( ref, 0x0101 )
        assert close[:4] == b'\xCE\x00\x00\x00', "Forward Close failed: %s" % hexs( close )
        after			= answered( ref, read_tag( 'Speed', 1 ))
        bogus			= forward_close( Reference(), 0x7777 )
        never			= Reference()
        never.o_t		= 0x12345678
        unopened		= answered( never, read_tag( 'Speed', 1 ))
    finally:
        stop()
    show			= lambda r: "(no answer)" if r is None else hexs( r )
    print( "Read Tag on the connection after its Forward Close : %s" % show( after ))
    print( "Read Tag on connection 0x12345678, never opened    : %s" % show( unopened ))
    print( "Forward Close of connection serial 0x7777          : %s" % show( bogus ))
    bad				= 0
    if after is not None or unopened is not None:
        print( "CONTRADICTION: observed an answer on a connection that doesn't exist; expected none" )
        bad			= 1
    if bogus[:8] != b'\xCE\x00\x01\x01\x07\x01':
        print( "CONTRADICTION: observed Forward Close status %#04x for a connection that doesn't exist; expected 0x01 / 0x0107" % bytearray( bogus )[2] )
        bad			= 1
    print( "OK" if not bad else "" )
    return bad


if __name__ == "__main__":
    import sys
    print( DOC )
    sys.exit( main() )
