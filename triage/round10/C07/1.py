"""C07 defect 1 (unchanged code): a Read Tag Fragmented (0x52) of a tag that is configured to fail with
an error code below 0x10 (the simulator's tags.<name>.error, settable through its web API) is
answered D2 00 <status> 00 -- without the extended status word every other error reply to service
0x52 carries since "fix: an error reply to Read Tag Fragmented (0x52) always carries an extended
status word".  Sent alone, that reply is byte-identical to a failed Unconnected Send, and the client
raises SENDStatusError instead of reporting the failed read; inside a Multiple Service Packet the
same request yields an ordinary reply with that status.  So the same request is answered
differently alone and bundled.

Expected: alone and bundled the operation yields (status 0x04, no value), and its neighbours their values.
"""
from __future__ import print_function
import logging
import sys
import threading
import time

logging.disable( logging.WARNING )

import cpppo
from cpppo.server import enip
from cpppo.server.enip import client, device, logix, parser
from cpppo.server.enip import main as enip_main_module

PORT				= 44818

def serve( port ):
    device.lookup_reset()
    logix.setup_reset()
    control			= cpppo.apidict( enip.timeout, { 'done': False } )
    kwargs			= dict( argv=[ '--address', 'localhost:%d' % port, 'A=DINT[10]', 'B=INT[20]' ],
                                        server={ 'control': control } )
    thread			= threading.Thread( target=enip_main_module.main, kwargs=kwargs )
    thread.daemon		= True
    thread.start()
    return control,thread

def run( port, multiple ):
    for attempt in range( 50 ):
        try:
            conn		= client.connector( host='localhost', port=port, timeout=5 )
            break
        except Exception:
            time.sleep( .1 )
    results			= []
    with conn:
        try:
            for idx,dsc,req,rpy,sts,val in conn.pipeline(
                    operations=client.parse_operations( [ 'B[0-2]', 'A[0-1]', 'B[3]' ] ),
                    fragment=True, multiple=multiple, depth=1, timeout=5 ):
                # general status only: an extended status word may (and, alone, should) accompany it
                results.append( (sts[0] if isinstance( sts, tuple ) else sts, list( val ) if isinstance( val, list ) else val) )
        except Exception as exc:
            results.append( "%s: %s" % ( exc.__class__.__name__, str( exc ).split( '\n' )[0][:100] ))
    return results

outcome				= {}
for multiple in ( 0, 500 ):
    PORT		       += 1
    control,thread		= serve( PORT )
    try:
        time.sleep( .5 )
        enip_main_module.tags['A'].error = 0x04		# as the web API does: .../api/tags/A/error=4
        outcome[multiple]	= run( PORT, multiple )
    finally:
        control.done		= True
        thread.join( 10 )

expected			= [ (0, [0, 0, 0]), (4, None), (0, [0]) ]
print( "expected  : %r" % ( expected, ))
print( "one by one: %r" % ( outcome[0], ))
print( "bundled   : %r" % ( outcome[500], ))
if outcome[0] != expected or outcome[500] != expected:
    print( "CONTRADICTION: the Read Tag Fragmented of a tag with a forced error 0x04 is answered differently alone and bundled" )
    sys.exit( 1 )
print( "OK" )
