"""C07 defect 4 (unchanged code; a corner outside the property's "reads, writes, fragmented and attribute
services", reported for completeness): state_multiple_service.closure parses every embedded request
with the parser of the Object the Multiple Service Packet is addressed to (the Message Router), whereas
Connection_Manager.request parses a lone request with the parser of the Object the request's own path
names.  Objects with a parser / service table of their own (the Connection Manager: Forward Open /
Close) therefore serve a request alone, but the identical octets embedded in a Multiple Service Packet
"fail to parse" and are answered 0x08 Service not supported -- although Message_Router.request would
route the parsed request to that very Object.

Expected: the Forward Open embedded in the bundle gets the reply (status 0x00) it gets alone.
"""
from __future__ import print_function
import logging
import struct
import sys

logging.disable( logging.CRITICAL )

import cpppo
from cpppo import dotdict
from cpppo.server.enip import device, logix, parser


def fresh():
    device.lookup_reset()
    logix.setup_reset()
    device.Identity( instance_id=1 )
    logix.Logix( instance_id=1 )
    return device.Connection_Manager( instance_id=1 )


def send( CM, req ):
    data			= dotdict()
    data.request		= dotdict( input=bytearray( req ))
    CM.request( data, addr=('127.0.0.1', 12345) )
    return bytes( data.request.input )


fo				= dotdict()
fo.path				= { 'segment': [ dotdict( { 'class': 6 } ), dotdict( instance=1 ) ] }
fo.forward_open			= dotdict(
    priority_time_tick=5, timeout_ticks=157, connection_serial=1, O_vendor=2, O_serial=3,
    connection_timeout_multiplier=0, transport_class_triggers=0xa3 )
fo.forward_open.O_T		= dotdict( connection_ID=0,      RPI=2000000, NCP=0x43f4 )
fo.forward_open.T_O		= dotdict( connection_ID=0x1234, RPI=2000000, NCP=0x43f4 )
fo.forward_open.connection_path	= { 'segment': [ dotdict( port=1, link=0 ), dotdict( { 'class': 2 } ), dotdict( instance=1 ) ] }
request				= bytes( device.Connection_Manager.produce( fo ))

alone				= send( fresh(), request )
reply				= send( fresh(), b'\x0a\x02\x20\x02\x24\x01' + struct.pack( '<HH', 1, 4 ) + request )
assert reply[:4] == b'\x8a\x00\x00\x00', "Multiple Service Packet failed: %r" % ( reply, )
bundled				= reply[4+4:]

print( "alone  : service 0x%02x status 0x%02x (%d octets)" % ( bytearray( alone )[0], bytearray( alone )[2], len( alone )))
print( "bundled: service 0x%02x status 0x%02x (%d octets)" % ( bytearray( bundled )[0], bytearray( bundled )[2], len( bundled )))
if bytearray( alone )[2] != bytearray( bundled )[2] or len( alone ) != len( bundled ):
    print( "CONTRADICTION: the Forward Open is served alone, but refused inside a Multiple Service Packet (expected the same reply)" )
    sys.exit( 1 )
print( "OK" )
