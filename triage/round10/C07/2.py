"""C07 defect 2 (unchanged code): a tag configured to fail with error code 0x06 (tags.<name>.error = 6).
Logix.request sets data.status = 0x06, raises, and its own handler refuses that status ("must
specify .status not in (0x00, 0x06)") -- so the exception escapes Logix.request.

 * Sent alone, Connection_Manager.request answers the request from scratch: CC 00 08 00.
 * Inside a Multiple Service Packet, Message_Router.request keeps the status the target left behind
   ( "if not r.get( 'status' )" ) and answers CC 00 06 00: status 0x06 "partial data" without type or data.
   The client cannot parse that member (a Read Tag reply with status 0x00/0x06 carries type + data), replaces
   it by a stand-in without .status, and connector.collect dies with AttributeError 'status' -- the replies of
   the neighbours in the bundle are lost with it.

Expected: the member reply inside the bundle equals the reply to the lone request, and the bundle reply
can be unbundled by the client's parser into replies that all carry a status.
"""
from __future__ import print_function
import contextlib
import logging
import struct
import sys

logging.disable( logging.CRITICAL )

import cpppo
from cpppo import dotdict
from cpppo.server.enip import device, logix, parser


def fresh():
    device.lookup_reset()
    logix.setup_reset()
    device.Identity( instance_id=1 )
    Lx				= logix.Logix( instance_id=1 )
    CM				= device.Connection_Manager( instance_id=1 )
    for att,(name,typ,vals,err) in enumerate( [
            ( 'A', parser.DINT, list( range( 10 )), 0 ),
            ( 'E', parser.DINT, [ 7, 8 ], 0x06 ),
            ( 'B', parser.INT,  list( range( 100, 120 )), 0 ) ], start=1 ):
        Lx.attribute[str(att)]	= device.Attribute( name, typ, default=vals, error=err )
        device.redirect_tag( name, { 'class': Lx.class_id, 'instance': Lx.instance_id, 'attribute': att })
    return CM,Lx


def send( CM, req ):
    data			= dotdict()
    data.request		= dotdict( input=bytearray( req ))
    CM.request( data, addr=('127.0.0.1', 12345) )
    return bytes( data.request.input )


def read( name, elements ):
    return bytes( logix.Logix.produce( dotdict(
        path={ 'segment': [ dotdict( symbolic=name ) ] }, read_tag={ 'elements': elements })))


members				= [ read( 'A', 2 ), read( 'E', 2 ), read( 'B', 2 ) ]

CM,Lx				= fresh()
alone				= [ send( CM, m ) for m in members ]

CM,Lx				= fresh()
offsets,o			= [],2 + 2 * len( members )
for m in members:
    offsets.append( o )
    o			       += len( m )
reply				= send( CM, b'\x0a\x02\x20\x02\x24\x01' + struct.pack( '<H', len( members ))
                                        + b''.join( struct.pack( '<H', o ) for o in offsets ) + b''.join( members ))
assert reply[:4] == b'\x8a\x00\x00\x00', "Multiple Service Packet failed: %r" % ( reply, )
body				= reply[4:]
number,				= struct.unpack( '<H', body[:2] )
rpyoffs				= list( struct.unpack( '<%dH' % number, body[2:2+2*number] ))
bundled				= [ body[b:e] for b,e in zip( rpyoffs, rpyoffs[1:] + [len( body )] ) ]

# And what the client makes of the bundle's reply
parsed				= dotdict()
with Lx.parser as machine:
    with contextlib.closing( machine.run( source=cpppo.peekable( reply ), data=parsed )) as engine:
        for m,s in engine:
            pass
statuses			= [ r.get( 'status' ) for r in parsed.multiple.request ]

print( "one by one        : %r" % ( alone, ))
print( "bundled           : %r" % ( bundled, ))
print( "bundle as parsed by the client, member statuses: %r" % ( statuses, ))
failed				= False
if bundled != alone:
    print( "CONTRADICTION: the member replies differ from the replies to the lone requests (expected the same)" )
    failed			= True
if any( s is None for s in statuses ):
    print( "CONTRADICTION: the client finds no status in member(s) %r of the bundle's reply (expected one for each)" % (
        [ i for i,s in enumerate( statuses ) if s is None ], ))
    failed			= True
sys.exit( 1 if failed else 0 )
