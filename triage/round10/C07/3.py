"""C07 defect 3 (unchanged code, client side): client.enip_replies raises MSVCStatusError for ANY non-zero
general status of a Multiple Service Packet reply -- including 0x1E "Embedded service error", the
status a C*Logix (and the CIP specification, Vol 1 App. A) uses for a bundle in which one or more
embedded services failed, and which carries ALL the individual replies.  cpppo's own reply parser
(device.__multiple_reply: "only if general reply status is 0x00/Success or 0x1E/Embedded service
error") and producer (Message_Router.produce: "if data.status in (0x00, 0x1E)") decode / encode the
members of such a reply; the unbundling then throws them away.  One failing request in a bundle (an
unknown tag) thereby costs the replies of all its neighbours, while sent one by one every request gets
its own reply.

The reproducer relays the traffic between the cpppo client and the cpppo simulator through a tiny TCP
forwarder on localhost that does what such a device does: in a Multiple Service Packet reply that
contains a failed member it sets the general status 0x00 -> 0x1E (nothing else is touched).

Expected: bundled, the operations yield the same (status, value) as one by one.
"""
from __future__ import print_function
import logging
import select
import socket
import struct
import sys
import threading
import time

logging.disable( logging.WARNING )

import cpppo
from cpppo.server import enip
from cpppo.server.enip import client, device, logix, parser
from cpppo.server.enip import main as enip_main_module

SERVER_PORT			= 44819
RELAY_PORT			= 44820

def serve( port ):
    device.lookup_reset()
    logix.setup_reset()
    dict.clear( enip_main_module.tags )
    control			= cpppo.apidict( enip.timeout, { 'done': False } )
    kwargs			= dict( argv=[ '--address', 'localhost:%d' % port, 'A=DINT[10]', 'B=INT[20]' ],
                                        server={ 'control': control } )
    thread			= threading.Thread( target=enip_main_module.main, kwargs=kwargs )
    thread.daemon		= True
    thread.start()
    return control,thread


def embedded_service_error( frame ):
    """Given a whole EtherNet/IP frame from the simulator: if it is a SendRRData carrying a Multiple
    Service Packet reply with general status 0 in which some member has a non-zero status, make the
    general status 0x1E."""
    frame			= bytearray( frame )
    command,			= struct.unpack( '<H', bytes( frame[0:2] ))
    o				= 24 + 4 + 2 + 2 + 4 + 4	# header, interface, timeout, count, item 0, item 1 type+length
    if command == 0x006f and len( frame ) > o + 6 and frame[o] == 0x8A and frame[o+2] == 0x00:
        body			= frame[o+4:]
        number,			= struct.unpack( '<H', bytes( body[0:2] ))
        offsets			= struct.unpack( '<%dH' % number, bytes( body[2:2+2*number] ))
        if any( body[off+2] not in ( 0x00, 0x06 ) for off in offsets ):
            frame[o+2]		= 0x1E
    return bytes( frame )


def relay( listener, target, done ):
    listener.settimeout( .2 )
    while not done:
        try:
            cli,_		= listener.accept()
        except socket.timeout:
            continue
        srv			= socket.create_connection( target )
        pending			= b''
        try:
            while not done:
                r,_,_		= select.select( [ cli, srv ], [], [], .2 )
                if cli in r:
                    data	= cli.recv( 65536 )
                    if not data:
                        break
                    srv.sendall( data )
                if srv in r:
                    data	= srv.recv( 65536 )
                    if not data:
                        break
                    pending    += data
                    while len( pending ) >= 24:
                        length,	= struct.unpack( '<H', pending[2:4] )
                        if len( pending ) < 24 + length:
                            break
                        cli.sendall( embedded_service_error( pending[:24+length] ))
                        pending	= pending[24+length:]
        finally:
            cli.close()
            srv.close()


def run( port, multiple ):
    for attempt in range( 50 ):
        try:
            conn		= client.connector( host='localhost', port=port, timeout=5 )
            break
        except Exception:
            time.sleep( .1 )
    results			= []
    with conn:
        try:
            for idx,dsc,req,rpy,sts,val in conn.pipeline(
                    operations=client.parse_operations( [ 'A[0-1]', 'NoSuchTag', 'B[3]=7', 'B[2-3]' ] ),
                    multiple=multiple, depth=1, timeout=5 ):
                results.append( (sts[0] if isinstance( sts, tuple ) else sts, list( val ) if isinstance( val, list ) else val) )
        except Exception as exc:
            results.append( "%s: %s" % ( exc.__class__.__name__, str( exc ).split( '\n' )[0][:100] ))
    return results


control,thread			= serve( SERVER_PORT )
listener			= socket.socket( socket.AF_INET, socket.SOCK_STREAM )
listener.setsockopt( socket.SOL_SOCKET, socket.SO_REUSEADDR, 1 )
listener.bind( ('localhost', RELAY_PORT) )
listener.listen( 5 )
done				= []
relayer				= threading.Thread( target=relay, args=( listener, ('localhost', SERVER_PORT), done ))
relayer.daemon			= True
relayer.start()
try:
    time.sleep( .5 )
    alone			= run( RELAY_PORT, 0 )
    bundled			= run( RELAY_PORT, 500 )
finally:
    done.append( True )
    control.done		= True
    thread.join( 10 )
    relayer.join( 5 )
    listener.close()

print( "one by one: %r" % ( alone, ))
print( "bundled   : %r" % ( bundled, ))
if bundled != alone:
    print( "CONTRADICTION: a bundle answered with general status 0x1E (Embedded service error) loses all its replies;"
           " expected the replies the requests get one by one" )
    sys.exit( 1 )
print( "OK" )
