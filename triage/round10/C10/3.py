#!/usr/bin/env python
"""
C10 / Part B, contradiction 3: the Unconnected Send error look-ahead does not survive a block boundary.

unconnected_send.is_uerr ( server/enip/parser.py ) decides about a 0xD2 item of 4..6 octets by taking
four symbols with next( source ) and pushing them back.  Its repair ( "the Unconnected Send error
look-ahead stays within the item it decides about" ) bounded the look-ahead by the item's *length*, but
not by what the source can deliver right now:  when the item's four octets straddle two chained input
blocks, next() raises StopIteration inside the predicate -- it escapes state.transition as
RuntimeError( "generator raised StopIteration" ) -- and the 1..3 symbols already taken are never pushed
back ( source.sent stays advanced, the octets are gone ).  Every other state of the framework yields
a non-transition and resumes when the next block is chained.

So the very same CPF list parses when it is presented whole, or split anywhere outside the look-ahead,
and fails ( having swallowed symbols it does not own yet ) when it is split inside the look-ahead.

Expected: identical result ( same data, same source.sent ) for every split of the input.
"""
from __future__ import print_function

import logging
import sys

import cpppo
from cpppo.server.enip import parser

logging.disable( logging.CRITICAL )

# CPF: 2 items; NULL address, then Unconnected Data of 4 octets: D2 00 05 00 -- a service 0x52 error reply, status 0x05
message				= b'\x02\x00' b'\x00\x00\x00\x00' b'\xb2\x00\x04\x00' b'\xd2\x00\x05\x00'


def parse( blocks ):
    data			= cpppo.dotdict()
    blocks			= list( blocks )
    source			= cpppo.chainable( blocks.pop( 0 ))
    exc				= None
    try:
        with parser.CPF( terminal=True ) as machine:
            for m,s in machine.run( source=source, path='demo', data=data ):
                if s is None and source.peek() is None and blocks:
                    source.chain( blocks.pop( 0 ))
            terminal		= machine.terminal
    except Exception as e:
        exc			= e
        terminal		= False
    pending			= sum( len( b ) for b in blocks )
    return terminal, source.sent, pending, exc, data.get( 'demo.CPF.item' )


whole				= parse( [message] )
print( "whole       : terminal %-5s consumed %2d, items %r" % ( whole[0], whole[1], whole[4] ))
failures			= []
for cut in range( 1, len( message )):
    terminal, sent, pending, exc, items = parse( [message[:cut], message[cut:]] )
    print( "split at %2d : terminal %-5s consumed %2d%s%s" % (
        cut, terminal, sent,
        ( ", %d octets never asked for" % pending ) if pending else "",
        ( ", raised %s: %s" % ( type( exc ).__name__, exc )) if exc else "" ))
    if ( terminal, sent, repr( items )) != ( whole[0], whole[1], repr( whole[4] )):
        failures.append( "split at %d: terminal %s, consumed %d of the %d delivered, %s; whole: terminal %s, consumed %d" % (
            cut, terminal, sent, cut, ( "raised %r" % ( exc, )) if exc else "no exception", whole[0], whole[1] ))

if failures:
    print( "\nCONTRADICTION (observed vs. expected: the same result however the input is split):" )
    for f in failures:
        print( "  - " + f )
    sys.exit( 1 )
print( "\nOK" )
