#!/usr/bin/env python
"""
C10 / Part B, contradiction 2: with a repeat count of 0 the verdict of a dfa depends on its *previous* run.

dfa_base.delegate only calls self.reset() inside its cycle loop; with repeat == 0 ( a constant, or a
count field that parsed as 0 ) no cycle runs, so self.current keeps whatever state the previous use of
the same dfa instance left behind, and dfa_base.terminal ( ... and self.current.terminal and ... )
reports on that stale state:

  - a fresh instance: current is the initial state -- "not terminal" for every sub-machine whose
    initial state is not itself terminal ( words, any multi-state sub-machine ), although running the
    sub-grammar exactly 0 times is precisely what was asked for ( octets( repeat=0 ) *is* terminal );
  - after a successful earlier parse: "terminal";
  - after an earlier parse that failed half way through a cycle: "not terminal".

Same machine, same input, same repeat count 0, three histories -> the library's CPF and status
parsers route around this by hand ( a decide that skips the dfa when the count is 0 ).

Expected: a repeat count of 0 completes ( consuming nothing ), whatever the dfa did before.
"""
from __future__ import print_function

import sys

import cpppo
from cpppo.server.enip import parser


def full( machine, octets, count ):
    data			= cpppo.dotdict()
    data['demo.count']		= count
    source			= cpppo.chainable( octets )
    exc				= None
    try:
        with machine:
            for m,s in machine.run( source=source, path='demo', data=data ):
                pass
    except Exception as e:
        exc			= e
    return machine.terminal, source.sent, exc


machine				= parser.words( context='w', repeat='..count', terminal=True )

history				= []
history.append(( "fresh instance, count 0",		full( machine, b'abcd', 0 )))
history.append(( "count 1 (succeeds)",			full( machine, b'abcd', 1 )))
history.append(( "count 0 after the success",		full( machine, b'abcd', 0 )))
history.append(( "count 1, 1 octet (fails)",		full( machine, b'a',    1 )))
history.append(( "count 0 after the failure",		full( machine, b'abcd', 0 )))

for what,( terminal, sent, exc ) in history:
    print( "%-28s: .terminal == %-5s, consumed %d%s" % (
        what, terminal, sent, ( ", raised %s" % type( exc ).__name__ ) if exc else "" ))

zeros				= [ r for w,r in history if 'count 0' in w ]
failures			= []
if any( sent != 0 or exc for _,sent,exc in zeros ):
    failures.append( "a repeat count of 0 consumed symbols or raised" )
if len( set( terminal for terminal,_,_ in zeros )) != 1:
    failures.append( "repeat count 0: .terminal is %r for the three runs -- it depends on the previous run" % (
        [ terminal for terminal,_,_ in zeros ], ))
if not all( terminal for terminal,_,_ in zeros ):
    failures.append( "repeat count 0: the sub-grammar ran exactly 0 times, but the machine is not complete" )

if failures:
    print( "\nCONTRADICTION (observed vs. expected: complete, every time):" )
    for f in failures:
        print( "  - " + f )
    sys.exit( 1 )
print( "\nOK" )
