#!/usr/bin/env python
"""
C10 / Part B, contradiction 1: a dfa with a repeat count reports .terminal before its last cycle ran.

dfa_base.delegate increments self.cycle *before* the sub-machine of that cycle runs, and
dfa_base.terminal is  self._terminal and self.current.terminal and not self.loop().  For every
machine whose sub-machine's initial state is itself terminal ( octets, every TYPE -- USINT, UINT,
UDINT, ..., the payload of enip_machine ) the freshly reset initial state of the *last* cycle is
"terminal", so .terminal is already True while the last symbol is still awaited: the machine
claims to be complete having run its sub-grammar repeat-1 times.

Anything that stops iterating when it runs out of input and then looks at .terminal ( the pattern of
echo_server, tnet_from, test_octets ) accepts the truncated element;  and closing such a generator
"in a terminal state" masks the GeneratorExit, so state_struct.terminate() tries to decode the
incomplete .input and raises struct.error from close().

Expected: .terminal is False until all `repeat` cycles have completed ( "terminal only after the last
cycle" ), ie. until repeat symbols were consumed.
"""
from __future__ import print_function

import sys

import cpppo
from cpppo.server.enip import parser


def starve( machine, octets, path='demo' ):
    """Run 'til the machine awaits input that isn't there; report .terminal at that point."""
    data			= cpppo.dotdict()
    source			= cpppo.chainable( octets )
    closed			= None
    with machine:
        engine			= machine.run( source=source, path=path, data=data )
        for m,s in engine:
            if s is None and source.peek() is None:
                break
        terminal		= machine.terminal
        try:
            engine.close()
        except Exception as exc:
            closed		= exc
    return terminal, source.sent, closed


header				= b'\x65\x00\x04\x00' + b'\x00' * 20	# RegisterSession, .length == 4
cases				= [
    ( "octets( repeat=3 ), 2 of 3 octets",	lambda: parser.octets( context='o', repeat=3, terminal=True ),	b'ab',	3 ),
    ( "UINT, 1 of 2 octets",			lambda: parser.UINT( context='v', terminal=True ),		b'\x01', 2 ),
    ( "UDINT, 3 of 4 octets",			lambda: parser.UDINT( context='v', terminal=True ),		b'\x01\x02\x03', 4 ),
    ( "enip_machine, 27 of 28 octets",		lambda: parser.enip_machine( terminal=True ),			header + b'\x01\x00\x00', 28 ),
    # For contrast: a sub-machine whose initial state is not terminal behaves
    ( "words( repeat=2 ), 3 of 4 octets",	lambda: parser.words( context='w', repeat=2, terminal=True ),	b'abc',	4 ),
]

failures			= []
for name,make,octets,needs in cases:
    terminal, sent, closed	= starve( make(), octets )
    print( "%-36s: consumed %2d of the %2d symbols required, .terminal == %-5s%s" % (
        name, sent, needs, terminal, ( ", close() raised %r" % ( closed, )) if closed else "" ))
    if terminal and sent < needs:
        failures.append( "%s: .terminal is True after only %d of %d symbols" % ( name, sent, needs ))
    if closed is not None:
        failures.append( "%s: closing the starved generator raised %r" % ( name, closed ))

if failures:
    print( "\nCONTRADICTION (observed vs. expected .terminal == False, clean close):" )
    for f in failures:
        print( "  - " + f )
    sys.exit( 1 )
print( "\nOK" )
