#!/usr/bin/env python
"""
C10 / Part B, contradiction 4: a machine that has reached its symbol limit still looks at the input beyond it.

state.transition takes care never to touch the source once the limit is reached
( `inp = None if limited else source.peek()  # raise TypeError to force stoppage`, and its docstring:
"If we've become symbol limited, we must only follow None transitions; we don't want to consider the
next input symbol at all" ).  But the no-progress "crumbs" are built with an unguarded source.peek():

    state.run:          crumb = (state,source.peek(),source.sent)	# around every transition it yields
    dfa_base.delegate:  seen  = set( [(self.current,source.peek(),source.sent)] )	# start of every cycle
                        crumb = (target,source.peek(),source.sent)

so a limited machine that takes one more no-input ( None ) transition at its boundary, or starts one more
( empty ) sub-dfa there -- STRING, SSTRING of length 0, EPATH, status, CPF, typed_data ... -- pulls one
symbol more than its limit out of the underlying iterator.  With the documented termination sentinel
( chain a non-iterable ) right behind the limited element, the complete and correct element fails with
TypeError;  with a lazily produced input the parser would wait for an octet that is not part of its
element.  UINT, octets or a non-empty SSTRING given the same kind of limit behave.

Expected: with limit == the size of the element, exactly `limit` symbols are taken from the input, and
the element parses whatever follows the limit.
"""
from __future__ import print_function

import sys

import cpppo
from cpppo.server.enip import parser


class counting( object ):
    """An iterator that counts the symbols pulled from it."""
    def __init__( self, octets ):
        self.it			= iter( octets )
        self.pulled		= 0
    def __iter__( self ):
        return self
    def __next__( self ):
        value			= next( self.it )
        self.pulled	       += 1
        return value
    next			= __next__


cases				= [
    ( "UINT",			lambda **kwds: parser.UINT( context='v', terminal=True, **kwds ),	b'\x01\x02' ),
    ( "SSTRING 'ab'",		lambda **kwds: parser.SSTRING( terminal=True, **kwds ),			b'\x02ab' ),
    ( "SSTRING ''",		lambda **kwds: parser.SSTRING( terminal=True, **kwds ),			b'\x00' ),
    ( "STRING 'ab'",		lambda **kwds: parser.STRING( terminal=True, **kwds ),			b'\x02\x00ab' ),
    ( "EPATH class 2",		lambda **kwds: parser.EPATH( terminal=True, **kwds ),			b'\x01\x20\x02' ),
    ( "status 0",		lambda **kwds: parser.status( terminal=True, **kwds ),			b'\x00\x00' ),
    ( "CPF 1 NULL item",	lambda **kwds: parser.CPF( terminal=True, **kwds ),			b'\x01\x00\x00\x00\x00\x00' ),
    ( "typed_data 1 INT",	lambda **kwds: parser.typed_data( terminal=True, tag_type=parser.INT.tag_type, **kwds ), b'\x01\x00' ),
]

failures			= []
for name,make,element in cases:
    limit			= len( element )

    # 1) How many symbols does the limited machine take from an input that continues?
    origin			= counting( element + b'more' )
    source			= cpppo.peekable( origin )
    data			= cpppo.dotdict()
    with make( limit=limit ) as machine:
        for m,s in machine.run( source=source, path='demo', data=data ):
            pass
        terminal		= machine.terminal

    # 2) The same element, followed by the termination sentinel
    guarded			= cpppo.chainable( element )
    guarded.chain( None )
    failed			= None
    try:
        with make( limit=limit ) as machine:
            for m,s in machine.run( source=guarded, path='demo', data=cpppo.dotdict() ):
                pass
    except Exception as exc:
        failed			= exc

    print( "%-18s limit %d: terminal %-5s reports %d consumed, %d taken from the input; before a sentinel: %s" % (
        name, limit, terminal, source.sent, origin.pulled, ( "raises %r" % ( failed, )) if failed else "completes" ))
    if origin.pulled > limit:
        failures.append( "%s: limit %d, %d symbols taken from the input (reported: %d)" % (
            name, limit, origin.pulled, source.sent ))
    if failed is not None:
        failures.append( "%s: the complete element, limited to its own size, fails before a sentinel: %r" % (
            name, failed ))

if failures:
    print( "\nCONTRADICTION (observed vs. expected: exactly `limit` symbols taken, element completes):" )
    for f in failures:
        print( "  - " + f )
    sys.exit( 1 )
print( "\nOK" )
