#!/usr/bin/env python
"""Unchanged code ( client / TYPE.produce ): client.CIP_TYPES deliberately admits the whole unsigned range for the
signed types ( "we are generous with the signed types ... all provided values will fit legitimately into the data
type without loss" ): parse_operations accepts  TAG=(DINT)4294967295 ,  (INT)65535 ,  (SINT)255 ,  (LINT)2**64-1 .
But the producers pack with the signed struct formats, so producing the very request the client has just validated
raises struct.error instead of yielding the 32 ( 16, 8, 64 ) bits of the value."""
from __future__ import print_function
import struct, sys
import cpppo
from cpppo.server.enip import client, logix, parser

cases				= [
    ( 'A=(SINT)255',			struct.pack( '<B', 255 )),
    ( 'B=(INT)65535',			struct.pack( '<H', 65535 )),
    ( 'C=(DINT)4294967295',		struct.pack( '<I', 4294967295 )),
    ( 'D=(LINT)18446744073709551615',	struct.pack( '<Q', 18446744073709551615 )),
]
observed			= []
for tag,bits in cases:
    op,				= client.parse_operations( [ tag ] )	# accepted by the validator
    request			= cpppo.dotdict()
    request.path		= { 'segment': [ cpppo.dotdict( s ) for s in op['path'] ] }
    request.write_tag		= { 'type': op['tag_type'], 'data': op['data'], 'elements': op['elements'] }
    try:
        produced		= logix.Logix.produce( request )
        if not produced.endswith( bits ):
            observed.append( "%s: produced %r, not ending in %r" % ( tag, produced, bits ))
    except Exception as exc:
        observed.append( "%s: validated as %r, but producing the Write Tag raised %s: %s" % (
            tag, op['data'], type( exc ).__name__, exc ))
if observed:
    for o in observed:
        print( "observed: %s" % o )
    print( "expected: either the validator refuses the value, or the request is produced with the value's two's complement bits" )
    sys.exit( 1 )
print( "OK" )
