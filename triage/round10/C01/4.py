#!/usr/bin/env python
"""C01 / unchanged code: the Unconnected Data item  D2 00 00 00  ( reply to a service 0x52, general status 0 =
success, no extended status, no data ) is parsed as an "Unconnected Send error status" with status 0 -
unconnected_send.is_uerr accepts every status below 0x10, 0 included - and then cannot be produced again:
unconnected_send.produce takes the error branch only for a non-zero status and otherwise needs .request.input,
which the parser did not fill."""
from __future__ import print_function
import contextlib, struct, sys
import cpppo
from cpppo.server.enip import parser

def parse( machine, octets ):
    data			= cpppo.dotdict()
    source			= cpppo.peekable( octets )
    with machine as m:
        with contextlib.closing( m.run( source=source, data=data )) as engine:
            for _ in engine:
                pass
        return data, m.terminal, source.peek()

payload				= b'\xd2\x00\x00\x00'
original			= struct.pack( '<HHHHH', 2, 0x0000, 0, 0x00b2, len( payload )) + payload
data,terminal,rest		= parse( parser.CPF( terminal=True ), original )
assert terminal and rest is None
parsed				= data.CPF.item[1].unconnected_send
failed				= None
try:
    produced			= parser.CPF.produce( data.CPF )
    if produced != original:
        failed			= "produced %r" % ( produced, )
except Exception as exc:
    failed			= "CPF.produce raised %s: %s" % ( type( exc ).__name__, exc )
if failed:
    print( "Unconnected Data item D2 00 00 00 parsed into %r" % ( parsed, ))
    print( "observed: %s" % failed )
    print( "expected: the original octets %r ( either kept opaque in .request.input, or produced from status 0 )" % ( original, ))
    sys.exit( 1 )
print( "OK" )
