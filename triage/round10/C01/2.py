#!/usr/bin/env python
"""C01 / unchanged code: typed data of type STRUCT ( 0x02A0 ) that consists of the structure handle only, with no
payload octets ( eg. a Read Tag Fragmented reply at an offset that is exactly the end of the UDT - the case the
comment in typed_data.__init__ describes and prepares an initializer for ) is produced, but fails to parse.

typed_data.produce / Logix.produce emit <type A0 02> <handle> and nothing else; the parser's second 'mov_struct'
move_if pops '.STRUCT.data' unconditionally: its initializer is skipped because '.STRUCT' still exists ( empty,
after the handle was moved out of it ), so the pop raises."""
from __future__ import print_function
import contextlib, struct, sys
import cpppo
from cpppo.server.enip import parser, logix

def parse( machine, octets, data=None ):
    data			= cpppo.dotdict() if data is None else data
    source			= cpppo.peekable( octets )
    with machine as m:
        with contextlib.closing( m.run( source=source, data=data )) as engine:
            for _ in engine:
                pass
        return data, m.terminal, source.peek()

failed				= []

# 1) typed_data alone
value				= cpppo.dotdict( tag_type=parser.STRUCT.tag_type, structure_tag=0x1234 )
value['data.input']		= bytearray()
encoded				= parser.typed_data.produce( value )
assert encoded == b'\x34\x12', encoded
try:
    data,terminal,rest		= parse( parser.typed_data( tag_type=parser.STRUCT.tag_type, terminal=True ), encoded )
    got				= data.typed_data
    if not terminal or got.structure_tag != 0x1234 or bytes( bytearray( got.data.input )) != b'':
        failed.append( "typed_data: parsed %r (terminal %r)" % ( data, terminal ))
    elif parser.typed_data.produce( got, tag_type=parser.STRUCT.tag_type ) != encoded:
        failed.append( "typed_data: re-produced differently" )
except Exception as exc:
    failed.append( "typed_data parser raised %s: %s" % ( type( exc ).__name__, exc ))

# 2) the same, as a complete Read Tag Fragmented reply
reply				= cpppo.dotdict( service=logix.Logix.RD_FRG_RPY, status=0 )
reply.read_frag			= cpppo.dotdict( type=parser.STRUCT.tag_type, structure_tag=0x1234 )
reply['read_frag.data.input']	= bytearray()
encoded				= logix.Logix.produce( reply )
assert encoded == b'\xd2\x00\x00\x00\xa0\x02\x34\x12', encoded
try:
    data,terminal,rest		= parse( logix.Logix.parser, encoded )
    if data.read_frag.structure_tag != 0x1234 or data.status != 0:
        failed.append( "Logix: parsed %r" % ( data, ))
except Exception as exc:
    failed.append( "Logix parser raised %s: %s" % ( type( exc ).__name__, exc ))

if failed:
    print( "STRUCT typed data consisting of the structure handle only ( 34 12 )" )
    for f in failed:
        print( "observed: %s" % f )
    print( "expected: structure_tag 0x1234 and an empty data.input, re-produced as the same octets" )
    sys.exit( 1 )
print( "OK" )
