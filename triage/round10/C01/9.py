#!/usr/bin/env python
"""C01 / unchanged code: a CPF item parser that completes before the item's own .length is used up leaves the rest
of the item in the stream, where it is read as the type / length of the *next* item: the list is misframed.  The
item length is only passed down as an upper limit= ; nothing skips to the end of the item ( as the repaired
'unrecognized' item does with repeat='.length' ).

Most natural instance: the ListServices reply.  The encapsulation specification lays the service item out as
version UINT, capability flags UINT, name of service USINT[16] ( NUL terminated, the field is always 16 octets ):
real devices send 'Communications' 00 00, item length 20.  communications_service takes the name and ONE NUL.  With a
single item the 20th octet is merely left unread; with a second service item behind it ( the reply carries an item
*count* ) the list no longer parses.  ( Other instances: an Unconnected Send error reply of 5 / 6 octets that carries
the 'remaining path size' the is_uerr look-ahead admits, a Connected Address item longer than 4 octets. )"""
from __future__ import print_function
import contextlib, struct, sys
import cpppo
from cpppo.server.enip import parser

def parse( machine, octets ):
    data			= cpppo.dotdict()
    source			= cpppo.peekable( octets )
    with machine as m:
        with contextlib.closing( m.run( source=source, data=data )) as engine:
            for _ in engine:
                pass
        return data, m.terminal, source.peek()

def service( name, capability ):
    body			= struct.pack( '<HH', 1, capability ) + name.encode( 'ascii' ).ljust( 16, b'\0' )
    return struct.pack( '<HH', 0x0100, len( body )) + body

observed			= []
# One service, as every EtherNet/IP device answers ListServices
reply				= struct.pack( '<H', 1 ) + service( 'Communications', 0x0120 )
data,terminal,rest		= parse( parser.CPF( terminal=True ), reply )
assert data.CPF.item[0].communications_service.service_name == 'Communications'
if rest is not None:
    observed.append( "1 service item of 20 octets: parsed, but octet %r of the item is left unread behind the list" % ( rest, ))

# Two services
reply				= struct.pack( '<H', 2 ) + service( 'Communications', 0x0120 ) + service( 'Other', 0x0020 )
try:
    data,terminal,rest		= parse( parser.CPF( terminal=True ), reply )
    names			= [ i.get( 'communications_service.service_name' ) for i in data.CPF.item ]
    if names != [ 'Communications', 'Other' ] or rest is not None or not terminal:
        observed.append( "2 service items: parsed as %r (terminal %r, next %r)" % ( data.CPF, terminal, rest ))
except Exception as exc:
    observed.append( "2 service items: parser raised %s: %s" % ( type( exc ).__name__, exc ))

if observed:
    for o in observed:
        print( "observed: %s" % o )
    print( "expected: every item is consumed up to its own .length; 2 items with the names 'Communications' and 'Other'" )
    sys.exit( 1 )
print( "OK" )
