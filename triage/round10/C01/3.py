#!/usr/bin/env python
"""C01 / unchanged code: a CPF list holding an item of a *recognized* type with length 0 ( eg. an Unconnected Data
item 0x00B2, a Connected Data item 0x00B1 or a Connected Address item 0x00A1 without payload ) is parsed to the end
( the CPF parser has an explicit 'empty' branch for it ), but CPF.produce cannot regenerate it: it indexes
item['<parser name>'] for every recognized type_id, whether or not the item carries a parsed payload."""
from __future__ import print_function
import contextlib, struct, sys
import cpppo
from cpppo.server.enip import parser

def parse( machine, octets ):
    data			= cpppo.dotdict()
    source			= cpppo.peekable( octets )
    with machine as m:
        with contextlib.closing( m.run( source=source, data=data )) as engine:
            for _ in engine:
                pass
        return data, m.terminal, source.peek()

failed				= []
for type_id in sorted( parser.CPF.ITEM_PARSERS ):
    original			= struct.pack( '<HHHHH', 2, 0x0000, 0, type_id, 0 ) # NULL address, then the empty item
    data,terminal,rest		= parse( parser.CPF( terminal=True ), original )
    assert terminal and rest is None and data.CPF.item[1].type_id == type_id and data.CPF.item[1].length == 0, \
        "not parsed as expected: %r" % ( data, )
    try:
        produced		= parser.CPF.produce( data.CPF )
        if produced != original:
            failed.append( "type 0x%04x: produced %r" % ( type_id, produced ))
    except Exception as exc:
        failed.append( "type 0x%04x: CPF.produce raised %s: %s" % ( type_id, type( exc ).__name__, exc ))

if failed:
    print( "CPF list [ NULL address, item of recognized type with length 0 ] parses completely, but:" )
    for f in failed:
        print( "observed: %s" % f )
    print( "expected: CPF.produce regenerates the 10 original octets" )
    sys.exit( 1 )
print( "OK" )
