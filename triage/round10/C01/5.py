#!/usr/bin/env python
"""C01 / unchanged code: a Connected Data item ( 0x00B1 ) that carries its sequence count and an empty message
( item length 2 ) is produced by connection_data.produce / CPF.produce, but the parser refuses it: the 'sequence'
UINT state is not terminal, so a payload of 0 octets is a NonTerminal failure ( and were it accepted, no
.request.input would exist for produce )."""
from __future__ import print_function
import contextlib, struct, sys
import cpppo
from cpppo.server.enip import parser

def parse( machine, octets ):
    data			= cpppo.dotdict()
    source			= cpppo.peekable( octets )
    with machine as m:
        with contextlib.closing( m.run( source=source, data=data )) as engine:
            for _ in engine:
                pass
        return data, m.terminal, source.peek()

adr				= cpppo.dotdict( type_id=0x00a1 )
adr.connection_ID		= cpppo.dotdict( connection=0x01020304 )
dat				= cpppo.dotdict( type_id=0x00b1 )
dat.connection_data		= cpppo.dotdict( sequence=7 )
dat.connection_data['request.input'] = bytearray()
cpf				= cpppo.dotdict()
cpf.item			= [ adr, dat ]
encoded				= parser.CPF.produce( cpf )
expected			= struct.pack( '<HHHIHHH', 2, 0x00a1, 4, 0x01020304, 0x00b1, 2, 7 )
assert encoded == expected, encoded

failed				= None
try:
    data,terminal,rest		= parse( parser.CPF( terminal=True ), encoded )
    got				= data.CPF.item[1].connection_data
    if not terminal or rest is not None or got.sequence != 7:
        failed			= "parsed %r (terminal %r)" % ( data, terminal )
    elif parser.CPF.produce( data.CPF ) != encoded:
        failed			= "re-produced differently"
except Exception as exc:
    failed			= "raised %s: %s" % ( type( exc ).__name__, exc )
if failed:
    print( "Connected Data item with sequence 7 and an empty message, produced as %r" % ( encoded, ))
    print( "observed: %s" % failed )
    print( "expected: parsed back ( sequence 7, no message octets ) and produced again as the same octets" )
    sys.exit( 1 )
print( "OK" )
