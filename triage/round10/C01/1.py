#!/usr/bin/env python
"""C01 / unchanged code: a ListServices "Communications" item whose service_name is the empty string is
produced ( version, capability, NUL ) but cannot be parsed back.

Root cause: a regex based string ( string_bytes( greedy=True, initial='[^\\x00]*' ) ) can never accept the
empty sentence: state.from_regex() returns `state( states[machine.initial] )`, and that copy constructor
takes terminal=False instead of inheriting the initial state's terminal flag.  The same happens to the
text field of the legacy 0x0001 item when ip_address is ''."""
from __future__ import print_function
import contextlib, struct, sys
import cpppo
from cpppo.server.enip import parser

def parse( machine, octets ):
    data			= cpppo.dotdict()
    source			= cpppo.peekable( octets )
    with machine as m:
        with contextlib.closing( m.run( source=source, data=data )) as engine:
            for _ in engine:
                pass
        return data, m.terminal, source.peek()

item				= cpppo.dotdict( type_id=0x0100 )
item.communications_service	= cpppo.dotdict( version=1, capability=0x0120, service_name='' )
cpf				= cpppo.dotdict()
cpf.item			= [ item ]
encoded				= parser.CPF.produce( cpf )
expected			= struct.pack( '<HHH', 1, 0x0100, 5 ) + struct.pack( '<HH', 1, 0x0120 ) + b'\0'
assert encoded == expected, "unexpected encoding %r" % ( encoded, )

failed				= []
try:
    data,terminal,rest		= parse( parser.CPF( terminal=True ), encoded )
    got				= data.CPF.item[0].communications_service
    if not terminal or rest is not None or got.get( 'service_name' ) != '' \
       or got.version != 1 or got.capability != 0x0120:
        failed.append( "parsed %r (terminal %r, next symbol %r)" % ( data, terminal, rest ))
except Exception as exc:
    failed.append( "parser raised %r" % ( exc, ))

if failed:
    print( "communications_service with service_name '' produced as %r" % ( encoded, ))
    print( "observed: %s" % failed[0] )
    print( "expected: parsed back to version 1, capability 0x0120, service_name ''" )
    sys.exit( 1 )
print( "OK" )
