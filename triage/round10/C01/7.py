#!/usr/bin/env python
"""C01 / unchanged code: a Read Tag Fragmented request ( service 0x52 ) sent *without* an Unconnected Send wrapper
- what the client produces for a simple, non-routing device ( route_path=False, send_path='' / option -S ) when
fragmented reads are selected ( -f ) - is produced as the plain payload of the Unconnected Data item 0x00B2, but
parsed back as an Unconnected Send ( also service 0x52 ): its tag path is taken for the send path, 'elements' for
priority / time-out ticks, 'offset' for the embedded length and the route path size.  No field that was encoded is
recovered, and .request.input ( the message itself ) is gone.

The two are distinguishable: an Unconnected Send is a Connection Manager service, its path is always class 0x06,
instance 1 ( 52 02 20 06 24 01 ); the simulator even knows ( "Unconnected Send targeted Object other than Connection
Manager" ) but only after the message has been misparsed.  End to end: `client -S 'TAG[0-3]'` against `enip -S
TAG=DINT[10]` works, the same with `-f` ends the session with EtherNet/IP status 0x08."""
from __future__ import print_function
import contextlib, struct, sys
import cpppo
from cpppo.server.enip import parser, logix

def parse( machine, octets ):
    data			= cpppo.dotdict()
    source			= cpppo.peekable( octets )
    with machine as m:
        with contextlib.closing( m.run( source=source, data=data )) as engine:
            for _ in engine:
                pass
        return data, m.terminal, source.peek()

# The request, as client.connector.read( 'TAG', elements=4, offset=0 ) + unconnected_send( route_path=False, send_path='' ) build it
request				= cpppo.dotdict()
request.path			= { 'segment': [ cpppo.dotdict( symbolic='TAG' ) ] }
request.read_frag		= { 'elements': 4, 'offset': 0 }
message				= logix.Logix.produce( request )
assert message == b'\x52\x03\x91\x03TAG\x00\x04\x00\x00\x00\x00\x00', message

null				= cpppo.dotdict( type_id=0x0000 )
item				= cpppo.dotdict( type_id=0x00b2 )
item.unconnected_send		= cpppo.dotdict()
item.unconnected_send.request	= cpppo.dotdict( input=bytearray( message ))
cpf				= cpppo.dotdict()
cpf.item			= [ null, item ]
encoded				= parser.CPF.produce( cpf )
assert encoded == struct.pack( '<HHHHH', 2, 0, 0, 0x00b2, len( message )) + message

data,terminal,rest		= parse( parser.CPF( terminal=True ), encoded )
got				= data.CPF.item[1].unconnected_send
recovered			= bytes( bytearray( got.get( 'request.input', b'' )))
if recovered != message or 'service' in got:
    print( "Unconnected Data item carrying the bare Read Tag Fragmented request %r" % ( message, ))
    print( "observed: parsed as %r" % ( got, ))
    print( "expected: unconnected_send.request.input == the %d octets of the request, nothing interpreted as an Unconnected Send" % len( message ))
    sys.exit( 1 )
print( "OK" )
