#!/usr/bin/env python
"""C01 / unchanged code: an SSTRING whose text ends before its .length octets were seen is accepted as complete.
This is the sibling of the repaired STRING defect ( 6db9b7e "a STRING whose text ends before its .length octets
were seen is not complete" ): in SSTRING the string_bytes state is terminal and .length is only an upper limit, so
05 'abc' parses to { length: 5, string: 'abc' } - a record that no SSTRING.produce() yields ( it NUL-fills to 05
'abc' 00 00 ), ie. parse and produce disagree about the same octets; as typed data ( the payload of a Write Tag on
an SSTRING tag ) a cut-off last element is taken for a value."""
from __future__ import print_function
import contextlib, sys
import cpppo
from cpppo.server.enip import parser, logix

def parse( machine, octets ):
    data			= cpppo.dotdict()
    source			= cpppo.peekable( octets )
    with machine as m:
        with contextlib.closing( m.run( source=source, data=data )) as engine:
            for _ in engine:
                pass
        return data, m.terminal, source.peek()

observed			= []

# The complete encoding is accepted, of course
data,terminal,rest		= parse( parser.SSTRING( terminal=True ), b'\x05abcde' )
assert terminal and data.SSTRING.string == 'abcde'

# 1) bare SSTRING, cut off inside its text
try:
    data,terminal,rest		= parse( parser.SSTRING( terminal=True ), b'\x05abc' )
    if terminal:
        observed.append( "SSTRING 05 'abc' accepted as complete: %r; SSTRING.produce of that record gives %r" % (
            data.SSTRING, parser.SSTRING.produce( data.SSTRING )))
except Exception as exc:
    pass # refused: fine

# 2) SSTRING typed data ( Write Tag payload ), last element cut off
try:
    data,terminal,rest		= parse( parser.typed_data( tag_type=parser.SSTRING.tag_type, terminal=True ), b'\x02ab\x05abc' )
    if terminal:
        observed.append( "typed_data SSTRING 02 'ab' 05 'abc' accepted as the complete list %r" % ( data.typed_data.data, ))
except Exception as exc:
    pass

# 3) A complete Write Tag request: 4D <path 'S'> <type DA 00> <elements 1> 05 'abc'
request				= b'\x4d\x02\x91\x01S\x00\xda\x00\x01\x00\x05abc'
try:
    data,terminal,rest		= parse( logix.Logix.parser, request )
    if 'write_tag.data' in data:
        observed.append( "Write Tag carrying SSTRING 05 'abc' parsed as data %r" % ( data.write_tag.data, ))
except Exception as exc:
    pass

# For comparison, the repaired STRING refuses the same cut: 05 00 'abc'
try:
    data,terminal,rest		= parse( parser.STRING( terminal=True ), b'\x05\x00abc' )
    string_refuses		= not terminal
except Exception:
    string_refuses		= True
assert string_refuses, "STRING accepts a cut-off text again?"

if observed:
    for o in observed:
        print( "observed: %s" % o )
    print( "expected: refused as incomplete ( as STRING refuses 05 00 'abc' ): only all .length octets make an SSTRING" )
    sys.exit( 1 )
print( "OK" )
