"""C06 defect 1 (UNCHANGED code): an EtherNet/IP frame with an encapsulation command the simulator does not
support (e.g. 0x0072 IndicateStatus, 0x0073 Cancel, or any unassigned code) is not answered at all: logix.process
raises out of the CIP parser ( 'unrec_CIP' ), enip_srv_tcp drops the connection, and a well-formed request
pipelined behind it is never answered either.

Expected (property C06): "an unsupported ... request is answered by one frame with a non-zero encapsulation
status" ( ODVA: status 0x0001, invalid or unsupported encapsulation command ), carrying the request's sender
context and session handle.

Exits 1 (printing observed vs. expected) while the contradiction is present, 0 otherwise.
"""
from __future__ import print_function
import logging, socket, struct, sys, threading, time

from cpppo.dotdict import apidict
from cpppo.server.enip.main import main as enip_main

logging.disable( logging.CRITICAL )
ADDR				= ( 'localhost', 44818 )

def frame( command, payload=b'', session=0, context=b'\0'*8 ):
    return struct.pack( '<HHII', command, len( payload ), session, 0 ) + context + struct.pack( '<I', 0 ) + payload

def receive( sock, timeout=1.0 ):
    buf,eof			= b'',False
    sock.settimeout( timeout )
    while True:
        try:
            d			= sock.recv( 4096 )
        except socket.timeout:
            break
        except socket.error:
            eof			= True
            break
        if not d:
            eof			= True
            break
        buf		       += d
    frames			= []
    while len( buf ) >= 24:
        cmd,lng,ses,sts		= struct.unpack( '<HHII', buf[:12] )
        frames.append( dict( command=cmd, length=lng, session=ses, status=sts, context=buf[12:20] ))
        buf			= buf[24+lng:]
    return frames,eof

def main():
    control			= apidict( 2.0, { 'done': False } )
    server			= threading.Thread( target=enip_main, kwargs=dict(
        argv=[ '--no-config', '--address', '%s:%d' % ADDR, 'SCADA=INT[10]' ], server={ 'control': control } ))
    server.daemon		= True
    server.start()
    for _ in range( 100 ):
        try:
            socket.create_connection( ADDR, timeout=1 ).close()
            break
        except socket.error:
            time.sleep( .1 )

    bad				= []
    try:
        for command,payload in [ ( 0x0072, b'' ), ( 0x0073, b'' ), ( 0x0099, b'' ), ( 0x0072, b'\x00\x00\x00\x00' ) ]:
            s			= socket.create_connection( ADDR )
            s.sendall( frame( 0x0065, struct.pack( '<HH', 1, 0 ), context=b'REGISTER' ))
            frames,eof		= receive( s, timeout=.5 )
            assert len( frames ) == 1 and frames[0]['session'], "Register failed: %r" % ( frames, )
            session		= frames[0]['session']
            s.sendall( frame( command, payload, session=session, context=b'UNSUPPRT' ))
            frames,eof		= receive( s )
            s.close()
            ok			= ( len( frames ) == 1 and frames[0]['status'] != 0
                                    and frames[0]['context'] == b'UNSUPPRT' and frames[0]['session'] == session
                                    and frames[0]['command'] == command )
            print( "command 0x%04x (%d byte payload): observed %d reply frame(s) %r, connection closed: %s; "
                   "expected exactly 1 frame w/ command 0x%04x, non-zero status, context b'UNSUPPRT'" % (
                       command, len( payload ), len( frames ), frames, eof, command ))
            if not ok:
                bad.append( command )
    finally:
        control['done']		= True
        server.join( timeout=5 )
    if bad:
        print( "CONTRADICTION: unsupported encapsulation command(s) %s not answered by one frame with a non-zero status" % (
            ', '.join( '0x%04x' % c for c in bad )))
        return 1
    print( "OK" )
    return 0

if __name__ == "__main__":
    sys.exit( main() )
