#!/usr/bin/env python
"""
C01 contradiction 5 ( unchanged code ): a Get Attribute List request that names no attributes is
produced, but cannot be parsed.

Input:    Object.produce( { path: @2/1, get_attribute_list: [] } )  ==  03 02 20 02 24 01 00 00
Observed: Object.parser does not reach a terminal state ( "sub-machine terminated in a non-terminal
          state" ): __get_attribute_list leaves the count with  numr[True] = <attributes>, a transition
          that needs another input symbol, so a count of 0 at the end of the request is not accepted
          ( the source says "TODO: handle 0 attributes?" ).
Expected: { service: 3, path: @2/1, get_attribute_list: [] } and the same octets again ( the count field
          is a UINT, 0..65535 ).
"""
from __future__ import print_function
import sys
import cpppo
from cpppo.server.enip import device

def parse( cls, octets ):
    data			= cpppo.dotdict()
    with cls.parser as machine:
        for m,s in machine.run( source=cpppo.peekable( octets ), data=data ):
            pass
        assert machine.terminal, "not terminal"
    return data

msg				= cpppo.dotdict( get_attribute_list=[] )
msg.path			= cpppo.dotdict( segment=[ cpppo.dotdict({ 'class': 2 }), cpppo.dotdict({ 'instance': 1 }) ])
octets				= bytes( device.Object.produce( msg ))
try:
    back			= parse( device.Object, octets )
    got				= back.get( 'get_attribute_list' )
    again			= bytes( device.Object.produce( back ))
except Exception as exc:
    got,again			= exc,None
if octets != b'\x03\x02\x20\x02\x24\x01\x00\x00' or got != [] or again != octets:
    print( "Get Attribute List of no attributes %r: parsed get_attribute_list %r ( re-produced %r ); expected [] and the same octets" % (
        octets, got, again ))
    sys.exit( 1 )
print( "OK" )
