#!/usr/bin/env python
"""
C01 contradiction 4 ( unchanged code ): a Read Tag [Fragmented] reply for a STRUCT ( UDT ) that carries
the structure handle but no data octets is produced, but cannot be parsed.

Input:    Logix.produce( { service: 0xD2, status: 0, read_frag: { type: 0x02A0, structure_tag: 0x1234,
          data.input: b'' }} )  ==  d2 00 00 00 a0 02 34 12 ; the same with service 0xCC / read_tag.
          typed_data's own comment names the case: "In theory, there could be a .structure_tag followed
          by no data (eg. if you do a Read Tag Fragmented with an offset to exactly the end of the
          structure.)".
Observed: Logix.parser fails: AssertionError "Could not find 'read_frag.STRUCT.data' to move to
          'read_frag.STRUCT'": the move_if( 'mov_struct', source='.STRUCT.data', initializer=... ) in
          parser.typed_data supplies a default for the *destination*, but the absent *source* is what
          would need one ( STRUCT only creates .data "if input remains" ).
Expected: { read_frag.type: 0x02A0, read_frag.structure_tag: 0x1234, read_frag.data.input: empty }, which
          produces the same 8 octets again.
"""
from __future__ import print_function
import sys
import cpppo
from cpppo.server.enip import device, logix

def parse( cls, octets ):
    data			= cpppo.dotdict()
    with cls.parser as machine:
        for m,s in machine.run( source=cpppo.peekable( octets ), data=data ):
            pass
        assert machine.terminal, "not terminal"
    return data

bad				= 0
for svc,ctx in ( (0xD2,'read_frag'), (0xCC,'read_tag') ):
    msg				= cpppo.dotdict( service=svc, status=0 )
    msg[ctx]			= cpppo.dotdict( type=0x02A0, structure_tag=0x1234 )
    msg[ctx].data		= cpppo.dotdict( input=b'' )
    octets			= bytes( logix.Logix.produce( msg ))
    try:
        back			= parse( logix.Logix, octets )
        got			= ( back[ctx].get( 'type' ), back[ctx].get( 'structure_tag' ),
                                    bytes( bytearray( back[ctx].get( 'data.input', b'?' ))))
        again			= bytes( logix.Logix.produce( back ))
    except Exception as exc:
        got			= exc
        again			= None
    if got != ( 0x02A0, 0x1234, b'' ) or again != octets:
        bad		       += 1
        print( "%s STRUCT reply %r: parsed into %r ( re-produced %r ); expected ( 0x02A0, 0x1234, b'' ) and the same octets" % (
            ctx, octets, got, again ))
if bad:
    sys.exit( 1 )
print( "OK" )
