#!/usr/bin/env python
"""
C01 contradiction 3 ( unchanged code ): a Forward Open whose Network Connection Parameters carry a
connection size of 0 ( eg. the Null connection 0x0000 of a direction that is not used ) is parsed, but
can neither be produced again nor be served.

Input:    a ( small, 0x54 ) Forward Open with O->T NCP 0x0000 and T->O NCP 0x43FE, and one with
          O->T NCP 0x4200 ( point-to-point, variable, size 0 ); also defaults.Connection( size=0, ... ).
Observed: the parser decodes O_T to { size: 0, type: 0, ... NCP: 0 }; Connection_Manager.produce of the
          parsed request raises AssertionError( 'Connection size 0 invalid' ) ( and so does
          Connection_Manager.forward_open, so the simulator refuses such a Forward Open with status 8 ).
          defaults.Connection asserts 0 < size, and encodes with "size or <default size>".
Expected: the 9-bit ( 16-bit ) size field covers 0..511 ( 0..65535 ); re-producing the parsed request
          regenerates the original octets, and Connection( size=0, type=0, ... ).encoding == 0.
"""
from __future__ import print_function
import struct
import sys
import cpppo
from cpppo.server.enip import device, defaults

CM				= device.Connection_Manager

def parse( cls, octets ):
    data			= cpppo.dotdict()
    with cls.parser as machine:
        for m,s in machine.run( source=cpppo.peekable( octets ), data=data ):
            pass
        assert machine.terminal
    return data

def forward_open( ot_ncp, to_ncp ):
    return ( b'\x54\x02\x20\x06\x24\x01' + struct.pack( '<BBIIHHIB3xIHIHB', 7, 249, 0x11223344, 0x55667788, 0x0101, 0x004d, 0x12345678, 0,
                                                        2000000, ot_ncp, 2000000, to_ncp, 0xa3 )
             + b'\x03\x01\x00\x20\x02\x24\x01' )

bad				= 0
for ot,to in ( (0x0000,0x43fe), (0x4200,0x43fe), (0x43fe,0x0000) ):
    original			= forward_open( ot, to )
    data			= parse( CM, original )
    try:
        again			= bytes( CM.produce( data ))
    except Exception as exc:
        again			= exc
    if again != original:
        bad		       += 1
        print( "Forward Open with O->T NCP 0x%04x, T->O NCP 0x%04x: parsed O_T %r T_O %r; producing it again gave %r, expected the original octets" % (
            ot, to, dict( data.forward_open.O_T ), dict( data.forward_open.T_O ), again ))
try:
    ncp				= defaults.Connection( size=0, variable=0, priority=0, type=0, redundant=0 ).encoding
except Exception as exc:
    ncp				= exc
if ncp != 0:
    bad			       += 1
    print( "Connection( size=0, variable=0, priority=0, type=0, redundant=0 ).encoding: %r, expected 0" % ( ncp, ))
if bad:
    sys.exit( 1 )
print( "OK" )
