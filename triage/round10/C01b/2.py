#!/usr/bin/env python
"""
C01 contradiction 2 ( unchanged code ): a successful Get Attribute Single / Get Attributes All / Get
Attribute List reply that carries no data octets is parsed, but cannot be produced again.

Input:    8e 00 00 00 , 81 00 00 00 , 83 00 00 00  ( service|0x80, reserved, status 0, ext. size 0 ),
          eg. the value of an attribute that is an empty array / has no octets.
Observed: each parses ( terminal, { service, status: 0, status_ext.size: 0 } ); Object.produce of the
          parsed message raises AttributeError( 'get_attribute_single' ) etc., because for status 0
          the producer reads data.get_attribute_single unconditionally while the parser only creates it
          when data octets follow ( stts[None] -> 'nodata' ).
Expected: the four original octets.  ( Repair: produce the typed data only "if <context> in data", or
          let the parser mark the context with an empty .data list. )
"""
from __future__ import print_function
import sys
import cpppo
from cpppo.server.enip import device

def parse( cls, octets ):
    data			= cpppo.dotdict()
    with cls.parser as machine:
        for m,s in machine.run( source=cpppo.peekable( octets ), data=data ):
            pass
        assert machine.terminal
    return data

bad				= 0
for original in ( b'\x8e\x00\x00\x00', b'\x81\x00\x00\x00', b'\x83\x00\x00\x00' ):
    data			= parse( device.Object, original )
    try:
        again			= bytes( device.Object.produce( data ))
    except Exception as exc:
        again			= exc
    if again != original:
        bad		       += 1
        print( "parsed %r into %r; producing it again gave %r, expected %r" % (
            original, dict( data ), again, original ))
if bad:
    sys.exit( 1 )
print( "OK" )
