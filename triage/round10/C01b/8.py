#!/usr/bin/env python
"""
C01 contradiction 8 ( unchanged code ): three service machines only work at the root of the data
artifact.  device.Object says of its parser: "The parser doesn't add a layer of context; run it with a
path= keyword to add a layer" -- every other request / reply machine ( Read / Write Tag [Fragmented],
Multiple Service Packet, Get Attribute Single / All, Set Attribute Single, Forward Open / Close ... )
yields under  path='cip'  exactly the fields it yields at the root, below data.cip.

Input:    Logix.parser run with path='cip' over
            03 02 20 01 24 01 02 00 01 00 02 00	Get Attribute List ( attributes 1, 2 ) request
            cc 00 05 00				Read Tag reply, status 0x05
            d2 00 05 01 00 00			Read Tag Fragmented reply, status 0x05 + ext. status
Observed: the Get Attribute List request fails to parse: AssertionError "Could not find
          'cip.get_attribute_list.attributes' to move to 'cipget_attribute_list'"; the replies' markers
          are stored as data['cipread_tag'] / data['cipread_frag'] instead of data.cip.read_tag / .read_frag.
          The move_if destinations in device.__get_attribute_list ( Object.GA_LST_CTX+'.attributes',
          Object.GA_LST_CTX ) and logix.__read_tag_reply / __read_frag_reply ( 'read_tag', 'read_frag' )
          lack the leading '.' that makes them relative to the path ( pathdst = path + destination ); for
          the two markers the construction the Write Tag replies use ( octets_noop( context='write_tag' )
          with  mark.initial[None] = move_if( 'mark', initializer=True ) ) works under any path.
Expected: data.cip == what the same octets parse to without a path.
"""
from __future__ import print_function
import sys
import cpppo
from cpppo.server.enip import device, logix

def parse( octets, path ):
    data			= cpppo.dotdict()
    with logix.Logix.parser as machine:
        for m,s in machine.run( source=cpppo.peekable( octets ), data=data, path=path ):
            pass
        assert machine.terminal, "not terminal"
    return data

bad				= 0
for octets in ( b'\x03\x02\x20\x01\x24\x01\x02\x00\x01\x00\x02\x00', b'\xcc\x00\x05\x00', b'\xd2\x00\x05\x01\x00\x00',
                b'\x0e\x02\x20\x01\x24\x01', b'\xcd\x00\x00\x00' ):
    root			= parse( octets, '' )
    try:
        sub			= parse( octets, 'cip' )
        got			= dict( sub.items() )
    except Exception as exc:
        got			= exc
    want			= dict(( 'cip.' + k, v ) for k,v in root.items() )
    if got != want:
        bad		       += 1
        print( "%r parsed with path='cip': %r\n  expected %r" % ( octets, got, want ))
if bad:
    sys.exit( 1 )
print( "OK" )
