#!/usr/bin/env python
"""
C01 contradiction 6 ( unchanged code; reply *content* rather than codec ): the Get Attribute List reply
built by Object.request does not start with the number of attribute responses.

Input:    Get Attribute List of attributes 1, 2 and 99 of the Identity object @1/1, served by the
          simulator's Message Router:  03 02 20 01 24 01 03 00 01 00 02 00 63 00
Observed: reply data  01 00 00 00 01 00 | 02 00 00 00 0e 00 | 63 00 16 00  -- the three
          ( id, status, value ) groups only.
Expected: per the layout table in Object.produce's own doc string ( "Reply Data | 05 00 | Number of
          attribute responses that follow" ) and CIP Vol 1 App. A Get_Attribute_List: the groups are
          preceded by the UINT count  03 00 .  ( Object.request, GA_LST_RPY branch: result should start
          with UINT.produce( len( data.get_attribute_list )). )
"""
from __future__ import print_function
import struct
import sys
import cpppo
from cpppo.server.enip import device, logix

device.lookup_reset()
device.dialect			= logix.Logix
device.Identity( instance_id=1 )
router				= logix.Logix( instance_id=1 )

request				= b'\x03\x02\x20\x01\x24\x01\x03\x00\x01\x00\x02\x00\x63\x00'
data				= cpppo.dotdict()
with router.parser as machine:
    for m,s in machine.run( source=cpppo.peekable( request ), data=data ):
        pass
router.request( data )
reply				= bytes( data.input )
expected			= ( b'\x83\x00\x00\x00' + struct.pack( '<H', 3 )
                                    + struct.pack( '<HHH', 1, 0, 0x0001 ) + struct.pack( '<HHH', 2, 0, 0x000e ) + struct.pack( '<HH', 99, 0x16 ))
if reply != expected:
    print( "Get Attribute List [1,2,99] of @1/1: reply %r, expected %r ( count of attribute responses first )" % ( reply, expected ))
    sys.exit( 1 )
print( "OK" )
