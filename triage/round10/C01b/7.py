#!/usr/bin/env python
"""
C01 contradiction 7 ( unchanged code ): an unsuccessful Forward Close reply that reports a remaining
path size is parsed, but producing the parsed message yields different octets.

Input:    ce 00 01 01 00 01 | 01 00  4d 00  78 56 34 12 | 03 00
          ( Forward Close reply, status 0x01 + extended status 0x0100; then, as CIP Vol 1 Table 3-5.22
          "Unsuccessful Forward_Close response" lays out: connection serial, originator vendor,
          originator serial, remaining path size = 3 words, reserved ).
Observed: the reply machine has only the *successful* layout: it reads the 0x03 as
          forward_close.application.size ( 3 words of application reply ), finds no octets to go with
          it and ends, terminal, without .application.data; Connection_Manager.produce then emits an
          application size of 0:  ... 78 56 34 12 | 00 00 .  ( The Forward Open reply machine and
          producer do know .remaining_path_size for a non-zero status. )
Expected: the 16 original octets ( and the 3 available as forward_close.remaining_path_size ).
"""
from __future__ import print_function
import sys
import cpppo
from cpppo.server.enip import device

CM				= device.Connection_Manager
original			= b'\xce\x00\x01\x01\x00\x01' + b'\x01\x00\x4d\x00\x78\x56\x34\x12' + b'\x03\x00'
data				= cpppo.dotdict()
with CM.parser as machine:
    for m,s in machine.run( source=cpppo.peekable( original ), data=data ):
        pass
    terminal			= machine.terminal
try:
    again			= bytes( CM.produce( data ))
except Exception as exc:
    again			= exc
if not terminal or again != original:
    print( "unsuccessful Forward Close reply %r: parsed ( terminal: %r ) into %r; producing it again gave %r" % (
        original, terminal, dict( data.get( 'forward_close', {} )), again ))
    sys.exit( 1 )
print( "OK" )
