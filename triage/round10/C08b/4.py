"""server.control.disable / re-enable ( web API: server/control/disable/true ... false; documented as "Disable the
server, dropping connections (false re-enable)" ) takes the whole simulator down when the UDP server is on
( the default ).  enip_srv_udp only looks at done/disable between two datagrams ( its `while msg is None` loop
never does ), so the UDP thread -- and its bound socket, which server_main never closes -- survives the
disable; when main() calls server_main again, udp_sock.bind raises EADDRINUSE outside any handler and main() ends.

Expected: after disable=True, disable=False the simulator serves again; observed: main() died with OSError(98).
"""
import os
# ---- helpers: start the simulator in-process, build frames, probe liveness
import sys, threading, time, socket, struct, logging
from cpppo.dotdict import dotdict, apidict
from cpppo.server.enip.main import main as enip_main

PORT = 44818

def start( tags=('SCADA=INT[100]',), udp=True, port=PORT, latency=0.1, extra=() ):
    control = apidict( timeout=1.0 )
    control['latency'] = latency
    server = dotdict( control=control )
    args = [ '--no-config', '-a', 'localhost:%d' % port ] + list( extra ) + list( tags )
    if not udp:
        args.insert( 0, '-U' )
    result = {}
    def run():
        try:
            result['rc'] = enip_main( argv=args, server=server )
        except BaseException as exc:
            result['exc'] = exc
    t = threading.Thread( target=run ); t.daemon = True; t.start()
    beg = time.time()
    while 'address' not in control and time.time() - beg < 10:
        time.sleep( .05 )
    assert 'address' in control, "simulator did not start"
    return t, control, result

def enip( command, payload=b'', session=0, status=0, ctx=b'\0'*8, options=0, length=None ):
    return struct.pack( '<HHII8sI', command, len( payload ) if length is None else length,
                        session, status, ctx, options ) + payload

REGISTER = enip( 0x65, struct.pack( '<HH', 1, 0 ))

def cpf_unconnected( cip, session, timeout=5 ):
    body = struct.pack( '<IH', 0, timeout ) + struct.pack( '<H', 2 ) + struct.pack( '<HH', 0, 0 ) \
        + struct.pack( '<HH', 0xB2, len( cip )) + cip
    return enip( 0x6f, body, session=session )

def read_tag( name=b'SCADA', elements=1 ):
    seg = b'\x91' + bytes([len(name)]) + name + ( b'\0' if len(name) % 2 else b'' )
    return b'\x4c' + bytes([len(seg)//2]) + seg + struct.pack( '<H', elements )

def recv_frame( s, timeout=3.0 ):
    s.settimeout( timeout )
    buf = b''
    try:
        while len( buf ) < 24:
            d = s.recv( 4096 )
            if not d: return buf or None
            buf += d
        ln = struct.unpack( '<H', buf[2:4] )[0]
        while len( buf ) < 24 + ln:
            d = s.recv( 4096 )
            if not d: break
            buf += d
    except socket.timeout:
        return buf or None
    return buf

def probe( port=PORT ):
    """Liveness probe: a new TCP session registers and reads SCADA[0]; returns True iff answered with status 0."""
    try:
        s = socket.create_connection( ('127.0.0.1', port), timeout=3 )
        s.sendall( REGISTER )
        r = recv_frame( s )
        if not r or len( r ) < 28: return False
        sess = struct.unpack( '<I', r[4:8] )[0]
        s.sendall( cpf_unconnected( read_tag(), sess ))
        r = recv_frame( s )
        s.close()
        return bool( r ) and len( r ) >= 44 and r[40:44] == b'\xcc\x00\x00\x00'
    except Exception as exc:
        print( "probe: %r" % ( exc, ))
        return False
# ----

logging.disable( logging.ERROR )
t,c,res = start()						# UDP + TCP, as by default
assert probe(), "simulator not serving before the test"
c['disable'] = True
time.sleep( 1.5 )
c['disable'] = False
time.sleep( 2.0 )
alive = probe()
print( "after disable/enable: main() running: %s, result: %r, new session served: %s" % ( t.is_alive(), res, alive ))
c['done'] = True
if not alive:
    print( "DEFECT: expected the simulator to serve again after being re-enabled" )
    os._exit( 1 )
os._exit( 0 )
