"""One datagram makes the UDP server talk to itself for ever.  enip_srv_udp answers every datagram that parses,
whoever sent it, and a List Identity / List Services *reply* parses as a request again.  A single 24-octet
List Identity datagram whose source address is forged to be the simulator's own UDP address ( or that of a
second cpppo simulator: then the two ping-pong ) is answered to ... the simulator, which answers that reply,
and so on, without end and at full speed.  ( Needs a raw socket: run as root inside `unshare -n`. )

Expected: processing of one datagram is bounded ( a reply / a datagram from the server's own address is not
answered ); observed: the request counter of the peer "127_0_0_1_44818" keeps growing for as long as one watches.
"""
import os
# ---- helpers: start the simulator in-process, build frames, probe liveness
import sys, threading, time, socket, struct, logging
from cpppo.dotdict import dotdict, apidict
from cpppo.server.enip.main import main as enip_main

PORT = 44818

def start( tags=('SCADA=INT[100]',), udp=True, port=PORT, latency=0.1, extra=() ):
    control = apidict( timeout=1.0 )
    control['latency'] = latency
    server = dotdict( control=control )
    args = [ '--no-config', '-a', 'localhost:%d' % port ] + list( extra ) + list( tags )
    if not udp:
        args.insert( 0, '-U' )
    result = {}
    def run():
        try:
            result['rc'] = enip_main( argv=args, server=server )
        except BaseException as exc:
            result['exc'] = exc
    t = threading.Thread( target=run ); t.daemon = True; t.start()
    beg = time.time()
    while 'address' not in control and time.time() - beg < 10:
        time.sleep( .05 )
    assert 'address' in control, "simulator did not start"
    return t, control, result

def enip( command, payload=b'', session=0, status=0, ctx=b'\0'*8, options=0, length=None ):
    return struct.pack( '<HHII8sI', command, len( payload ) if length is None else length,
                        session, status, ctx, options ) + payload

REGISTER = enip( 0x65, struct.pack( '<HH', 1, 0 ))

def cpf_unconnected( cip, session, timeout=5 ):
    body = struct.pack( '<IH', 0, timeout ) + struct.pack( '<H', 2 ) + struct.pack( '<HH', 0, 0 ) \
        + struct.pack( '<HH', 0xB2, len( cip )) + cip
    return enip( 0x6f, body, session=session )

def read_tag( name=b'SCADA', elements=1 ):
    seg = b'\x91' + bytes([len(name)]) + name + ( b'\0' if len(name) % 2 else b'' )
    return b'\x4c' + bytes([len(seg)//2]) + seg + struct.pack( '<H', elements )

def recv_frame( s, timeout=3.0 ):
    s.settimeout( timeout )
    buf = b''
    try:
        while len( buf ) < 24:
            d = s.recv( 4096 )
            if not d: return buf or None
            buf += d
        ln = struct.unpack( '<H', buf[2:4] )[0]
        while len( buf ) < 24 + ln:
            d = s.recv( 4096 )
            if not d: break
            buf += d
    except socket.timeout:
        return buf or None
    return buf

def probe( port=PORT ):
    """Liveness probe: a new TCP session registers and reads SCADA[0]; returns True iff answered with status 0."""
    try:
        s = socket.create_connection( ('127.0.0.1', port), timeout=3 )
        s.sendall( REGISTER )
        r = recv_frame( s )
        if not r or len( r ) < 28: return False
        sess = struct.unpack( '<I', r[4:8] )[0]
        s.sendall( cpf_unconnected( read_tag(), sess ))
        r = recv_frame( s )
        s.close()
        return bool( r ) and len( r ) >= 44 and r[40:44] == b'\xcc\x00\x00\x00'
    except Exception as exc:
        print( "probe: %r" % ( exc, ))
        return False
# ----
from cpppo.server.enip import main as M

logging.disable( logging.ERROR )
t,c,res = start()
def spoof( payload, sport=PORT, dport=PORT ):
    raw = socket.socket( socket.AF_INET, socket.SOCK_RAW, socket.IPPROTO_UDP )
    raw.sendto( struct.pack( '!HHHH', sport, dport, 8 + len( payload ), 0 ) + payload, ('127.0.0.1', 0) )
    raw.close()
spoof( enip( 0x63 ))						# ONE datagram
counts = []
for i in range( 6 ):
    time.sleep( 1 )
    st = dict.get( M.connections, '127_0_0_1_%d' % PORT )
    counts.append( st['requests'] if st else 0 )
print( "requests served for the one datagram, sampled once a second: %r" % ( counts, ))
c['done'] = True
if counts[-1] > 1 and counts[-1] > counts[-2] > counts[-3]:
    print( "DEFECT: observed an endless exchange ( still growing after 6 s ); expected: 1 datagram, at most 1 reply" )
    os._exit( 1 )
os._exit( 0 )
