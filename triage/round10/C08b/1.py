"""UDP peers are never forgotten: enip_srv_udp -> stats_for() creates a `connections` entry (an apidict: a
multiprocessing RLock + Condition == 4 mmap'ed POSIX semaphores) for every distinct source (ip,port) of a
datagram -- even an empty or garbage one -- and nothing ever removes it.  After ~16300 datagrams from distinct
source ports (vm.max_map_count 65530 / 4) the process can no longer mmap: stats_for fails for every new TCP
session, threads cannot be started, and the simulator is dead for everybody ( run with --full to see that;
~70-120 s ).  By default this program sends N=1500 datagrams from 1500 source ports, waits, and reports the
entries and memory maps that were left behind.

Expected: what a (connectionless) peer leaves behind is bounded / released; observed: one permanent entry and
4 memory maps per source address.
"""
import os
# ---- helpers: start the simulator in-process, build frames, probe liveness
import sys, threading, time, socket, struct, logging
from cpppo.dotdict import dotdict, apidict
from cpppo.server.enip.main import main as enip_main

PORT = 44818

def start( tags=('SCADA=INT[100]',), udp=True, port=PORT, latency=0.1, extra=() ):
    control = apidict( timeout=1.0 )
    control['latency'] = latency
    server = dotdict( control=control )
    args = [ '--no-config', '-a', 'localhost:%d' % port ] + list( extra ) + list( tags )
    if not udp:
        args.insert( 0, '-U' )
    result = {}
    def run():
        try:
            result['rc'] = enip_main( argv=args, server=server )
        except BaseException as exc:
            result['exc'] = exc
    t = threading.Thread( target=run ); t.daemon = True; t.start()
    beg = time.time()
    while 'address' not in control and time.time() - beg < 10:
        time.sleep( .05 )
    assert 'address' in control, "simulator did not start"
    return t, control, result

def enip( command, payload=b'', session=0, status=0, ctx=b'\0'*8, options=0, length=None ):
    return struct.pack( '<HHII8sI', command, len( payload ) if length is None else length,
                        session, status, ctx, options ) + payload

REGISTER = enip( 0x65, struct.pack( '<HH', 1, 0 ))

def cpf_unconnected( cip, session, timeout=5 ):
    body = struct.pack( '<IH', 0, timeout ) + struct.pack( '<H', 2 ) + struct.pack( '<HH', 0, 0 ) \
        + struct.pack( '<HH', 0xB2, len( cip )) + cip
    return enip( 0x6f, body, session=session )

def read_tag( name=b'SCADA', elements=1 ):
    seg = b'\x91' + bytes([len(name)]) + name + ( b'\0' if len(name) % 2 else b'' )
    return b'\x4c' + bytes([len(seg)//2]) + seg + struct.pack( '<H', elements )

def recv_frame( s, timeout=3.0 ):
    s.settimeout( timeout )
    buf = b''
    try:
        while len( buf ) < 24:
            d = s.recv( 4096 )
            if not d: return buf or None
            buf += d
        ln = struct.unpack( '<H', buf[2:4] )[0]
        while len( buf ) < 24 + ln:
            d = s.recv( 4096 )
            if not d: break
            buf += d
    except socket.timeout:
        return buf or None
    return buf

def probe( port=PORT ):
    """Liveness probe: a new TCP session registers and reads SCADA[0]; returns True iff answered with status 0."""
    try:
        s = socket.create_connection( ('127.0.0.1', port), timeout=3 )
        s.sendall( REGISTER )
        r = recv_frame( s )
        if not r or len( r ) < 28: return False
        sess = struct.unpack( '<I', r[4:8] )[0]
        s.sendall( cpf_unconnected( read_tag(), sess ))
        r = recv_frame( s )
        s.close()
        return bool( r ) and len( r ) >= 44 and r[40:44] == b'\xcc\x00\x00\x00'
    except Exception as exc:
        print( "probe: %r" % ( exc, ))
        return False
# ----
from cpppo.server.enip import main as M

full = '--full' in sys.argv
N = 17000 if full else 1500
logging.disable( logging.ERROR )
t,c,res = start()
assert probe(), "simulator not serving before the test"
maps = lambda: len( open( '/proc/self/maps' ).readlines() )
maps_before, entries_before = maps(), len( dict.keys( M.connections ))
req = enip( 0x63 )						# List Identity; valid, answered
beg = time.time()
sent = answered = 0
for ip in ( '127.0.0.1', '127.0.0.2', '127.0.0.3' ):
    for port in range( 10000, 16000 ):
        if sent >= N: break
        u = socket.socket( socket.AF_INET, socket.SOCK_DGRAM )
        u.bind( (ip, port) )
        u.sendto( req, ('127.0.0.1', PORT) )
        u.settimeout( .5 )
        sent += 1
        try:
            u.recvfrom( 4096 ); answered += 1
        except socket.timeout:
            pass
        u.close()
        if sent - answered > 20: break
time.sleep( 2 )							# every peer is long gone
entries = len( dict.keys( M.connections )) - entries_before
grown = maps() - maps_before
print( "%d datagrams from %d distinct UDP sources (%d answered) in %.1fs" % ( sent, sent, answered, time.time() - beg ))
print( "observed: %d `connections` entries and %d memory maps left behind; expected: bounded (released)" % ( entries, grown ))
alive = probe()
print( "new TCP session served afterwards: %s" % alive )
logging.disable( logging.NOTSET )
c['done'] = True
if entries >= sent * 9 // 10 or not alive:
    print( "DEFECT: every UDP source address costs a permanent stats entry (4 mmaps); ~16300 of them exhaust "
           "vm.max_map_count and no new session can be served" )
    os._exit( 1 )
os._exit( 0 )
