#!/usr/bin/env python
"""C05 contradiction 2 (unchanged code): a tag configured to fail its requests stores the write it refuses.

An Attribute may be given an error code ( Attribute( ..., error=0x10 ), tags.<name>.error via main()'s
tags or the web API ): "requests on the Attribute should fail with that code" -- eg. 0x10, the
'Device state conflict: keyswitch position' status that Logix.request's own table lists for writes.
Logix.request consults attribute.error only AFTER the operation was carried out: the Write Tag
[Fragmented] is answered with the failure status, but its values are in the tag.

Expected: the failure reply leaves the tag as it was.  Observed: status 0x10 and the tag changed.
"""
from __future__ import print_function

import sys

import cpppo
from cpppo.server import enip
from cpppo.server.enip import logix, parser, device


def execute( obj, request ):
    encoded			= obj.produce( cpppo.dotdict( request ))
    data			= cpppo.dotdict()
    with obj.parser as machine:
        for m,s in machine.run( source=cpppo.peekable( encoded ), data=data ):
            pass
    obj.request( data )
    reply			= cpppo.dotdict()
    with obj.parser as machine:
        for m,s in machine.run( source=cpppo.peekable( bytes( data.input )), data=reply ):
            pass
    return reply


def main():
    enip.lookup_reset()
    Obj				= logix.Logix( instance_id=1 )
    tag = Obj.attribute['1']	= device.Attribute( 'Locked', parser.INT, default=[ 11, 22, 33, 44 ], error=0x10 )
    device.redirect_tag( 'Locked', {'class': Obj.class_id, 'instance': Obj.instance_id, 'attribute': 1 })

    contradictions		= 0
    for service,extra in (( 'write_tag', {} ), ( 'write_frag', {'offset': 0} )):
        before			= list( tag.value )
        reply			= execute( Obj, {
            'path':		{'segment': [ cpppo.dotdict( symbolic='Locked' ), cpppo.dotdict( element=1 ) ]},
            service:		dict( extra, type=parser.INT.tag_type, elements=2, data=[ -1, -2 ] ),
        })
        after			= list( tag.value )
        print( "%-10s Locked[1-2] = [-1, -2]: status 0x%02x; tag before %r, after %r" % (
            service, reply.status, before, after ))
        if reply.status != 0x00 and after != before:
            print( "CONTRADICTION: %s answered with failure status 0x%02x changed the tag: %r -> %r (expected unchanged)" % (
                service, reply.status, before, after ))
            contradictions     += 1
        tag[0:4]		= [ 11, 22, 33, 44 ]
    return 1 if contradictions else 0


if __name__ == "__main__":
    sys.exit( main() )
