#!/usr/bin/env python
"""C05 contradiction 3 (unchanged code): Write Tag Fragmented into a STRING tag at a byte offset that
happens to be a multiple of 80 is acknowledged, and stored over the wrong elements.

reply_elements converts the byte offset of a fragment into an element index by dividing by the
element size.  For STRING / SSTRING tags that "size" is parser.STRING.struct_calcsize == 80, an
*estimate* ("Average STRING size used for estimations"); the encoded size of a STRING is 2+len(+pad).
Logix.request's own comment says "We don't presently support a non-zero .offset for indeterminately
sized types (eg. STRING/SSTRING, etc.)", but only a remainder of the division by 80 is refused
(0xFF / 0x2105).  An offset of exactly 80, 160, ... passes every assert and lands on element 1, 2, ...

A client that tiles a 40-element STRING range into two fragments of 20 two-symbol strings
(20 * (2+2) == 80 octets each) sends the second fragment at byte offset 80: the simulator
acknowledges it with 0x00 and stores it over elements 1-20 instead of 20-39.

Expected: either both fragments end up where they belong (tag == written values), or the fragment
with the unsupported offset is refused and changes nothing.  Observed: 0x00, wrong elements written.
"""
from __future__ import print_function

import sys

import cpppo
from cpppo.server import enip
from cpppo.server.enip import logix, parser, device


def execute( obj, request ):
    encoded			= obj.produce( cpppo.dotdict( request ))
    data			= cpppo.dotdict()
    with obj.parser as machine:
        for m,s in machine.run( source=cpppo.peekable( encoded ), data=data ):
            pass
    obj.request( data )
    reply			= cpppo.dotdict()
    with obj.parser as machine:
        for m,s in machine.run( source=cpppo.peekable( bytes( data.input )), data=reply ):
            pass
    return reply


def main():
    enip.lookup_reset()
    Obj				= logix.Logix( instance_id=1 )
    size			= 40
    tag = Obj.attribute['1']	= device.Attribute( 'Names', parser.STRING, default=[ '' ] * size )
    device.redirect_tag( 'Names', {'class': Obj.class_id, 'instance': Obj.instance_id, 'attribute': 1 })

    written			= [ '%02d' % i for i in range( size ) ]	# each encodes to 2 (length) + 2 octets
    half			= size // 2
    offset_2nd			= len( b''.join( parser.STRING.produce( s ) for s in written[:half] ))
    assert offset_2nd == 80

    status			= []
    snapshot			= []
    for offset,part in (( 0, written[:half] ), ( offset_2nd, written[half:] )):
        reply			= execute( Obj, {
            'path':		{'segment': [ cpppo.dotdict( symbolic='Names' ) ]},
            'write_frag':	dict( type=parser.STRING.tag_type, elements=size, offset=offset, data=part ),
        })
        status.append( (reply.status, reply.get( 'status_ext.data' )) )
        snapshot.append( list( tag.value ))
        print( "Write Tag Fragmented Names[0-39]+%-3d (%d strings): status 0x%02x %r" % (
            offset, len( part ), reply.status, reply.get( 'status_ext.data' )))

    print( "tag now: %r" % ( tag.value, ))
    if status[1][0] == 0x00:
        ok			= list( tag.value ) == written
        verdict			= "second fragment (byte offset 80) acknowledged 0x00; tag %s the written values" % (
            "holds" if ok else "does NOT hold" )
        if not ok:
            wrong		= [ i for i in range( size ) if tag.value[i] != written[i] ]
            verdict	       += "; elements %d-%d differ (eg. [1] == %r, expected %r; [39] == %r, expected %r)" % (
                wrong[0], wrong[-1], tag.value[1], written[1], tag.value[39], written[39] )
    else:
        ok			= snapshot[1] == snapshot[0]
        verdict			= "second fragment refused (%r); tag %s" % (
            status[1], "unchanged by it" if ok else "CHANGED by it" )
    print( ( "OK: " if ok else "CONTRADICTION: " ) + verdict )
    return 0 if ok else 1


if __name__ == "__main__":
    sys.exit( main() )
