#!/usr/bin/env python
"""C05 contradiction 4 (unchanged code): with `python -O` (or PYTHONOPTIMIZE=1) the simulator validates nothing.

Logix.request / reply_elements refuse a request by `assert`: the type table ( 0xFF / 0x2107 ), most of
the range checks ( 0xFF / 0x2105 ), "attribute is not None" ( 0x05 ).  Python drops assert statements
under -O, a perfectly legal way to run `python -O -m cpppo.server.enip ...`.  Then a Write Tag of DINT
70000 into an INT tag is acknowledged 0x00 and stored; every later read of the tag raises struct.error
in Logix.produce, *outside* the try block of Logix.request, so it is not even answered with an error
status: the exception leaves Logix.request ( over the wire: the session's request fails ).

This program runs the three requests in a child interpreter started with -O (and, for comparison,
without): expected in both is 0xFF / 0x2107 for the write, the tag unchanged, and the read answered 0x00.
"""
from __future__ import print_function

import subprocess
import sys

CHILD = r'''
from __future__ import print_function
import cpppo
from cpppo.server import enip
from cpppo.server.enip import logix, parser, device

def execute( obj, request ):
    encoded = obj.produce( cpppo.dotdict( request ))
    data = cpppo.dotdict()
    with obj.parser as machine:
        for m,s in machine.run( source=cpppo.peekable( encoded ), data=data ):
            pass
    obj.request( data )
    reply = cpppo.dotdict()
    with obj.parser as machine:
        for m,s in machine.run( source=cpppo.peekable( bytes( data.input )), data=reply ):
            pass
    return reply

enip.lookup_reset()
Obj = logix.Logix( instance_id=1 )
tag = Obj.attribute['1'] = device.Attribute( 'Count', parser.INT, default=[ 1, 2, 3 ] )
device.redirect_tag( 'Count', {'class': Obj.class_id, 'instance': Obj.instance_id, 'attribute': 1 })
pth = {'segment': [ cpppo.dotdict( symbolic='Count' ), cpppo.dotdict( element=0 ) ]}
ok = True
rpy = execute( Obj, { 'path': pth, 'write_tag': { 'type': parser.DINT.tag_type, 'elements': 1, 'data': [ 70000 ] }} )
print( "Write Tag Count[0] = (DINT)70000: status 0x%02x %r; tag %r" % ( rpy.status, rpy.get( 'status_ext.data' ), tag.value ))
ok = ok and rpy.status == 0xFF and rpy.get( 'status_ext.data' ) == [ 0x2107 ] and tag.value == [ 1, 2, 3 ]
try:
    rpy = execute( Obj, { 'path': pth, 'read_tag': { 'elements': 3 }} )
    print( "Read Tag Count[0-2]: status 0x%02x %r" % ( rpy.status, rpy.get( 'read_tag.data' )))
    ok = ok and rpy.status == 0x00
except Exception as exc:
    print( "Read Tag Count[0-2]: Logix.request raised %r" % ( exc, ))
    ok = False
raise SystemExit( 0 if ok else 1 )
'''

def main():
    result			= {}
    for flags in ( [], ['-O'] ):
        print( "--- %s" % ' '.join( [ 'python' ] + flags ))
        result[tuple( flags )]	= subprocess.call( [ sys.executable ] + flags + [ '-c', CHILD ] )
    if result[()] == 0 and result[('-O',)] != 0:
        print( "CONTRADICTION: under python -O the DINT write into the INT tag is accepted and the tag becomes unreadable "
               "(expected 0xFF / 0x2107 and an unchanged, readable tag, as without -O)" )
        return 1
    return 0 if not any( result.values() ) else 1


if __name__ == "__main__":
    sys.exit( main() )
