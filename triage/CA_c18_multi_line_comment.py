#!/usr/bin/env python
"""
UNCHANGED code: a comment written with logger.comment() whose text spans two lines, at the top of a
( rotated ) history file, makes replay ignore that WHOLE file.

logger.comment writes  '# ' + s + '\\n'  - only the first line of s gets the comment marker.  The
second line is an ordinary line to parse_record; in front of the file's first record it raises
ValueError while reader.open evaluates the file ( "Ignoring history file ..." ), the file is passed
over and all its records are lost.  ( The same text behind the first record is reported as
( None, None ) and skipped harmlessly. )

Expected: comment lines are skipped without losing the records around them: 4 records replayed.
Observed: the 2 records of plant.hst.0 are missing.
"""
from __future__ import print_function
import logging, os, shutil, sys, tempfile

import cpppo
from cpppo.history import files as hfiles
from cpppo.history import logger, loader

logging.getLogger().setLevel( logging.ERROR )
T				= 1412345678.0

class clock( object ):
    def __init__( self, now ):	self.now = now
    def __call__( self ):	return self.now

def main():
    tmp				= tempfile.mkdtemp( prefix='c18_defect5_' )
    try:
        path			= os.path.join( tmp, 'plant.hst' )
        with logger( path + '.1' ) as l:
            l.comment( "unit 7 history" )
            l.write( { 40001: 1 }, now=T + 0.0 )
            l.write( { 40001: 2 }, now=T + 1.0 )
        with logger( path + '.0' ) as l:
            l.comment( "unit 7 history\nrotated by operator request" )		# two lines of text
            l.write( { 40002: 3 }, now=T + 2.0 )
            l.write( { 40003: 4 }, now=T + 3.0 )
        with logger( path ) as l:
            l.comment( "unit 7 history" )
            l.write( { 40001: 5 }, now=T + 4.0 )
        want			= [ (0.0, {'40001': 1}), (1.0, {'40001': 2}), (2.0, {'40002': 3}), (3.0, {'40003': 4}), (4.0, {'40001': 5}) ]

        wall			= clock( 1000000.0 )
        hfiles.timer		= wall
        ld			= loader( path, historical=T - 1.0, basis=wall.now, factor=1.0 )
        got			= []
        loads			= 0
        while ld and loads < 1000:
            loads	       += 1
            cur,events		= ld.load()
            got.extend( (round( e['timestamp'].value - T, 3 ), e['values']) for e in events )
            wall.now	       += 0.25
        values			= dict( (r, v) for r,(t,v) in ld.values.items() )
    finally:
        shutil.rmtree( tmp, ignore_errors=True )

    if got != want:
        print( "CONTRADICTION: a two-line logger.comment() at the top of plant.hst.0 makes replay ignore the whole file" )
        print( "  expected records: %r" % ( want, ))
        print( "  observed records: %r" % ( got, ))
        print( "  observed final map: %r ( expected 40001: 5, 40002: 3, 40003: 4 )" % ( values, ))
        return 1
    print( "OK: all %d records replayed" % len( got ))
    return 0

if __name__ == "__main__":
    sys.exit( main() )
