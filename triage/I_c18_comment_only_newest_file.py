import os, sys, tempfile, shutil
from cpppo.history import files as hfiles
from cpppo.history import logger, loader
BASE=1400000000.0; WALL=2000000000.0
class clk:
    def __init__(s,n): s.now=n
    def __call__(s): return s.now
d=tempfile.mkdtemp()
try:
    path=os.path.join(d,'h.hst')
    # older rotated file with 3 records, newest file holds only a comment (logger.comment after rotation, no data yet)
    with logger(path+'.0') as l:
        for i in range(3):
            l.write({40001:i}, now=BASE+i)
    with logger(path) as l:
        l.comment('rotated; nothing logged yet')
    c=clk(WALL); hfiles.timer=c
    ld=loader(path, historical=BASE-1, basis=WALL, factor=1.0)
    got=[]
    for step in range(0,10):
        c.now=WALL+step
        while True:
            cur,ev=ld.load()
            got+=ev
            if not ev: break
    print('state',ld.statename[ld.state],'events',len(got), 'values', ld.values)
    sys.exit(0 if len(got)==3 else 1)
finally:
    shutil.rmtree(d)
