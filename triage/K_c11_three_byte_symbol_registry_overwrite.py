# -*- coding: utf-8 -*-
import sys
import cpppo
from cpppo import automata
def run(rx, inp):
    m = cpppo.regex_bytes( name='r', initial=rx, context='r', terminal=True )
    data = cpppo.dotdict()
    source = cpppo.peekable( inp )
    try:
        with m:
            for mch,sta in m.run( source=source, data=data ):
                pass
        return m.terminal, source.sent, bytes(bytearray(data.get('r.input', b''))) if 'r.input' in data else b''
    except Exception as exc:
        return 'EXC %s' % type(exc).__name__, source.sent, None
bad = 0
for rx, inp, want in [ (u'ππ', u'ππ'.encode('utf-8'), (True, 4)),
                       
                       (u'π', u'π'.encode('utf-8'), (True, 2)),
                       (u'ππ', u'πa'.encode('utf-8'), (False, None)),
                       (u'€', u'€'.encode('utf-8'), (True, 3)),
                     ]:
    got = run( rx, inp )
    ok = ( got[0] is True and got[1] == want[1] ) if want[0] else ( got[0] is not True )
    print( repr(rx), repr(inp), '->', got, 'OK' if ok else 'WRONG (want terminal=%s sent=%s)' % want )
    bad += not ok
sys.exit( 1 if bad else 0 )
