# -*- coding: utf-8 -*-
"""C18 contradiction 6 ( an earlier repair is incomplete ): "Comment lines ... are skipped without losing the records around
them".  Commit 2ab83c2 made reader.open skip a line -- "a comment included" -- that holds octets outside the expected
encoding, but only where the NEXT record of an open file is parsed.  The very same comment line in front of the first record
of a file ( where logger.comment puts it after every rotation: "# <time>: Started recording ..." ) is decoded by parse_record
before it is recognised as a comment; the UnicodeDecodeError is taken for a bad initial frame, the whole file is "Ignored",
and every record in it is lost.

  plant.hst.1	record, "# café ..." comment, record		-> comment skipped, both records delivered ( the repair )
  plant.hst	"# café ..." comment, record, record		-> file ignored, both records lost
"""
from __future__ import print_function
import os, shutil, sys, tempfile, time, warnings
warnings.simplefilter( 'ignore' )
import logging
logging.basicConfig( level=logging.CRITICAL )

from cpppo.history import logger, loader, timestamp

T0			= 1400000000.0
d			= tempfile.mkdtemp( prefix='c18_d6_' )
try:
    path		= os.path.join( d, 'plant.hst' )
    logged		= []
    def put( l, ts, vals ):
        l.write( vals, now=ts )
        logged.append( ( str( timestamp( ts )), dict( ( str( k ), v ) for k,v in vals.items() )))
    with logger( path + '.1' ) as l:
        put( l, T0 + 1, { 40001: 1 } )
        l.comment( u"operator note: café pump restarted", encoding='utf-8' )
        put( l, T0 + 2, { 40001: 2 } )
    with logger( path ) as l:
        l.comment( u"Started recording: café pump", encoding='utf-8' )
        put( l, T0 + 3, { 40001: 3 } )
        put( l, T0 + 4, { 40001: 4 } )

    ld			= loader( path, historical=T0, basis=time.time(), factor=20.0 )
    got			= []
    end			= time.time() + 20
    while ld and time.time() < end:
        cur,events	= ld.load()
        got.extend( ( str( e['timestamp'] ), e['values'] ) for e in events )
        time.sleep( .01 )
    regs		= dict( ( r, v ) for r,(t,v) in ld.values.items() )
finally:
    shutil.rmtree( d, ignore_errors=True )

print( "logged    %r" % ( [ r[0][11:] for r in logged ], ))
print( "delivered %r; state %s; register map %r" % ( [ r[0][11:] for r in got ], ld.statename[ld.state], regs ))
if got != logged or regs != { 40001: 4 }:
    print( "OBSERVED: plant.hst, which BEGINS with the comment, was ignored as a whole; %d records lost" % ( len( logged ) - len( got )))
    print( "EXPECTED: a comment line is skipped wherever it stands: 4 records delivered, register map {40001: 4}" )
    sys.exit( 1 )
print( "OK" )
sys.exit( 0 )
