"""pop with a default, on a path that names nothing: a trailing '.' gives the default, back-tracking to the root
raises KeyError; get() and membership treat both as absent."""
import sys
from cpppo.dotdict import dotdict

bad = []
d = dotdict()
d['a.b'] = 1
for key in ( 'a.b.', 'zz.', 'a..', 'a.b...', '.', '' ):
    assert key not in d and d.get( key, 'DEFAULT' ) == 'DEFAULT', key
    try:
        got = d.pop( key, 'DEFAULT' )
        if got != 'DEFAULT':
            bad.append( "d.pop( %r, 'DEFAULT' ): observed %r" % ( key, got ))
    except KeyError as exc:
        bad.append( "d.pop( %r, 'DEFAULT' ): observed KeyError(%s), expected 'DEFAULT' ( %r in d is False, d.get gives the default )" % (
            key, exc, key ))
if sorted( d.items() ) != [( 'a.b', 1 )]:
    bad.append( "tree changed: %r" % ( sorted( d.items() ), ))
if bad:
    print( "\n".join( bad ))
    sys.exit( 1 )
print( "OK" )
