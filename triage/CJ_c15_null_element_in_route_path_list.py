"""C15 defect 6: a JSON route path list ends silently at a null element.

parse_route_path walks the list with

        pl = next( pls, None )
        while pl:
            rps.append( port_link( pl )) ...
            pl = next( pls, None )
        trs = ( [] if pl is None else [ pl ] ) + list( pls )

and uses None both for "list exhausted" and as an element's value: a null in the list is taken for the end of
the list.  Every other element that is not a port/link ( 0, "", [], false ) is reported ( "route_path
unhandled" ); null is dropped, with everything the walk had not yet reached judged on its own:

    '[null]'          --> []                       ( the personality of a *simple* device: only requests without
                                                     a route path are served; --route-path='[null]' starts so )
    '["1/0", null]'   --> [{'port':1,'link':0}]    ( the null vanishes )

Expected: AssertionError ( "route_path unhandled: [None]" ), as for '[0]', '[""]', '[[]]', '[false]'.
Observed: a route path is returned.
"""
from __future__ import print_function
import sys, logging

from cpppo.server.enip import device

logging.basicConfig( level=logging.CRITICAL )

defect			= False
for text in ( '[0]', '[""]', '[[]]', '[false]', '["1/0", 0]', '[null]', '["1/0", null]', '[null, "1/0"]' ):
    try:
        observed	= "returned %r" % ( device.parse_route_path( text ), )
        good		= False
    except AssertionError as exc:
        observed	= "AssertionError: %s" % ( exc )
        good		= True
    except Exception as exc:
        observed	= "%s: %s" % ( type( exc ).__name__, exc )
        good		= False
    print( "parse_route_path( %-18r ): expected AssertionError (not a port/link); observed %s%s" % (
        text, observed, '' if good else '   <== WRONG' ))
    defect		= defect or not good
if defect:
    print( "DEFECT: a null element silently ends the route path list" )
    sys.exit( 1 )
print( "OK" )
