"""Defect Z (C13): proxy.close_gateway calls self.gateway.close() BEFORE it stores self.gateway = None.  A connected gateway ( client.implicit )
sends a Forward Close from close() and raises when the connection is dead - exactly when close_gateway is called - so the dead gateway is
kept and the proxy never reconnects.   Simulator + cuttable TCP relay + proxy_connected.  exit 1 on the pinned tree, 0 after the fix."""
import sys, time, socket, threading, select, logging
import cpppo
from cpppo.server.enip.main import main as enip_main
from cpppo.server.enip import client
from cpppo.server.enip.get_attribute import proxy_connected

SRV = 44818; RLY = 44900
ctl = cpppo.dotdict( done=False )
t = threading.Thread( target=enip_main, kwargs=dict( argv=[ '-a', 'localhost:%d' % SRV, 'T=DINT[4]' ], server=dict( control=ctl )))
t.daemon = True; t.start()
time.sleep( 1.5 )

class Relay( threading.Thread ):
    def __init__( self ):
        super( Relay, self ).__init__(); self.daemon = True
        self.lsn = socket.socket(); self.lsn.setsockopt( socket.SOL_SOCKET, socket.SO_REUSEADDR, 1 ); self.lsn.bind(( 'localhost', RLY )); self.lsn.listen( 5 )
        self.pairs = []; self.cut = False
    def run( self ):
        while True:
            r, _, _ = select.select( [ self.lsn ] + [ s for p in self.pairs for s in p ], [], [], 0.05 )
            if self.cut:
                for a, b in self.pairs:
                    a.close(); b.close()
                self.pairs = []; self.cut = False
                continue
            for s in r:
                if s is self.lsn:
                    c, _ = self.lsn.accept(); u = socket.create_connection(( 'localhost', SRV )); self.pairs.append(( c, u ))
                    continue
                for a, b in list( self.pairs ):
                    if s in ( a, b ):
                        try:
                            d = s.recv( 4096 )
                        except Exception:
                            d = b''
                        if not d:
                            a.close(); b.close(); self.pairs.remove(( a, b ))
                        else:
                            ( b if s is a else a ).sendall( d )
relay = Relay(); relay.start()

via = proxy_connected( host='localhost', port=RLY, timeout=2.0 )
def read():
    with via:
        return list( via.read( [ 'T[0-3]' ] ))
bad = 0
print( 'before the fault: %r' % read() )
relay.cut = True; time.sleep( 0.3 )
try:
    print( 'across the fault: %r' % read() )
except Exception as exc:
    print( 'across the fault: %s: %s (an error is the expected outcome)' % ( type( exc ).__name__, str( exc )[:80] ))
for attempt in range( 3 ):
    try:
        print( 'after the fault, attempt %d: %r' % ( attempt, read() )); break
    except Exception as exc:
        print( 'after the fault, attempt %d: %s: %s' % ( attempt, type( exc ).__name__, str( exc )[:80] ))
else:
    bad = 1; print( 'the proxy never reconnected' )
ctl.done = True
sys.exit( bad )
