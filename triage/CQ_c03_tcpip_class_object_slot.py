#!/usr/bin/env python
"""C05 side find 4 ( Object / Attribute directory ): TCPIP's class-level instance stores its 'Revision'
Attribute under attribute number '0' - the slot in which Object.__init__ keeps the Object itself.
lookup( 0xF5, 0 ) then yields an Attribute: the class object of 0xF5 cannot be addressed at all, every
request to it fails inside the router ( 'Attribute' object has no attribute 'request' ), whereas
the class-level Revision of every other Object ( eg. @0x01/0/1 ) can be read.

Input:    Get Attribute Single @0xF5/0/1 and @0x01/0/1, Get Attributes All @0xF5/0
Expected: replies with status 0x00 ( or at least an error reply ) from the TCPIP class object
Observed: the request raises AttributeError out of Logix.request
"""
from __future__ import print_function
import sys
import cpppo
from cpppo.server import enip
from cpppo.server.enip import logix, device, parser

def transact( obj, request ):
    encoded			= obj.produce( cpppo.dotdict( request ))
    data			= cpppo.dotdict()
    with obj.parser as machine:
        for _ in machine.run( source=cpppo.rememberable( encoded ), data=data ):
            pass
    obj.request( data )
    return data

def main():
    enip.lookup_reset()
    logix.setup_reset()
    logix.setup()
    obj				= device.lookup( 0x02, 1 )
    bad				= []
    for cls in ( 0x01, 0xF5 ):
        target			= device.lookup( cls, 0 )
        print( "lookup( 0x%02X, 0 ) is %r" % ( cls, target ))
        if not isinstance( target, device.Object ):
            bad.append( "lookup( 0x%02X, 0 ) is not an Object: %r" % ( cls, target ))
        try:
            data		= transact( obj, dict( path={'segment': [ {'class': cls}, {'instance': 0}, {'attribute': 1} ]},
                                                       get_attribute_single=True ))
            print( "Get Attribute Single @0x%02X/0/1: status 0x%02x" % ( cls, data.status ))
            if data.status != 0:
                bad.append( "Get Attribute Single @0x%02X/0/1 (class Revision): status 0x%02x" % ( cls, data.status ))
        except Exception as exc:
            bad.append( "Get Attribute Single @0x%02X/0/1 raised %r instead of producing a reply" % ( cls, exc ))
    for b in bad:
        print( "CONTRADICTION: " + b )
    return 1 if bad else 0

if __name__ == "__main__":
    sys.exit( main() )
