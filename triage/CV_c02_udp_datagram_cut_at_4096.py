#!/usr/bin/env python
"""
C02 defect 1 (unchanged code): the UDP server cuts every request datagram at 4096 octets.

A Write Tag Fragmented request of 1100 DINTs is one EtherNet/IP frame of ~4.4 kB.  Sent to the
simulator over TCP it is answered and the tag is written.  The very same frame delivered completely in
one UDP datagram ( legal: a datagram holds up to 65507 octets ) is cut by network.recvfrom( maxlen=4096 )
in enip_srv_udp, refused as "Incomplete UDP request", never answered, and the tag keeps its old value -
although the request's final byte was delivered.

Exits 1 while the contradiction is present.
"""
from __future__ import print_function
import socket, struct, sys, threading, time
from cpppo.dotdict import apidict
from cpppo.server import enip
from cpppo.server.enip import client
from cpppo.server.enip.main import main as enip_main

ADDR				= ( '127.0.0.1', 44818 )

def start_server():
    control			= apidict( 2.0, { 'done': False } )
    thr				= threading.Thread( target=enip_main, kwargs=dict(
        argv=[ '--address', '%s:%d' % ADDR, 'BIG=DINT[2000]' ], server={ 'control': control } ))
    thr.daemon			= True
    thr.start()
    for _ in range( 100 ):
        try:
            socket.create_connection( ADDR, timeout=1 ).close()
            return control
        except socket.error:
            time.sleep( .1 )
    raise RuntimeError( "simulator did not start" )

def frame_of( value, count=1100 ):
    captured			= []
    conn			= client.connector( host=ADDR[0], port=ADDR[1], timeout=5 )
    conn.send			= lambda request, timeout=None: captured.append( bytes( request ))
    with conn:
        conn.write( 'BIG[0-%d]' % ( count - 1 ), elements=count, data=[ value ] * count,
                    tag_type=enip.DINT.tag_type )
    conn.close()
    return captured[0]

def read_back():
    with client.connector( host=ADDR[0], port=ADDR[1], timeout=5 ) as conn:
        conn.read( 'BIG[0-1]' )
        rsp,_			= client.await_response( conn, timeout=5 )
        return rsp.enip.CIP.send_data.CPF.item[1].unconnected_send.request.read_frag.data

def over_tcp( frame ):
    sock			= socket.create_connection( ADDR, timeout=5 )
    try:
        sock.sendall( struct.pack( '<HHIIQI', 0x0065, 4, 0, 0, 0, 0 ) + b'\x01\x00\x00\x00' )
        sock.recv( 4096 )
        sock.sendall( frame )
        sock.settimeout( 5 )
        try:
            return sock.recv( 65535 )
        except socket.timeout:
            return None
    finally:
        sock.close()

def over_udp( frame ):
    sock			= socket.socket( socket.AF_INET, socket.SOCK_DGRAM )
    sock.settimeout( 3 )
    try:
        sock.sendto( frame, ADDR )
        try:
            return sock.recvfrom( 65535 )[0]
        except socket.timeout:
            return None
    finally:
        sock.close()

def main():
    control			= start_server()
    try:
        small			= frame_of( 3, count=10 )
        rpy_s			= over_udp( small )
        val_s			= read_back()
        print( "UDP, %4d octet request: reply %s; BIG[0-1] == %r" % (
            len( small ), rpy_s and len( rpy_s ), val_s ))
        assert rpy_s and val_s == [3,3], "setup: small Write Tag over UDP should work"

        f11			= frame_of( 11 )
        rpy_t			= over_tcp( f11 )
        val_t			= read_back()
        print( "TCP, %4d octet request: reply %s; BIG[0-1] == %r" % (
            len( f11 ), rpy_t and len( rpy_t ), val_t ))
        assert rpy_t and val_t == [11,11], "setup: the large Write Tag over TCP should work"

        f22			= frame_of( 22 )
        rpy_u			= over_udp( f22 )
        val_u			= read_back()
        print( "UDP, %4d octet request: reply %s; BIG[0-1] == %r" % (
            len( f22 ), rpy_u and len( rpy_u ), val_u ))
    finally:
        control['done']		= True
    if not rpy_u or val_u != [22,22]:
        print( "CONTRADICTION: a %d-octet request delivered completely in one UDP datagram got %s and BIG[0-1] == %r;\n"
               "               expected: a reply and [22, 22], as over TCP ( the request's final byte was delivered )" % (
                   len( f22 ), "no reply" if not rpy_u else "a reply", val_u ))
        return 1
    print( "OK" )
    return 0

if __name__ == "__main__":
    sys.exit( main() )
