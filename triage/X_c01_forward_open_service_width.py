"""Defect X (C01): Connection_Manager.produce's  assert data.service == cls.FWD_OPLG_REQ if large else cls.FWD_OPEN_REQ  parses as
( data.service == OPLG ) if large else OPEN_REQ - for small connections the assertion tests the constant 0x54 (always true), so a request that
names the Large Forward Open service (0x5B) with small connections is EMITTED with 16-bit NCP words; the 0x5B grammar reads 32-bit words.
exit 1 on the pinned tree (emitted, does not parse back), 0 after the fix (refused)."""
import sys
import cpppo
from cpppo.server.enip import device, parser, defaults
CM = device.Connection_Manager
data = cpppo.dotdict()
data.service = CM.FWD_OPLG_REQ
data.path = { 'segment': [ cpppo.dotdict( d ) for d in [ {'class': 6}, {'instance': 1} ]] }
fo = data.forward_open = cpppo.dotdict()
fo.priority_time_tick = 5; fo.timeout_ticks = 157; fo.connection_serial = 1; fo.O_vendor = 2; fo.O_serial = 3
fo.connection_timeout_multiplier = 0; fo.transport_class_triggers = 0xa3
fo.connection_path = { 'segment': [ cpppo.dotdict( d ) for d in [ {'class': 2}, {'instance': 1} ]] }
fo.O_T = dict( RPI=1000, size=100, connection_ID=1 ); fo.T_O = dict( RPI=1000, size=100, connection_ID=2 )
try:
    req = CM.produce( data )
except AssertionError as exc:
    print( 'refused: %s' % exc ); sys.exit( 0 )
print( 'emitted %d bytes: %r' % ( len( req ), req ))
back = cpppo.dotdict()
try:
    with CM.parser as machine:
        for m, s in machine.run( source=cpppo.peekable( req ), data=back ):
            pass
    print( 'parsed O_T: %r' % back.get( 'forward_open.O_T' ))
    same = back.get( 'forward_open.O_T.RPI' ) == 1000 and back.get( 'forward_open.T_O.RPI' ) == 1000 and back.get( 'forward_open.transport_class_triggers' ) == 0xa3
except Exception as exc:
    print( 'does not parse: %r' % exc ); same = False
print( 'parses back to the same request: %s' % same )
sys.exit( 0 if same else 1 )
