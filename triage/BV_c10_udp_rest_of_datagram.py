#!/usr/bin/env python
"""
C10 -- the EtherNet/IP frame parser stops at header.length and "leaves the following bytes to the
enclosing grammar"; over UDP the enclosing grammar is ONE datagram, but client.__next__ keeps whatever
follows the frame in self.source and presents it as the beginning of the NEXT response.

( Follow-up of the repair "over UDP the client refuses a response datagram that ends inside a frame":
a datagram that ends inside a frame is refused now, but a datagram that goes on BEHIND its frame -- a
device that pads its reply, or whose header.length is too small, like the PowerFlex reply quoted in
parser.identity_object's docstring with header.length 0 -- poisons the next exchange: client.__next__
finds self.source.peek() is not None, does not receive at all, parses the stray octets of the previous
datagram, and then either raises "Incomplete UDP response" for the next, perfectly good, reply, or -- if
the stray octets form a whole frame -- delivers them as the response to the next request. )

Scenario, on localhost: a UDP responder answers two RegisterSession requests; its first reply datagram
carries 4 stray octets behind the complete 28-octet frame, the second reply is exact.

Expected: both requests are answered with the session handles of their own datagrams
( 0x11111111, 0x22222222 ), the stray octets dying with their datagram ( or the first datagram being
refused -- but never the second ).
Observed: the second request fails with AssertionError "Incomplete UDP response", although a complete
and correct reply datagram was delivered.
Exit 1 while the contradiction is present.
"""
import logging
import socket
import struct
import sys
import threading
import time

import cpppo
from cpppo.server.enip import client

logging.disable( logging.CRITICAL )

responder			= socket.socket( socket.AF_INET, socket.SOCK_DGRAM )
responder.bind( ('127.0.0.1', 0) )
port				= responder.getsockname()[1]


def register_reply( handle, context ):
    """A RegisterSession reply: 24-octet header ( .length 4 ) + protocol_version 1, options 0"""
    return ( struct.pack( '<HHII', 0x0065, 4, handle, 0 ) + context + struct.pack( '<I', 0 )
             + struct.pack( '<HH', 1, 0 ))


replies				= [
    register_reply( 0x11111111, b'A' * 8 ) + b'\x00\x00\x00\x00',	# a whole frame, then 4 stray octets
    register_reply( 0x22222222, b'B' * 8 ),				# exact
]


def respond():
    for reply in replies:
        request,peer		= responder.recvfrom( 4096 )
        responder.sendto( reply, peer )


thread				= threading.Thread( target=respond )
thread.daemon			= True
thread.start()

handles				= []
connection			= client.client( host='127.0.0.1', port=port, udp=True )
try:
    with connection:
        for number in range( 2 ):
            connection.register()
            response		= None
            begun		= time.time()
            while response is None and time.time() - begun < 5:
                try:
                    response	= next( connection )
                except Exception as exc:
                    response	= exc
                    break
                if response is None:
                    time.sleep( .05 )
            if isinstance( response, Exception ) or response is None:
                handles.append( response )
                break
            handles.append( response.enip.session_handle )
except Exception as exc:
    handles.append( exc )

expected			= [ 0x11111111, 0x22222222 ]
print( "session handles obtained for the two requests: %r" % ( [ hex( h ) if isinstance( h, int ) else h for h in handles ], ))
print( "expected:                                       %r" % ( [ hex( h ) for h in expected ], ))
if handles != expected and handles[:1] == expected[:1]:
    # The first datagram was accepted (its frame is whole); the second, exact, one must be too
    print( "OBSERVED: the octets behind the first datagram's frame were kept and parsed as the start of the second response" )
    sys.exit( 1 )
if handles != expected:
    # The first datagram refused: acceptable, as long as the second exchange is unaffected -- not reached here
    print( "OBSERVED: unexpected outcome" )
    sys.exit( 1 )
print( "OK" )
sys.exit( 0 )
