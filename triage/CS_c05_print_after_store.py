#!/usr/bin/env python
"""C05 contradiction 1 (unchanged code): with --print, a Write Tag is stored and THEN refused.

main.py's Attribute_print.__setitem__ stores the values first and prints the summary line second.
If the print fails, the exception travels up into Logix.request *after* the tag was changed, and the
client is answered 0xFF / 0x2105: a refused request with a side effect.  The print fails eg. when
sys.stdout cannot encode a written STRING (stdout is ASCII: PYTHONIOENCODING=ascii, LANG=C on
Pythons without UTF-8 mode, ...), or when stdout is a pipe whose reader has gone away
( ... --print | head ).

This program runs the simulator as `python -m cpppo.server.enip --print S=STRING[3] I=INT[3]` with an
ASCII stdout, writes three strings (one holding an e-acute, a legal ISO-8859-1 STRING symbol) with
one Write Tag, and reads the tag back.

Expected: the write is acknowledged (0x00) and the tag holds the strings -- or it is refused and the
tag still holds its three empty strings.  Observed: refused with 0xFF / 0x2105, and the tag changed.
"""
from __future__ import print_function

import os
import re
import subprocess
import sys

from cpppo.server.enip import client


def main():
    env				= dict( os.environ, PYTHONIOENCODING='ascii' )
    server			= subprocess.Popen(
        [ sys.executable, '-m', 'cpppo.server.enip', '--print', '--no-udp', '-a', 'localhost:0', '-A',
          'S=STRING[3]', 'I=INT[3]' ],
        env=env, stdout=subprocess.PIPE, stderr=subprocess.STDOUT )
    try:
        line			= server.stdout.readline().decode( 'ascii', 'replace' )
        m			= re.search( r"address = \('([^']+)', (\d+)\)", line )
        assert m, "Simulator didn't start: %r" % line
        host,port		= m.group( 1 ),int( m.group( 2 ))

        written			= [ u'abc', u'd\xe9f', u'ghi' ]
        results			= []
        with client.connector( host=host, port=port, timeout=10 ) as conn:
            operations		= client.parse_operations( [
                u'S[0-2]=(STRING)"%s","%s","%s"' % tuple( written ),
                u'S[0-2]',
                u'I[0-2]',	# the session is still alive, other tags are untouched
            ] )
            for idx,dsc,op,rpy,sts,val in conn.pipeline( operations=operations, depth=1, timeout=10 ):
                print( "%-30s status %-14r value %r" % ( dsc, sts, val ))
                results.append( (sts,val) )
    finally:
        server.terminate()
        server.wait()

    (wr_sts,_),(rd_sts,rd_val),(_,_) = results
    before			= [ u'', u'', u'' ]
    if wr_sts in (0, None):
        ok			= rd_val == written
        verdict			= "write acknowledged; tag holds %r (expected %r)" % ( rd_val, written )
    else:
        ok			= rd_val == before
        verdict			= "write REFUSED with status %r, yet the tag now holds %r (expected it unchanged: %r)" % (
            wr_sts, rd_val, before )
    print( ( "OK: " if ok else "CONTRADICTION: " ) + verdict )
    return 0 if ok else 1


if __name__ == "__main__":
    sys.exit( main() )
