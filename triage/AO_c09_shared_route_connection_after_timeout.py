"""Defect AO (C09): a gateway UCMM shares ONE route connection among all sessions.  When a forwarded request times out, the handler only drops
the dict entry ( `del self.route_conn[target]  # will close()` ) - a session already blocked on that connection's lock still holds it, sends its
own request on the same socket, and reads the response that was still in flight: session B is answered with the reply to session A's request.
( adapted from the script of the round-5 C09 sub-agent )   exit 1 while B receives A's data, 0 when B gets its own data or an error."""
from __future__ import print_function

import logging
import sys
import threading
import time

import cpppo
from cpppo.dotdict import dotdict
from cpppo.server import network
from cpppo.server.enip import client, device, logix, parser, ucmm
from cpppo.server.enip.main import enip_srv

logging.basicConfig( level=int(__import__("os").environ.get("LOGLVL", logging.ERROR)) )

GATEWAY				= ('127.0.0.1', 44901)
REMOTE				= ('127.0.0.1', 44902)

TAGS				= {
    'TagW':	[ 7001, 7002, 7003, 7004 ],
    'TagA':	[ 1001, 1002, 1003, 1004 ],
    'TagB':	[ 2001, 2002, 2003, 2004 ],
}

class UCMM_routing( ucmm.UCMM ):
    route			= {
        "1/1": "%s:%d" % REMOTE,
    }

tags				= dotdict()
for name,vals in TAGS.items():
    dict.__setitem__( tags, name, dotdict(
        attribute	= device.Attribute( name, parser.DINT, default=list( vals )),
        error		= 0,
        path		= None ))

remote_delay			= dotdict( value=0.0 )

def server( address, delay ):
    control			= dotdict( done=False, disable=False, latency=.05, timeout=.5 )
    kwargs			= dict(
        enip_process	= logix.process,
        UCMM_class	= UCMM_routing,
        tags		= tags,
        delay		= delay,
        server		= dotdict( control=control ),
    )
    thr				= threading.Thread(
        target=network.server_main,
        kwargs=dict( address=address, target=enip_srv, kwargs=kwargs, udp=False ))
    thr.daemon			= True
    thr.start()
    return control

controls			= [ server( GATEWAY, None ), server( REMOTE, remote_delay ) ]


def routed_read( tag, elements, timeout, **kwds ):
    """Open a fresh session to the gateway, read tag[0-elements) via route 1/1 (then 1/0, the remote's CPU).  Returns the reply's
    (enip status, CIP status, data)."""
    conn			= None
    for _ in range( 50 ):
        try:
            conn		= client.connector( host=GATEWAY[0], port=GATEWAY[1], timeout=2.0 )
            break
        except Exception:
            time.sleep( .1 )
    assert conn is not None, "Couldn't connect to gateway"
    try:
        with conn:
            conn.read( "%s[0-%d]" % ( tag, elements-1 ), route_path=[{'port': 1, 'link': 1}, {'port': 1, 'link': 0}],
                       send_path='@6/1', timeout=timeout, **kwds )
            rsp,ela		= client.await_response( conn, timeout=timeout )
        if not rsp:
            return None,None,None
        enip_status		= rsp.enip.status
        req			= rsp.get( 'enip.CIP.send_data.CPF.item[1].unconnected_send.request' )
        if not req:
            return enip_status,None,None
        return enip_status,req.get( 'status' ),req.get( 'read_frag.data' )
    finally:
        conn.close()


import threading
results = {}
def run(name, tag, **kw):
    results[name] = routed_read(tag, 4, **kw)
try:
    res = routed_read('TagW', 4, timeout=5.0)
    print("W:", res)
    remote_delay.value = 1.0
    ta = threading.Thread(target=run, args=('A','TagA'), kwargs=dict(timeout=3.0, priority_time_tick=5, timeout_ticks=10))
    tb = threading.Thread(target=run, args=('B','TagB'), kwargs=dict(timeout=8.0))
    ta.start(); time.sleep(.1); tb.start()
    ta.join(); tb.join()
    print("A (320ms timeout):", results['A'])
    print("B (8s timeout)   :", results['B'], "expected", TAGS['TagB'], "or an error")
    wrong = results['B'][2] is not None and list( results['B'][2] ) != TAGS['TagB']
finally:
    for c in controls: c['done'] = True
print( "B received another session's reply: %s" % wrong )
sys.exit( 1 if wrong else 0 )
