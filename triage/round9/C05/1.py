#!/usr/bin/env python
"""
C05 defect 1: after ACCEPTED writes, a plain read of the same tag is refused and ends the session.

A STRING[8] tag; each element is written (Write Tag, one STRING of 9500 characters; every write is
acknowledged with status 0x00).  Then the tag is read: Read Tag Fragmented S[0], 8 elements.

Logix.request/reply_elements size a reply by the parser's .struct_calcsize, which for STRING/SSTRING is an
"average" of 80 octets: 488 // 80 --> 7 elements per reply, whatever their real size.  7 x 9504 octets
exceed the 65535 octets an EtherNet/IP frame can carry, so the UCMM answers with EtherNet/IP status 0x08
and no CIP reply, and enip_srv_tcp then ends the session.  Every session that reads the tag this way is
ended; the only way to get at the data is to know (how?) that it must be asked for in smaller pieces.

Expected: the reply carries as many elements as fit (status 0x06, like any other partial Read Tag
Fragmented reply; at least one), and the session goes on.

Runs a simulator in-process on localhost:44818.  Exits 1 (observed vs. expected) while the contradiction
is present, 0 otherwise.
"""
from __future__ import print_function

import logging
import socket
import sys
import threading
import time

import cpppo
from cpppo.server import enip
from cpppo.server.enip import client, parser
from cpppo.server.enip.main import main as enip_main

logging.disable( logging.CRITICAL )

PORT				= 44818

def main():
    control			= cpppo.apidict( enip.timeout, { 'done': False } )
    server			= threading.Thread( target=enip_main, kwargs={
        'argv':		[ '--address', 'localhost:%d' % PORT, 'S=STRING[8]' ],
        'server':	{ 'control': control },
    })
    server.daemon		= True
    server.start()
    for _ in range( 100 ):
        try:
            socket.create_connection( ('localhost', PORT), timeout=1 ).close()
            break
        except Exception:
            time.sleep( .1 )

    observed			= []
    try:
        with client.connector( host='localhost', port=PORT, timeout=10 ) as conn:
            def reply():
                rsp,ela		= client.await_response( conn, timeout=10 )
                if not rsp or 'enip' not in rsp:
                    return None,None		# nothing (more) arrives: the server has ended the session
                req		= rsp.get( 'enip.CIP.send_data.CPF.item[1].unconnected_send.request' )
                return rsp.enip.status,req

            text		= 'x' * 9500
            for i in range( 8 ):
                conn.write( 'S[%d]' % i, data=[ text ], elements=1, offset=None,
                            tag_type=parser.STRING.tag_type )
                sts,req		= reply()
                assert sts == 0 and req is not None and req.status == 0, \
                    "Write Tag S[%d] not acknowledged: %r, %r" % ( i, sts, req )

            conn.read( 'S[0]', elements=8, offset=0 )
            sts,req		= reply()
            if sts != 0 or req is None or req.get( 'status' ) not in ( 0x00, 0x06 ):
                observed.append( "Read Tag Fragmented S[0-7] after 8 acknowledged writes: EtherNet/IP status %r, CIP reply %r" % (
                    sts, None if req is None else req.get( 'status' )))
            elif not req.get( 'read_frag.data' ) or req.read_frag.data[0] != text:
                observed.append( "Read Tag Fragmented S[0-7] returned %r..." % ( repr( req.get( 'read_frag.data' ))[:60] ))

            # and the session should still be there
            try:
                conn.read( 'S[0]', elements=1, offset=0 )
                sts,req		= reply()
                if sts != 0 or req is None or req.get( 'status' ) != 0x00:
                    observed.append( "then Read Tag Fragmented S[0] on the same session: %s" % (
                        "no response; the server has ended the session" if sts is None
                        else "EtherNet/IP status %r, CIP reply %r" % ( sts, None if req is None else req.get( 'status' ))))
            except Exception as exc:
                observed.append( "then Read Tag Fragmented S[0] on the same session: %s: %s (session ended by the server)" % (
                    exc.__class__.__name__, exc ))
    finally:
        control.done		= True
        server.join( 10 )

    if observed:
        print( "OBSERVED:" )
        for o in observed:
            print( "  " + o )
        print( "EXPECTED: a reply with status 0x00/0x06 carrying the leading element(s) that fit, and the session continues" )
        return 1
    print( "OK: the tag written is readable" )
    return 0

if __name__ == "__main__":
    sys.exit( main() )
