#!/usr/bin/env python
"""
C05 defect 5 (an incomplete repair: see 7afdbbd "an error reply to Read Tag Fragmented (0x52) always
carries an extended status word"): the failure indication of a Read Tag Fragmented on a tag with a
configured error code below 0x10 is the 4 octets D2 00 <status> 00.

That repair supplies the extended status word where a request is answered on behalf of an Object that
failed ( Connection_Manager.request, Message_Router.request ); Logix.request itself still answers a tag
whose Attribute carries an error code ( Attribute( ..., error=0x08 ), tags.<name>.error ) with the bare
status: it pops status_ext after serving the request, and then only replaces .status.  As logix.py's own
comment and parser.unconnected_send.is_uerr say, exactly these 4 octets with a status < 0x10 ARE a failed
Unconnected Send: the client does not see "Read Tag Fragmented failed with status 0x08" for the tag, it
sees the transport fail (and cpppo's own client raises instead of reporting the failed read).

Expected: like every other failing reply to service 0x52, D2 00 <status> 01 <extended status word>.

In-process.  Exits 1 (observed vs. expected) while the contradiction is present, 0 otherwise.
"""
from __future__ import print_function

import logging
import sys

import cpppo
from cpppo.server import enip
from cpppo.server.enip import logix, device, parser

logging.disable( logging.CRITICAL )

def main():
    enip.lookup_reset()
    Obj				= logix.Logix( instance_id=1 )
    att = Obj.attribute['1']	= device.Attribute( 'VALVE', parser.INT, default=[ 1, 2, 3, 4 ], error=0x08 )
    device.redirect_tag( 'VALVE', { 'class': Obj.class_id, 'instance': Obj.instance_id, 'attribute': 1 })

    request			= cpppo.dotdict( {
        'path':		{ 'segment': [ {'symbolic': 'VALVE'} ] },
        'read_frag':	{ 'elements': 4, 'offset': 0 },
    })
    source			= cpppo.peekable( Obj.produce( request ))
    data			= cpppo.dotdict()
    with Obj.parser as machine:
        for m,s in machine.run( source=source, data=data ):
            pass
    Obj.request( data )
    reply			= bytes( data.input )

    # What does whoever receives these octets in the Unconnected Data item take them for?
    # ( the parser looks at the .length of the CPF item that carries the octets )
    seen			= cpppo.dotdict( item={ 'length': len( reply ) } )
    with parser.unconnected_send() as machine:
        for m,s in machine.run( source=cpppo.peekable( reply ), data=seen, path='item' ):
            pass
    seen			= seen.item.unconnected_send
    if 'request' not in seen:
        print( "OBSERVED: Read Tag Fragmented on VALVE (error code 0x08) is answered %r;" % ( reply, ))
        print( "          the Unconnected Data item parser takes that for a failed Unconnected Send: %r" % ( dict( seen ), ))
        print( "EXPECTED: D2 00 08 01 <extended status word>, recognized as a reply to the request carried" )
        return 1
    print( "OK: %r is seen as the reply to the request carried" % ( reply, ))
    return 0

if __name__ == "__main__":
    sys.exit( main() )
