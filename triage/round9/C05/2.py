#!/usr/bin/env python
"""
C05 defect 2: a Write Tag that is answered with a failure status has nevertheless been carried out.

An Attribute may be given an error code ("If an error code is supplied, requests on the Attribute should
fail with that code"; also tags.<name>.error through the simulator's API).  Logix.request tests
attribute.error only AFTER it has served the request: for a Write Tag [Fragmented] the slice assignment
has already happened when the status is replaced and the failure is raised.  The client is told the
write failed (eg. status 0x0c), but the tag holds the new values - and so does every later reader once
the error code is cleared again.

Expected: a request answered with a failure status leaves the tag exactly as it was.

( Caveat: README "api/tags/<tagname>/error" words the feature as "force all successful accesses to a
certain tag to return a certain error code", which can be read as describing exactly this order; it says
nothing about a failed write having been stored, and Attribute's own docstring says "requests on the
Attribute should fail with that code".  Repair: test attribute.error ahead of the slice assignment. )

In-process.  Exits 1 (observed vs. expected) while the contradiction is present, 0 otherwise.
"""
from __future__ import print_function

import logging
import sys

import cpppo
from cpppo.server import enip
from cpppo.server.enip import logix, device, parser

logging.disable( logging.CRITICAL )

def transact( Obj, request ):
    encoded			= Obj.produce( cpppo.dotdict( request ))
    source			= cpppo.peekable( encoded )
    data			= cpppo.dotdict()
    with Obj.parser as machine:
        for m,s in machine.run( source=source, data=data ):
            pass
    Obj.request( data )
    reply			= cpppo.dotdict()
    source			= cpppo.peekable( bytes( data.input ))
    with Obj.parser as machine:
        for m,s in machine.run( source=source, data=reply ):
            pass
    return reply

def main():
    enip.lookup_reset()
    Obj				= logix.Logix( instance_id=1 )
    att = Obj.attribute['1']	= device.Attribute( 'VALVE', parser.INT, default=[ 1, 2, 3, 4 ], error=0x0c )
    device.redirect_tag( 'VALVE', { 'class': Obj.class_id, 'instance': Obj.instance_id, 'attribute': 1 })

    observed			= []
    for ctx,extra in (( 'write_tag', {} ), ( 'write_frag', { 'offset': 0 } )):
        before			= list( att.value )
        request			= { 'path': { 'segment': [ {'symbolic': 'VALVE'}, {'element': 1} ] },
                                    ctx:    dict( type=parser.INT.tag_type, elements=2, data=[ 77, 88 ], **extra ) }
        reply			= transact( Obj, request )
        after			= list( att.value )
        if reply.status == 0x00:
            observed.append( "%s to VALVE (error code 0x0c) answered with status 0x00" % ( ctx ))
        elif after != before:
            observed.append( "%s VALVE[1-2] = [77, 88] answered with failure status 0x%02x, but VALVE: %r --> %r" % (
                ctx, reply.status, before, after ))
        att[:]			= before

    if observed:
        print( "OBSERVED:" )
        for o in observed:
            print( "  " + o )
        print( "EXPECTED: a write answered with a failure status leaves the tag as it was: [1, 2, 3, 4]" )
        return 1
    print( "OK: the failed writes changed nothing" )
    return 0

if __name__ == "__main__":
    sys.exit( main() )
