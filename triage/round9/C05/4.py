#!/usr/bin/env python
"""
C05 defect 4: with --print, a Write Tag is refused (0xFF / 0x2105) although it has been carried out,
whenever the line reporting it cannot be printed.

main.Attribute_print.__setitem__ stores the data first and prints "<tag>[beg-end] <= ..." afterwards.  If
that print() raises - the consumer of the simulator's output has gone ("enip_server --print ... | head",
a closed terminal: EPIPE), or stdout cannot encode a STRING that was written (PYTHONIOENCODING=ascii, a
C locale on older Pythons) - the exception reaches Logix.request's handler with the status still pre-set
to 0xFF / 0x2105: the client is told its elements are "beyond the end of the tag", yet the tag has
changed, for every session.  ( Attribute_print.__getitem__ has the twin problem when -v is given: the tag
can no longer be read. )

Here stdout is a pipe whose reader has gone away, as after "| head -1".

Expected: either the write is acknowledged (it was done), or it is refused and the tag is left as it was.

Runs a simulator in-process on localhost:44818.  Exits 1 (observed vs. expected) while the contradiction
is present, 0 otherwise.
"""
from __future__ import print_function

import logging
import os
import socket
import sys
import threading
import time

import cpppo
from cpppo.server import enip
from cpppo.server.enip import client, parser, device
from cpppo.server.enip.main import main as enip_main

logging.disable( logging.CRITICAL )

PORT				= 44818

def main():
    report			= sys.stdout
    control			= cpppo.apidict( enip.timeout, { 'done': False } )
    server			= threading.Thread( target=enip_main, kwargs={
        'argv':		[ '--address', 'localhost:%d' % PORT, '--print', 'LEVEL=INT[4]' ],
        'server':	{ 'control': control },
    })
    server.daemon		= True
    server.start()
    for _ in range( 100 ):
        try:
            socket.create_connection( ('localhost', PORT), timeout=1 ).close()
            break
        except Exception:
            time.sleep( .1 )

    observed			= []
    try:
        with client.connector( host='localhost', port=PORT, timeout=10 ) as conn:
            def reply():
                rsp,ela		= client.await_response( conn, timeout=10 )
                if not rsp or 'enip' not in rsp:
                    return None
                return rsp.get( 'enip.CIP.send_data.CPF.item[1].unconnected_send.request' )

            def level():
                att		= device.lookup( *device.resolve_tag( 'LEVEL' ))
                return list( device.Attribute.__getitem__( att, slice( 0, 4 )))

            # While the output is being consumed, all is well
            conn.write( 'LEVEL[0]', data=[ 1, 2, 3, 4 ], elements=4, offset=None, tag_type=parser.INT.tag_type )
            req			= reply()
            assert req is not None and req.status == 0x00 and level() == [ 1, 2, 3, 4 ], \
                "Write Tag LEVEL[0-3] failed: %r; %r" % ( req, level() )

            # The consumer of our output goes away (eg. "... --print | head -1")
            rfd,wfd		= os.pipe()
            os.close( rfd )
            sys.stdout		= os.fdopen( wfd, 'w', 1 )
            try:
                before		= level()
                conn.write( 'LEVEL[1]', data=[ 77, 88 ], elements=2, offset=None, tag_type=parser.INT.tag_type )
                req		= reply()
                after		= level()
            finally:
                broken,sys.stdout= sys.stdout,report
                try:
                    broken.close()
                except Exception:
                    pass
            if req is None:
                observed.append( "Write Tag LEVEL[1-2] = [77, 88]: no reply" )
            elif req.status != 0x00 and after != before:
                observed.append( "Write Tag LEVEL[1-2] = [77, 88] answered status 0x%02x, extended %r; but LEVEL: %r --> %r" % (
                    req.status, req.get( 'status_ext.data' ), before, after ))
    finally:
        sys.stdout		= report
        control.done		= True
        server.join( 10 )

    if observed:
        print( "OBSERVED:" )
        for o in observed:
            print( "  " + o )
        print( "EXPECTED: status 0x00 with LEVEL == [1, 77, 88, 4], or a failure status with LEVEL == [1, 2, 3, 4]" )
        return 1
    print( "OK: reply and tag contents agree" )
    return 0

if __name__ == "__main__":
    sys.exit( main() )
