#!/usr/bin/env python
"""
C05 defect 3: under "python -O" (or PYTHONOPTIMIZE=1) the simulator accepts writes of data types a tag
cannot hold, and the tag is unreadable from then on.

Every check that Logix.request / reply_elements make on a request - the allowed_tag_types test (0x2107),
"capacity exceeded", "Write Tag of N elements carries M", "offset begins within an element" ... - is an
assert statement; the "assertion ==> error reply" discipline silently disappears when Python is run with
optimization, a perfectly legal way to run a server (nothing in cpppo refuses or mentions it).

This program runs itself again with "-O": a Write Tag carrying one REAL (1.5) to an INT[3] tag.

  expected: status 0xFF, extended status 0x2107, the tag unchanged - and readable
  observed: status 0x00; the tag holds [1.5, 2, 3]; every later Read Tag of it raises struct.error out of
            Logix.request (typed_data.produce is not inside its try), for every session, until restart

In-process.  Exits 1 (observed vs. expected) while the contradiction is present, 0 otherwise.
"""
from __future__ import print_function

import logging
import subprocess
import sys

def child():
    import cpppo
    from cpppo.server import enip
    from cpppo.server.enip import logix, device, parser
    logging.disable( logging.CRITICAL )

    def transact( Obj, request ):
        encoded			= Obj.produce( cpppo.dotdict( request ))
        source			= cpppo.peekable( encoded )
        data			= cpppo.dotdict()
        with Obj.parser as machine:
            for m,s in machine.run( source=source, data=data ):
                pass
        Obj.request( data )
        reply			= cpppo.dotdict()
        source			= cpppo.peekable( bytes( data.input ))
        with Obj.parser as machine:
            for m,s in machine.run( source=source, data=reply ):
                pass
        return reply

    enip.lookup_reset()
    Obj				= logix.Logix( instance_id=1 )
    att = Obj.attribute['1']	= device.Attribute( 'LEVEL', parser.INT, default=[ 1, 2, 3 ] )
    device.redirect_tag( 'LEVEL', { 'class': Obj.class_id, 'instance': Obj.instance_id, 'attribute': 1 })

    observed			= []
    reply			= transact( Obj, {
        'path':		{ 'segment': [ {'symbolic': 'LEVEL'} ] },
        'write_tag':	{ 'type': parser.REAL.tag_type, 'elements': 1, 'data': [ 1.5 ] },
    })
    if not ( reply.status == 0xFF and reply.get( 'status_ext.data' ) == [ 0x2107 ] ):
        observed.append( "Write Tag of a REAL to LEVEL (INT[3]) answered status 0x%02x, extended %r" % (
            reply.status, reply.get( 'status_ext.data' )))
    if att.value != [ 1, 2, 3 ]:
        observed.append( "LEVEL: [1, 2, 3] --> %r" % ( att.value, ))
    try:
        reply			= transact( Obj, {
            'path':		{ 'segment': [ {'symbolic': 'LEVEL'} ] },
            'read_tag':		{ 'elements': 3 },
        })
        if reply.status != 0x00 or reply.read_tag.data != [ 1, 2, 3 ]:
            observed.append( "Read Tag LEVEL afterwards: status 0x%02x, data %r" % (
                reply.status, reply.get( 'read_tag.data' )))
    except Exception as exc:
        observed.append( "Read Tag LEVEL afterwards raised %s: %s" % ( exc.__class__.__name__, exc ))

    if observed:
        print( "OBSERVED (python%s):" % ( " -O" if not __debug__ else "" ))
        for o in observed:
            print( "  " + o )
        print( "EXPECTED: status 0xFF, extended status [0x2107]; LEVEL stays [1, 2, 3] and is readable" )
        return 1
    print( "OK (python%s): the REAL was refused with 0xFF/0x2107, LEVEL is unchanged and readable" % (
        " -O" if not __debug__ else "" ))
    return 0

if __name__ == "__main__":
    if '--child' in sys.argv:
        sys.exit( child() )
    plain			= subprocess.call( [ sys.executable,       __file__, '--child' ] )
    optim			= subprocess.call( [ sys.executable, '-O', __file__, '--child' ] )
    sys.exit( 1 if ( plain or optim ) else 0 )
