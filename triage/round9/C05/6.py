#!/usr/bin/env python
"""
C05 defect 6 (beside the property, found while reading the forced-error path): an error code configured
for a tag can be set, and changed, but never cleared again.

README: "To force all successful accesses to a certain tag (eg. SCADA) to return a certain error code ...
api/tags/SCADA/error=8.  Restore it to return success: api/tags/SCADA/error/0".  The API stores the value
in tags.<name>.error; logix.setup (run for every request) hands each tag to setup_tag, which copies a
non-zero val.error onto the Attribute - and does nothing about the Attribute's error code when val.error
is 0 again.  Every request for the tag keeps failing with the old code (and, see defect 2, every "failed"
write keeps changing the tag) until the simulator is restarted.

Expected: after tags.<name>.error = 0 requests for the tag are answered with success again.

In-process.  Exits 1 (observed vs. expected) while the contradiction is present, 0 otherwise.
"""
from __future__ import print_function

import logging
import sys

import cpppo
from cpppo.server import enip
from cpppo.server.enip import logix, device, parser

logging.disable( logging.CRITICAL )

def read_status( Obj ):
    request			= cpppo.dotdict( {
        'path':		{ 'segment': [ {'symbolic': 'SCADA'} ] },
        'read_tag':	{ 'elements': 3 },
    })
    source			= cpppo.peekable( Obj.produce( request ))
    data			= cpppo.dotdict()
    with Obj.parser as machine:
        for m,s in machine.run( source=source, data=data ):
            pass
    Obj.request( data )
    return data.status

def main():
    enip.lookup_reset()
    logix.setup_reset()
    tags			= cpppo.dotdict()
    entry			= cpppo.dotdict()
    entry.attribute		= device.Attribute( 'SCADA', parser.INT, default=[ 1, 2, 3 ] )
    entry.path			= None
    entry.error			= 0x00
    dict.__setitem__( tags, 'SCADA', entry )		# as main() does

    statuses			= []
    for error in ( 0x00, 0x08, 0x00 ):
        entry.error		= error				# as api/tags/SCADA/error=<error> does
        logix.setup( tags=tags )			# as logix.process does, for every request
        statuses.append( read_status( device.lookup( 0x02, 1 )))
    enip.lookup_reset()
    logix.setup_reset()

    if statuses != [ 0x00, 0x08, 0x00 ]:
        print( "OBSERVED: Read Tag SCADA with tags.SCADA.error = 0, 8, 0 is answered with status %s" % (
            ', '.join( "0x%02x" % s for s in statuses )))
        print( "EXPECTED: 0x00, 0x08, 0x00" )
        return 1
    print( "OK: the error code is cleared again" )
    return 0

if __name__ == "__main__":
    sys.exit( main() )
