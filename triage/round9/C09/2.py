#!/usr/bin/env python
"""
C09 defect 2 ( unchanged code ): a Write Tag that is answered with an error status has nevertheless
taken effect.

A tag can be given an error code at run time ( main.tags[<name>].error, also reachable through the
web API; logix.setup() copies it to the Attribute before every request ): "requests on the Attribute
should fail with that code".  Logix.request however evaluates attribute.error only AFTER it has
executed `attribute[beg:end] = data` - the request is answered with the error status, but the data
is stored.  Another session that reads the same Attribute through a service that does not consult
the error code ( Get Attribute Single ) sees data that, according to all replies, was never written:
no sequential order of the requests explains it.

  session W:  Write Tag T[0-3] = 1,1,1,1          --> status 0x00
              ( T.error := 0x10 )
  session W:  Write Tag T[0-3] = 2,2,2,2          --> status 0x10 ( refused )
  session R:  Get Attribute Single @0x99/1/1      --> expected 1,1,1,1
"""
from __future__ import print_function
import socket, struct, sys, threading, time

import cpppo
from cpppo.server.enip import main as enip_main_module
from cpppo.server.enip.main import main as enip_main

PORT = 44818

def enip_frame( command, session, payload, context=b'\0'*8 ):
    return struct.pack( '<HHII8sI', command, len( payload ), session, 0, context, 0 ) + payload

def unconnected_send( req ):
    body = b'\x52\x02\x20\x06\x24\x01' + b'\x05\x9d' + struct.pack( '<H', len( req )) + req + ( b'\0' if len( req ) % 2 else b'' )
    return body + b'\x01\x00\x01\x00'

def send_rr_data( cip ):
    return struct.pack( '<IHH', 0, 5, 2 ) + struct.pack( '<HH', 0, 0 ) + struct.pack( '<HH', 0xb2, len( cip )) + cip

class Session( object ):
    def __init__( self ):
        self.s = socket.create_connection( ('127.0.0.1', PORT), timeout=10 )
        self.s.sendall( enip_frame( 0x65, 0, struct.pack( '<HH', 1, 0 )))
        cmd,sess,sts,pay = self.recv_frame()
        assert cmd == 0x65 and sts == 0
        self.session = sess
    def recv_exact( self, n ):
        buf = b''
        while len( buf ) < n:
            d = self.s.recv( n - len( buf ))
            assert d, "connection closed by simulator"
            buf += d
        return buf
    def recv_frame( self ):
        cmd,ln,sess,sts,ctx,opt = struct.unpack( '<HHII8sI', self.recv_exact( 24 ))
        return cmd,sess,sts,self.recv_exact( ln )
    def request( self, req ):
        self.s.sendall( enip_frame( 0x6f, self.session, send_rr_data( unconnected_send( req ))))
        cmd,sess,sts,pay = self.recv_frame()
        assert cmd == 0x6f and sts == 0, "EtherNet/IP command 0x%x status 0x%x" % ( cmd, sts )
        l1, = struct.unpack( '<H', pay[14:16] )
        return bytearray( pay[16:16+l1] )

def write_tag( vals ):
    return b'\x4d\x03\x91\x01T\x00\x28\x00' + struct.pack( '<HH', 0x00c4, len( vals )) + struct.pack( '<%di' % len( vals ), *vals )

def main():
    ctl = cpppo.dotdict( control=cpppo.dotdict() )
    srv = threading.Thread( target=enip_main, kwargs=dict(
        argv=[ '-a', '127.0.0.1:%d' % PORT, '--no-udp', 'T@0x99/1/1=DINT[4]' ], server=ctl ))
    srv.daemon = True
    srv.start()
    for _ in range( 200 ):
        try:
            socket.create_connection( ('127.0.0.1', PORT), timeout=1 ).close()
            break
        except Exception:
            time.sleep( .05 )
    w = Session()
    r = Session()
    rpy = w.request( write_tag( [1,1,1,1] ))
    print( "W: Write Tag T = 1,1,1,1: service 0x%02x status 0x%02x" % ( rpy[0], rpy[2] ))
    assert rpy[0] == 0xcd and rpy[2] == 0
    dict.__getitem__( enip_main_module.tags, 'T' )['error'] = 0x10
    rpy = w.request( write_tag( [2,2,2,2] ))
    print( "W: Write Tag T = 2,2,2,2: service 0x%02x status 0x%02x ( error code 0x10 configured )" % ( rpy[0], rpy[2] ))
    assert rpy[0] == 0xcd and rpy[2] == 0x10, "expected the write to be refused with the configured status 0x10"
    rpy = r.request( b'\x0e\x03\x20\x99\x24\x01\x30\x01' )
    ctl.control.done = True
    assert rpy[0] == 0x8e and rpy[2] == 0, "Get Attribute Single failed: %r" % ( bytes( rpy ), )
    vals = list( struct.unpack( '<4i', bytes( rpy[4:20] )))
    print( "R: Get Attribute Single @0x99/1/1: %r" % ( vals, ))
    if vals != [1,1,1,1]:
        print( "DEFECT: the Write Tag of 2,2,2,2 was answered with error status 0x10, but session R reads %r; "
               "expected [1, 1, 1, 1] ( the last write that was answered with success )" % ( vals, ))
        return 1
    print( "OK: the refused write left the tag untouched" )
    return 0

if __name__ == "__main__":
    sys.exit( main() )
