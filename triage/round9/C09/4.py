#!/usr/bin/env python
"""
C09 defect 4 ( unchanged code ): one client too many ends the simulator for every session.

network.server_main treats ANY exception of its accept loop as fatal ( `control['done'] = True` ):
when accept() fails because the process is out of file descriptors ( EMFILE - each session costs
one ), or a service thread cannot be started, the server does not just turn that one client away: it
signals all its service threads to finish, closes the listening socket and returns.  Sessions that
were being served perfectly well are dropped in the middle of their work.

The simulator runs in a sub-process limited to 40 file descriptors.  Session 1 is opened and used;
then further clients connect until the descriptors run out.  Expected: session 1 keeps being served
( the surplus clients are refused or have to wait ); observed: session 1 is closed by the simulator.
"""
from __future__ import print_function
import os, socket, struct, subprocess, sys, time

PORT = 44818

SERVER = r'''
import resource, sys
resource.setrlimit( resource.RLIMIT_NOFILE, (40, 40) )
from cpppo.server.enip.main import main
sys.exit( main( argv=[ '-a', '127.0.0.1:%d', '--no-udp', 'T=DINT[4]' ] ))
''' % PORT

def enip_frame( command, session, payload, context=b'\0'*8 ):
    return struct.pack( '<HHII8sI', command, len( payload ), session, 0, context, 0 ) + payload

def recv_exact( s, n ):
    buf = b''
    while len( buf ) < n:
        d = s.recv( n - len( buf ))
        if not d:
            raise EOFError( "connection closed by the simulator" )
        buf += d
    return buf

def recv_frame( s ):
    cmd,ln,sess,sts,ctx,opt = struct.unpack( '<HHII8sI', recv_exact( s, 24 ))
    return cmd,sess,sts,recv_exact( s, ln )

def read_T( s, sess ):
    req = b'\x4c\x03\x91\x01T\x00\x28\x00\x04\x00'
    us = b'\x52\x02\x20\x06\x24\x01\x05\x9d' + struct.pack( '<H', len( req )) + req + b'\x01\x00\x01\x00'
    cip = struct.pack( '<IHH', 0, 5, 2 ) + struct.pack( '<HH', 0, 0 ) + struct.pack( '<HH', 0xb2, len( us )) + us
    s.sendall( enip_frame( 0x6f, sess, cip ))
    cmd,sess,sts,pay = recv_frame( s )
    assert cmd == 0x6f and sts == 0, "command 0x%x status 0x%x" % ( cmd, sts )
    l1, = struct.unpack( '<H', pay[14:16] )
    rpy = bytearray( pay[16:16+l1] )
    assert rpy[0] == 0xcc and rpy[2] == 0, "Read Tag failed: %r" % ( bytes( rpy ), )
    return list( struct.unpack( '<4i', bytes( rpy[6:22] )))

def main():
    srv = subprocess.Popen( [ sys.executable, '-c', SERVER ], stdout=subprocess.PIPE, stderr=subprocess.STDOUT )
    try:
        for _ in range( 200 ):
            try:
                socket.create_connection( ('127.0.0.1', PORT), timeout=1 ).close()
                break
            except Exception:
                time.sleep( .1 )
        s1 = socket.create_connection( ('127.0.0.1', PORT), timeout=10 )
        s1.sendall( enip_frame( 0x65, 0, struct.pack( '<HH', 1, 0 )))
        cmd,sess,sts,pay = recv_frame( s1 )
        assert cmd == 0x65 and sts == 0
        print( "session 1 reads T: %r" % ( read_T( s1, sess ), ))

        others = []
        for n in range( 60 ):
            try:
                c = socket.create_connection( ('127.0.0.1', PORT), timeout=2 )
                c.sendall( enip_frame( 0x65, 0, struct.pack( '<HH', 1, 0 )))
                others.append( c )
            except Exception as exc:
                print( "client %d could not connect: %s" % ( n + 2, exc ))
                break
            time.sleep( .02 )
        print( "%d more clients connected" % len( others ))
        time.sleep( 1.5 )
        try:
            vals = read_T( s1, sess )
            print( "session 1 reads T again: %r" % ( vals, ))
            print( "OK: session 1 is still served" )
            return 0
        except Exception as exc:
            print( "DEFECT: session 1, which was being served, got %s: %s when it read T again after %d more clients "
                   "had connected; expected it to be served as before ( simulator running: %s )" % (
                       type( exc ).__name__, exc, len( others ), srv.poll() is None ))
            return 1
    finally:
        try:
            srv.kill()
        except Exception:
            pass

if __name__ == "__main__":
    sys.exit( main() )
