#!/usr/bin/env python
"""
C09 defect 3 ( unchanged code ): a session queued for the gateway's shared route connection is
answered with EtherNet/IP status 0x65 - although its own request was never sent - when the session
ahead of it timed out in the MIDDLE of a response frame.

ucmm.py retires a failed route connection and lets the sessions that waited for it carry on with a
fresh one ( `if self.route_conn.get( target ) is not route: continue` ).  That `continue` leaves
`with route as conn:` without an exception, and client.__exit__ then insists on being between frames:
`assert self.engine is None, "Partial response parsed; client session is no longer valid"`.  If the
request that failed had received part of its response ( the target stalled after the first octets ),
the framing engine of the retired connection is still there: the AssertionError escapes into the
waiting session's handler, and that session is refused ( 0x65, session closed ) for the failure of
another session's request.

  target      answers a Read Tag of element <n> with [1000+<n>]; of element 1 it sends only the first
              10 octets of the response frame, and stalls
  session A   reads element 1, Unconnected Send time-out ~2s          --> fails ( its own failure )
  session B   reads element 2, time-out ~15s, half a second after A   --> expected status 0, [1002]
"""

from __future__ import print_function
import socket, struct, sys, threading, time

import cpppo
from cpppo.server.enip.main import main as enip_main
from cpppo.server.enip import ucmm

GATEWAY = 44818
TARGET = 44819

def enip_frame( command, session, payload, context=b'\0'*8 ):
    return struct.pack( '<HHII8sI', command, len( payload ), session, 0, context, 0 ) + payload

def epath_sym( name, elm ):
    b = name.encode( 'iso-8859-1' )
    seg = bytes( bytearray( [0x91, len( b )] )) + b + ( b'\0' if len( b ) % 2 else b'' )
    seg += bytes( bytearray( [0x28, elm] ))
    return bytes( bytearray( [len( seg ) // 2] )) + seg

def read_tag( name, elm, cnt ):
    return b'\x4c' + epath_sym( name, elm ) + struct.pack( '<H', cnt )

def unconnected_send( req, priority, ticks ):
    body = ( b'\x52\x02\x20\x06\x24\x01' + bytes( bytearray( [priority, ticks] ))
             + struct.pack( '<H', len( req )) + req + ( b'\0' if len( req ) % 2 else b'' ))
    return body + b'\x01\x00\x01\x01'		# route path: port 1, link 1

def send_rr_data( cip ):
    return struct.pack( '<IHH', 0, 5, 2 ) + struct.pack( '<HH', 0, 0 ) + struct.pack( '<HH', 0xb2, len( cip )) + cip

def recv_exact( sock, n ):
    buf = b''
    while len( buf ) < n:
        d = sock.recv( n - len( buf ))
        if not d:
            raise EOFError( "connection closed" )
        buf += d
    return buf

def recv_frame( sock ):
    cmd,ln,sess,sts,ctx,opt = struct.unpack( '<HHII8sI', recv_exact( sock, 24 ))
    return cmd,sess,sts,ctx,recv_exact( sock, ln )

# ---------------------------------------------------------------------------------------------
# The route's target: answers Register, and Read Tag ( element n --> [1000+n] ); element 1 slowly
# ---------------------------------------------------------------------------------------------
def target_serve( conn ):
    try:
        while True:
            cmd,sess,sts,ctx,pay = recv_frame( conn )
            if cmd == 0x65:
                conn.sendall( enip_frame( 0x65, 0x11223344, pay, context=ctx ))
                continue
            assert cmd == 0x6f, "target: unexpected command 0x%x" % cmd
            l1, = struct.unpack( '<H', pay[14:16] )
            req = bytearray( pay[16:16+l1] )
            assert req[0] == 0x4c, "target: unexpected service 0x%02x" % req[0]
            words = req[1]
            path = req[2:2+2*words]
            elm = path[-1]				# ... 0x28 <element>
            rpy = b'\xcc\x00\x00\x00\xc4\x00' + struct.pack( '<i', 1000 + elm )
            frame = enip_frame( 0x6f, sess, send_rr_data( rpy ), context=ctx )
            if elm == 1:
                conn.sendall( frame[:10] )		# ... and no more
                time.sleep( 30 )
                return
            conn.sendall( frame )
    except Exception:
        pass
    finally:
        conn.close()

def target_main( listener ):
    while True:
        conn,addr = listener.accept()
        t = threading.Thread( target=target_serve, args=(conn,) )
        t.daemon = True
        t.start()

class Session( object ):
    def __init__( self ):
        self.s = socket.create_connection( ('127.0.0.1', GATEWAY), timeout=30 )
        self.s.sendall( enip_frame( 0x65, 0, struct.pack( '<HH', 1, 0 )))
        cmd,sess,sts,ctx,pay = recv_frame( self.s )
        assert cmd == 0x65 and sts == 0
        self.session = sess
    def read( self, elm, priority, ticks, ctx ):
        """--> ( EtherNet/IP status, CIP status, [values] )"""
        cip = unconnected_send( read_tag( 'T', elm, 1 ), priority, ticks )
        self.s.sendall( enip_frame( 0x6f, self.session, send_rr_data( cip ), context=ctx ))
        cmd,sess,sts,rctx,pay = recv_frame( self.s )
        assert rctx == ctx, "reply carries sender context %r, request had %r" % ( rctx, ctx )
        if sts or len( pay ) < 16:
            return sts,None,None
        l1, = struct.unpack( '<H', pay[14:16] )
        rpy = bytearray( pay[16:16+l1] )
        if rpy[2] != 0 or len( rpy ) < 10:
            return sts,rpy[2],None
        return sts,rpy[2],list( struct.unpack( '<%di' % (( len( rpy ) - 6 ) // 4 ), bytes( rpy[6:] )))

def main():
    listener = socket.socket( socket.AF_INET, socket.SOCK_STREAM )
    listener.setsockopt( socket.SOL_SOCKET, socket.SO_REUSEADDR, 1 )
    listener.bind( ('127.0.0.1', TARGET) )
    listener.listen( 5 )
    t = threading.Thread( target=target_main, args=(listener,) )
    t.daemon = True
    t.start()

    class Gateway( ucmm.UCMM ):
        route = { "1/1": "127.0.0.1:%d" % TARGET }

    ctl = cpppo.dotdict( control=cpppo.dotdict() )
    srv = threading.Thread( target=enip_main, kwargs=dict(
        argv=[ '-a', '127.0.0.1:%d' % GATEWAY, '--no-udp', 'LOCAL=DINT[4]' ], server=ctl, UCMM_class=Gateway ))
    srv.daemon = True
    srv.start()
    for _ in range( 200 ):
        try:
            socket.create_connection( ('127.0.0.1', GATEWAY), timeout=1 ).close()
            break
        except Exception:
            time.sleep( .05 )

    results = {}
    def run( name, elm, priority, ticks, delay ):
        try:
            time.sleep( delay )
            s = Session()
            results[name] = s.read( elm, priority, ticks, ( name * 8 ).encode( 'ascii' )[:8] )
        except Exception as exc:
            results[name] = exc

    ta = threading.Thread( target=run, args=( 'A', 1, 5, 63, 0.0 ))	# 2^5 * 63 == 2016ms
    tb = threading.Thread( target=run, args=( 'B', 2, 8, 60, 0.5 ))	# 2^8 * 60 == 15360ms
    ta.start(); tb.start()
    ta.join( 40 ); tb.join( 40 )
    ctl.control.done = True
    print( "session A: %r   ( EtherNet/IP status, CIP status, values )" % ( results.get( 'A' ), ))
    print( "session B: %r" % ( results.get( 'B' ), ))
    assert isinstance( results.get( 'A' ), tuple ) and results['A'][0] != 0, \
        "session A's request should have failed ( its target stalled ), got %r" % ( results.get( 'A' ), )
    if results.get( 'B' ) != (0, 0, [1002]):
        print( "DEFECT: session B read element 2 through the route; expected (0, 0, [1002]) on a fresh route "
               "connection, received %r: it was refused because of the failure of session A's request" % ( results.get( 'B' ), ))
        return 1
    print( "OK: session B was served on a fresh route connection" )
    return 0

if __name__ == "__main__":
    sys.exit( main() )
