#!/usr/bin/env python
"""
C09 defect 1 ( unchanged code ): two simultaneously registered sessions can be given the SAME
EtherNet/IP session handle.

UCMM.request ( Register Session ) draws a random 32-bit handle and re-draws while
`session in self.__class__.sessions` - but `sessions` maps the peer ADDRESS to its handle, so the
membership test looks the handle up among the addresses ( the dict's keys ) and never finds it.
The uniqueness the loop is there for is not enforced.

The random source of the ucmm module is replaced by one that yields 0x00C0FFEE, 0x00C0FFEE, 0x0BADCAFE,
... : a correct allocator gives the second session 0x0BADCAFE.
"""
from __future__ import print_function
import socket, struct, sys, threading, time

import cpppo
from cpppo.server.enip.main import main as enip_main
from cpppo.server.enip import ucmm

PORT = 44818

class Draws( object ):
    def __init__( self, values ):
        self.values = list( values )
    def randint( self, lo, hi ):
        return self.values.pop( 0 ) if self.values else 0x10000000 + len( self.values )

def register():
    s = socket.create_connection( ('127.0.0.1', PORT), timeout=10 )
    s.sendall( struct.pack( '<HHII8sI', 0x65, 4, 0, 0, b'\0'*8, 0 ) + struct.pack( '<HH', 1, 0 ))
    buf = b''
    while len( buf ) < 28:
        d = s.recv( 100 )
        assert d, "connection closed"
        buf += d
    cmd,ln,sess,sts = struct.unpack( '<HHII', buf[:12] )
    assert cmd == 0x65 and sts == 0, "Register Session failed: command 0x%x, status 0x%x" % ( cmd, sts )
    return s,sess

def main():
    ctl = cpppo.dotdict( control=cpppo.dotdict() )
    srv = threading.Thread( target=enip_main, kwargs=dict(
        argv=[ '-a', '127.0.0.1:%d' % PORT, '--no-udp', 'T=DINT[4]' ], server=ctl ))
    srv.daemon = True
    srv.start()
    for _ in range( 200 ):
        try:
            socket.create_connection( ('127.0.0.1', PORT), timeout=1 ).close()
            break
        except Exception:
            time.sleep( .05 )
    time.sleep( .5 )
    ucmm.random = Draws( [ 0x00C0FFEE, 0x00C0FFEE, 0x0BADCAFE ] )
    s1,h1 = register()
    s2,h2 = register()		# s1 is still open and registered
    ctl.control.done = True
    print( "session 1 handle: 0x%08X" % h1 )
    print( "session 2 handle: 0x%08X" % h2 )
    if h1 == h2:
        print( "DEFECT: both open sessions were given session handle 0x%08X; expected the second draw of an "
               "already allocated handle to be rejected ( 0x%08X for session 2 )" % ( h1, 0x0BADCAFE ))
        return 1
    print( "OK: session handles are distinct" )
    return 0

if __name__ == "__main__":
    sys.exit( main() )
