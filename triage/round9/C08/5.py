#!/usr/bin/env python
"""
C08 contradiction 5: a Write Tag whose request path names a Tag and then goes on to name a
*different* object (class / instance / attribute segments that contradict what the Tag resolved to)
is executed on the Tag; the contradicting segments are silently dropped.

device.resolve() skips every non-symbolic segment once class, instance and attribute are known
("All desired terms specified; done! (ie. ignore subsequent 'element')").  That is meant for element
segments, but it also swallows class / instance / attribute / connection segments -- the very
segments for which resolve() otherwise insists "Failed to override %r==%r with %r": the same
segments in the opposite order ( @1/1/7 first, then the Tag ) are refused.

Input (inside a valid SendRRData), Write Tag DINT x 1 = 780 with the path
    91 01 44 00 | 20 01 | 24 01 | 30 07      "D", class 1, instance 1, attribute 7 ( Identity, Product Name )
Expected: refused (path error), both ways round; D unchanged.
Observed: [ "D", @1/1/7 ] --> status 0x00, D == 780;   [ @1/1/7, "D" ] --> refused.

Exit 1 (printing observed vs. expected) while the contradiction is present, 0 otherwise.
"""
from __future__ import print_function

import logging
import socket
import struct
import sys
import threading
import time

import cpppo
from cpppo.server.enip import main as enip_main_module
from cpppo.server.enip.main import main as enip_main

PORT				= 44895


def start_simulator( port, tags ):
    control			= cpppo.apidict( 2.0, { 'done': False } )
    kwargs			= dict(
        argv	= [ '--no-config', '--no-udp', '--address', 'localhost:%d' % port ] + tags,
        server	= { 'control': control },
    )
    thread			= threading.Thread( target=enip_main, kwargs=kwargs )
    thread.daemon		= True
    thread.start()
    deadline			= time.time() + 10
    while time.time() < deadline:
        try:
            socket.create_connection( ('localhost', port), timeout=.5 ).close()
            return control
        except Exception:
            time.sleep( .1 )
    raise RuntimeError( "simulator did not start" )


def enip( command, payload=b'', session=0 ):
    return struct.pack( '<HHII', command, len( payload ), session, 0 ) + b'\0' * 8 + struct.pack( '<I', 0 ) + payload


def sendrr( cip, session ):
    cpf				= struct.pack( '<HHHHH', 2, 0, 0, 0xb2, len( cip )) + cip
    return enip( 0x6f, struct.pack( '<IH', 0, 5 ) + cpf, session=session )


def epath_symbolic( name ):
    enc				= name.encode( 'iso-8859-1' )
    seg				= b'\x91' + struct.pack( 'B', len( enc )) + enc + ( b'\0' if len( enc ) % 2 else b'' )
    return struct.pack( 'B', len( seg ) // 2 ) + seg


def recv_frame( sock, timeout=5 ):
    sock.settimeout( timeout )
    buf				= b''
    while len( buf ) < 24 or len( buf ) < 24 + struct.unpack( '<H', buf[2:4] )[0]:
        got			= sock.recv( 4096 )
        if not got:
            return buf or None
        buf		       += got
    return buf


def transact( sock, frame ):
    sock.sendall( frame )
    return recv_frame( sock )


def main():
    logging.disable( logging.CRITICAL )
    start_simulator( PORT, [ 'D=DINT' ] )

    sock			= socket.create_connection( ('localhost', PORT), timeout=5 )
    rpy				= transact( sock, enip( 0x65, struct.pack( '<HH', 1, 0 )))
    session			= struct.unpack( '<I', rpy[4:8] )[0]

    tag				= b'\x91\x01D\x00'
    other			= b'\x20\x01\x24\x01\x30\x07'

    def path( segments ):
        return struct.pack( 'B', len( segments ) // 2 ) + segments

    def read_D():
        cip			= transact( sock, sendrr( b'\x4c' + path( tag ) + struct.pack( '<H', 1 ), session ))[24+16:]
        assert bytearray( cip )[2] == 0, "read failed: %r" % ( cip, )
        return struct.unpack( '<i', cip[6:10] )[0]

    def write( segments, value ):
        rpy			= transact( sock, sendrr( b'\x4d' + path( segments ) + struct.pack( '<HHi', 0x00c4, 1, value ), session ))
        assert rpy and len( rpy ) >= 24 + 16 + 4, "no/short reply: %r" % ( rpy, )
        return bytearray( rpy )[24+16+2]

    assert write( tag, 12345 ) == 0 and read_D() == 12345, "well-formed write failed"

    status_before		= write( other + tag, 779 )		# @1/1/7, then "D"
    value_before		= read_D()
    status_after		= write( tag + other, 780 )		# "D", then @1/1/7
    value_after			= read_D()
    sock.close()

    print( "Write Tag, path [ @1/1/7, 'D' ]: status 0x%02x, D == %d" % ( status_before, value_before ))
    print( "Write Tag, path [ 'D', @1/1/7 ]: status 0x%02x, D == %d" % ( status_after, value_after ))
    if status_after == 0 or value_after != 12345 or status_before == 0 or value_before != 12345:
        print( "OBSERVED: a path naming Tag D and another object ( @1/1/7 ) was resolved to D and the write executed" )
        print( "EXPECTED: a path whose segments contradict each other is refused, in whatever order; D remains 12345" )
        return 1
    print( "OK: refused, tag unchanged" )
    return 0


if __name__ == "__main__":
    sys.exit( main() )
