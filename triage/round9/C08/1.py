#!/usr/bin/env python
"""
C08 contradiction 1: an SSTRING cut off inside its text is accepted, and a Write Tag carrying it
alters the tag.

A Write Tag request (service 0x4D) of type SSTRING (0x00DA) is sent to the running simulator whose
single SSTRING value announces .length == 200 octets, but carries only the 2 octets 'xy' (the request,
its Unconnected Send wrapper, the CPF item and the EtherNet/IP frame all end there; every enclosing
length field is consistent with the bytes really sent).  This is not a complete, well-formed write
request: 198 octets of the value it announces are missing.  (The same request with a STRING value
cut off in the same way is refused; see parser.STRING.)

Expected: the request is refused (error status), tag S keeps its value.
Observed: status 0x00, tag S now reads back as 'xy'.

Exit 1 (printing observed vs. expected) while the contradiction is present, 0 otherwise.
"""
from __future__ import print_function

import logging
import socket
import struct
import sys
import threading
import time

import cpppo
from cpppo.server.enip import main as enip_main_module
from cpppo.server.enip.main import main as enip_main

PORT				= 44891


def start_simulator( port, tags ):
    control			= cpppo.apidict( 2.0, { 'done': False } )
    kwargs			= dict(
        argv	= [ '--no-config', '--no-udp', '--address', 'localhost:%d' % port ] + tags,
        server	= { 'control': control },
    )
    thread			= threading.Thread( target=enip_main, kwargs=kwargs )
    thread.daemon		= True
    thread.start()
    deadline			= time.time() + 10
    while time.time() < deadline:
        try:
            socket.create_connection( ('localhost', port), timeout=.5 ).close()
            return control
        except Exception:
            time.sleep( .1 )
    raise RuntimeError( "simulator did not start" )


def enip( command, payload=b'', session=0 ):
    return struct.pack( '<HHII', command, len( payload ), session, 0 ) + b'\0' * 8 + struct.pack( '<I', 0 ) + payload


def sendrr( cip, session ):
    cpf				= struct.pack( '<HHHHH', 2, 0, 0, 0xb2, len( cip )) + cip
    return enip( 0x6f, struct.pack( '<IH', 0, 5 ) + cpf, session=session )


def epath_symbolic( name ):
    enc				= name.encode( 'iso-8859-1' )
    seg				= b'\x91' + struct.pack( 'B', len( enc )) + enc + ( b'\0' if len( enc ) % 2 else b'' )
    return struct.pack( 'B', len( seg ) // 2 ) + seg


def recv_frame( sock, timeout=5 ):
    sock.settimeout( timeout )
    buf				= b''
    while len( buf ) < 24 or len( buf ) < 24 + struct.unpack( '<H', buf[2:4] )[0]:
        got			= sock.recv( 4096 )
        if not got:
            return buf or None
        buf		       += got
    return buf


def transact( sock, frame ):
    sock.sendall( frame )
    return recv_frame( sock )


def main():
    logging.disable( logging.CRITICAL )
    start_simulator( PORT, [ 'S=SSTRING' ] )

    sock			= socket.create_connection( ('localhost', PORT), timeout=5 )
    rpy				= transact( sock, enip( 0x65, struct.pack( '<HH', 1, 0 )))
    session			= struct.unpack( '<I', rpy[4:8] )[0]

    def write_S( value_octets ):
        req			= b'\x4d' + epath_symbolic( 'S' ) + struct.pack( '<HH', 0x00da, 1 ) + value_octets
        rpy			= transact( sock, sendrr( req, session ))
        assert rpy and len( rpy ) >= 24 + 16 + 4, "no/short reply: %r" % ( rpy, )
        return bytearray( rpy )[24+16+2]		# general status of the Write Tag reply

    def read_S():
        req			= b'\x4c' + epath_symbolic( 'S' ) + struct.pack( '<H', 1 )
        rpy			= transact( sock, sendrr( req, session ))
        cip			= rpy[24+16:]
        assert bytearray( cip )[2] == 0, "read failed: %r" % ( cip, )
        length			= bytearray( cip )[6]
        return cip[7:7+length].decode( 'iso-8859-1' )

    # A complete SSTRING value is stored
    status			= write_S( b'\x05first' )
    assert status == 0 and read_S() == 'first', "well-formed SSTRING write failed: status %r, S == %r" % ( status, read_S() )

    # An SSTRING announcing 200 octets, of which only 2 arrive
    status			= write_S( b'\xc8xy' )
    value			= read_S()
    sock.close()

    print( "Write Tag S, SSTRING .length=200 carrying 2 octets: status 0x%02x; S reads back as %r" % ( status, value ))
    if status == 0 or value != 'first':
        print( "OBSERVED: the truncated SSTRING was accepted (status 0x%02x) and tag S altered to %r" % ( status, value ))
        print( "EXPECTED: the incomplete write request is refused with an error status, and S remains 'first'" )
        return 1
    print( "OK: refused, tag unchanged" )
    return 0


if __name__ == "__main__":
    sys.exit( main() )
