#!/usr/bin/env python
"""
C08 contradiction 2: a SendRRData frame whose encapsulation header carries a non-zero Status is
executed -- its Write Tag alters the tag -- and then the session is ended.

The sender of an EtherNet/IP encapsulation request sets the header's Status to 0; a frame arriving
with a non-zero Status is a reply / a corrupted header (a bit flip of a valid request), not a
well-formed request (ODVA Vol.2, 2-3.5: it shall be ignored and no reply generated).  The simulator
never looks at request.enip.status: logix.process copies the whole request header into the response,
UCMM.request executes the encapsulated Write Tag, the reply is sent with the *request's* status value,
and because that is non-zero enip_srv_tcp ends the session.

Input: RegisterSession, then a valid SendRRData/Write Tag SCADA[0..1] = 111,222 except that header
octets 8..11 (Status) are 0x00000001.
Expected: no tag is altered (frame ignored / refused / connection closed without executing it).
Observed: SCADA[0..1] == [111, 222]; reply frame has status 1, connection closed by the simulator.

Exit 1 (printing observed vs. expected) while the contradiction is present, 0 otherwise.
"""
from __future__ import print_function

import logging
import socket
import struct
import sys
import threading
import time

import cpppo
from cpppo.server.enip import main as enip_main_module
from cpppo.server.enip.main import main as enip_main

PORT				= 44892


def start_simulator( port, tags ):
    control			= cpppo.apidict( 2.0, { 'done': False } )
    kwargs			= dict(
        argv	= [ '--no-config', '--no-udp', '--address', 'localhost:%d' % port ] + tags,
        server	= { 'control': control },
    )
    thread			= threading.Thread( target=enip_main, kwargs=kwargs )
    thread.daemon		= True
    thread.start()
    deadline			= time.time() + 10
    while time.time() < deadline:
        try:
            socket.create_connection( ('localhost', port), timeout=.5 ).close()
            return control
        except Exception:
            time.sleep( .1 )
    raise RuntimeError( "simulator did not start" )


def enip( command, payload=b'', session=0, status=0 ):
    return struct.pack( '<HHII', command, len( payload ), session, status ) + b'\0' * 8 + struct.pack( '<I', 0 ) + payload


def sendrr( cip, session, status=0 ):
    cpf				= struct.pack( '<HHHHH', 2, 0, 0, 0xb2, len( cip )) + cip
    return enip( 0x6f, struct.pack( '<IH', 0, 5 ) + cpf, session=session, status=status )


def epath_symbolic( name ):
    enc				= name.encode( 'iso-8859-1' )
    seg				= b'\x91' + struct.pack( 'B', len( enc )) + enc + ( b'\0' if len( enc ) % 2 else b'' )
    return struct.pack( 'B', len( seg ) // 2 ) + seg


def recv_frame( sock, timeout=5 ):
    sock.settimeout( timeout )
    buf				= b''
    while len( buf ) < 24 or len( buf ) < 24 + struct.unpack( '<H', buf[2:4] )[0]:
        got			= sock.recv( 4096 )
        if not got:
            return buf or None
        buf		       += got
    return buf


def transact( sock, frame ):
    sock.sendall( frame )
    return recv_frame( sock )


def main():
    logging.disable( logging.CRITICAL )
    start_simulator( PORT, [ 'SCADA=INT[10]' ] )

    def session():
        sock			= socket.create_connection( ('localhost', PORT), timeout=5 )
        rpy			= transact( sock, enip( 0x65, struct.pack( '<HH', 1, 0 )))
        return sock, struct.unpack( '<I', rpy[4:8] )[0]

    def read_SCADA( sock, handle ):
        req			= b'\x4c' + epath_symbolic( 'SCADA' ) + struct.pack( '<H', 2 )
        cip			= transact( sock, sendrr( req, handle ))[24+16:]
        assert bytearray( cip )[2] == 0, "read failed: %r" % ( cip, )
        return list( struct.unpack( '<hh', cip[6:10] ))

    write			= b'\x4d' + epath_symbolic( 'SCADA' ) + struct.pack( '<HHhh', 0x00c3, 2, 111, 222 )

    sock, handle		= session()
    assert read_SCADA( sock, handle ) == [0, 0]
    rpy				= transact( sock, sendrr( write, handle, status=1 ))	# the only defect: Status == 1
    closed			= False
    try:
        sock.settimeout( 2 )
        closed			= sock.recv( 1 ) == b''
    except socket.timeout:
        pass
    except socket.error:
        closed			= True
    sock.close()

    sock, handle		= session()
    values			= read_SCADA( sock, handle )
    sock.close()

    print( "SendRRData/Write Tag with encapsulation Status=1: reply %s, connection %s; SCADA[0..1] == %r" % (
        ( "status %d, %d octets" % ( struct.unpack( '<I', rpy[8:12] )[0], len( rpy ))) if rpy else None,
        "closed" if closed else "open", values ))
    if values != [0, 0]:
        print( "OBSERVED: the frame with a non-zero encapsulation Status was executed; SCADA[0..1] altered to %r" % ( values, ))
        print( "EXPECTED: such a frame is not a well-formed request; SCADA[0..1] remains [0, 0]" )
        return 1
    print( "OK: tag unchanged" )
    return 0


if __name__ == "__main__":
    sys.exit( main() )
