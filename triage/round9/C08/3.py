#!/usr/bin/env python
"""
C08 contradiction 3: a Write Tag whose request path .size announces more words than its segments
occupy is executed; the octets that (by the size field) still belong to the path are taken for the
type, element count and data of the write.

The EPATH parser limits its segments to .size words, but stops silently at the first octet that is no
segment type it knows -- even if that is short of the announced size -- and whatever parses the rest
of the request simply carries on from there.  UCMM.request refuses exactly this for the route path of
an Unconnected Send ("route path of %d words not (completely) recognized"); nothing checks the
request path itself.  A *Logix answers such a request with status 0x04 / 0x26 (path syntax error /
path size invalid).

Input (inside a valid SendRRData):   4d 05 | 91 01 44 00 | c4 00 01 00 0c 03 00 00
  Write Tag, path size 5 words (10 octets): a 2-word symbolic segment "D", and then 3 more words of
  "path" (c4 00 01 00 0c 03) that are no path segments -- nothing of the request follows the 10 path
  octets but 2 octets (00 00); no type, no element count, no data.
Expected: error status, tag D unchanged (12345 != 780: inconsistent length field at the path level).
Observed: status 0x00, D == 780: the "path" octets were used as type DINT, 1 element, value 780.

Exit 1 (printing observed vs. expected) while the contradiction is present, 0 otherwise.
"""
from __future__ import print_function

import logging
import socket
import struct
import sys
import threading
import time

import cpppo
from cpppo.server.enip import main as enip_main_module
from cpppo.server.enip.main import main as enip_main

PORT				= 44893


def start_simulator( port, tags ):
    control			= cpppo.apidict( 2.0, { 'done': False } )
    kwargs			= dict(
        argv	= [ '--no-config', '--no-udp', '--address', 'localhost:%d' % port ] + tags,
        server	= { 'control': control },
    )
    thread			= threading.Thread( target=enip_main, kwargs=kwargs )
    thread.daemon		= True
    thread.start()
    deadline			= time.time() + 10
    while time.time() < deadline:
        try:
            socket.create_connection( ('localhost', port), timeout=.5 ).close()
            return control
        except Exception:
            time.sleep( .1 )
    raise RuntimeError( "simulator did not start" )


def enip( command, payload=b'', session=0 ):
    return struct.pack( '<HHII', command, len( payload ), session, 0 ) + b'\0' * 8 + struct.pack( '<I', 0 ) + payload


def sendrr( cip, session ):
    cpf				= struct.pack( '<HHHHH', 2, 0, 0, 0xb2, len( cip )) + cip
    return enip( 0x6f, struct.pack( '<IH', 0, 5 ) + cpf, session=session )


def epath_symbolic( name ):
    enc				= name.encode( 'iso-8859-1' )
    seg				= b'\x91' + struct.pack( 'B', len( enc )) + enc + ( b'\0' if len( enc ) % 2 else b'' )
    return struct.pack( 'B', len( seg ) // 2 ) + seg


def recv_frame( sock, timeout=5 ):
    sock.settimeout( timeout )
    buf				= b''
    while len( buf ) < 24 or len( buf ) < 24 + struct.unpack( '<H', buf[2:4] )[0]:
        got			= sock.recv( 4096 )
        if not got:
            return buf or None
        buf		       += got
    return buf


def transact( sock, frame ):
    sock.sendall( frame )
    return recv_frame( sock )


def main():
    logging.disable( logging.CRITICAL )
    start_simulator( PORT, [ 'D=DINT' ] )

    sock			= socket.create_connection( ('localhost', PORT), timeout=5 )
    rpy				= transact( sock, enip( 0x65, struct.pack( '<HH', 1, 0 )))
    session			= struct.unpack( '<I', rpy[4:8] )[0]

    def read_D():
        req			= b'\x4c' + epath_symbolic( 'D' ) + struct.pack( '<H', 1 )
        cip			= transact( sock, sendrr( req, session ))[24+16:]
        assert bytearray( cip )[2] == 0, "read failed: %r" % ( cip, )
        return struct.unpack( '<i', cip[6:10] )[0]

    def write_D( request ):
        rpy			= transact( sock, sendrr( request, session ))
        assert rpy and len( rpy ) >= 24 + 16 + 4, "no/short reply: %r" % ( rpy, )
        return bytearray( rpy )[24+16+2]

    # A well-formed write: path size 2 words
    status			= write_D( b'\x4d\x02\x91\x01D\x00' + struct.pack( '<HHi', 0x00c4, 1, 12345 ))
    assert status == 0 and read_D() == 12345, "well-formed write failed: status %r, D == %r" % ( status, read_D() )

    # The same octets, but the path size announces 5 words: all of type, count and data lie within "the path"
    status			= write_D( b'\x4d\x05\x91\x01D\x00' + struct.pack( '<HHi', 0x00c4, 1, 780 ))
    value			= read_D()
    sock.close()

    print( "Write Tag D with path size 5 words over a 2-word segment: status 0x%02x; D reads back as %r" % ( status, value ))
    if status == 0 or value != 12345:
        print( "OBSERVED: the request with an inconsistent path size was executed (status 0x%02x); D altered to %r" % ( status, value ))
        print( "EXPECTED: refused with an error status (path size/syntax), D remains 12345" )
        return 1
    print( "OK: refused, tag unchanged" )
    return 0


if __name__ == "__main__":
    sys.exit( main() )
