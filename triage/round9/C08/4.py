#!/usr/bin/env python
"""
C08 contradiction 4: over UDP the simulator answers frames that are themselves *replies*, so a single
datagram can start an endless exchange between two simulators (or a simulator and any other
responder that behaves alike).

A ListIdentity / ListServices / ListInterfaces request carries no payload (.length == 0); what carries
a CPF payload is the reply.  The CPF_service parsers are shared by both directions ("The request will
have a 0 length; the reply will have a non-zero length"), and UCMM.request never looks at which of the
two it got: the reply the simulator has just sent, handed back to it, is answered again -- with the
very same kind of frame, to whatever address the datagram (claims to have) come from.  With the source
address of one ListIdentity datagram set to another simulator's UDP port, the two keep answering each
other forever (about 80 datagrams/s each on this machine; reproduced with two enip_srv_udp threads).

This program bounces the simulator's own ListIdentity reply back to it 25 times.
Expected: a frame that is a reply (List* command with a payload) is not answered; the exchange stops
after the first, genuine reply.
Observed: every bounce is answered; the exchange never ends by itself.

Exit 1 (printing observed vs. expected) while the contradiction is present, 0 otherwise.
"""
from __future__ import print_function

import logging
import socket
import struct
import sys
import threading
import time

import cpppo
from cpppo.server.enip import main as enip_main_module
from cpppo.server.enip.main import main as enip_main

PORT				= 44894


def start_simulator( port, tags ):
    control			= cpppo.apidict( 2.0, { 'done': False } )
    kwargs			= dict(
        argv	= [ '--no-config', '--address', 'localhost:%d' % port ] + tags,
        server	= { 'control': control },
    )
    thread			= threading.Thread( target=enip_main, kwargs=kwargs )
    thread.daemon		= True
    thread.start()
    deadline			= time.time() + 10
    while time.time() < deadline:
        try:
            socket.create_connection( ('localhost', port), timeout=.5 ).close()
            return control
        except Exception:
            time.sleep( .1 )
    raise RuntimeError( "simulator did not start" )


def enip( command, payload=b'', session=0 ):
    return struct.pack( '<HHII', command, len( payload ), session, 0 ) + b'\0' * 8 + struct.pack( '<I', 0 ) + payload


def sendrr( cip, session ):
    cpf				= struct.pack( '<HHHHH', 2, 0, 0, 0xb2, len( cip )) + cip
    return enip( 0x6f, struct.pack( '<IH', 0, 5 ) + cpf, session=session )


def epath_symbolic( name ):
    enc				= name.encode( 'iso-8859-1' )
    seg				= b'\x91' + struct.pack( 'B', len( enc )) + enc + ( b'\0' if len( enc ) % 2 else b'' )
    return struct.pack( 'B', len( seg ) // 2 ) + seg


def recv_frame( sock, timeout=5 ):
    sock.settimeout( timeout )
    buf				= b''
    while len( buf ) < 24 or len( buf ) < 24 + struct.unpack( '<H', buf[2:4] )[0]:
        got			= sock.recv( 4096 )
        if not got:
            return buf or None
        buf		       += got
    return buf


def transact( sock, frame ):
    sock.sendall( frame )
    return recv_frame( sock )


def main():
    logging.disable( logging.CRITICAL )
    start_simulator( PORT, [ 'SCADA=INT[10]' ] )

    udp				= socket.socket( socket.AF_INET, socket.SOCK_DGRAM )
    udp.settimeout( 2.0 )
    server			= ( '127.0.0.1', PORT )

    def exchange( frame ):
        udp.sendto( frame, server )
        try:
            return udp.recvfrom( 4096 )[0]
        except socket.timeout:
            return None

    reply			= None
    for attempt in range( 10 ):			# the UDP service may take a moment to come up
        reply			= exchange( enip( 0x0063 ))	# ListIdentity request: no payload
        if reply:
            break
        time.sleep( .25 )
    assert reply and len( reply ) > 24 and struct.unpack( '<H', reply[2:4] )[0] > 0, \
        "no ListIdentity reply to a genuine request: %r" % ( reply, )

    bounces			= 0
    frame			= reply
    while bounces < 25:
        frame			= exchange( frame )		# hand the simulator its own reply
        if not frame:
            break
        bounces		       += 1
    udp.close()

    print( "ListIdentity reply (%d octets of payload) bounced back to the simulator: answered %d times out of 25" % (
        struct.unpack( '<H', reply[2:4] )[0], bounces ))
    if bounces:
        print( "OBSERVED: the simulator answers its own replies (%d in a row, never stopping by itself)" % bounces )
        print( "EXPECTED: a List* frame carrying a payload is a reply, and is not answered" )
        return 1
    print( "OK: replies are not answered" )
    return 0


if __name__ == "__main__":
    sys.exit( main() )
