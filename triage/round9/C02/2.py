#!/usr/bin/env python
"""
C02 defect 2 (unchanged code): a session that ends inside a frame is never "terminated" for the request
processor, and what it held keeps later sessions from working.

"... a connection that ends at any earlier byte changes no tag, yields no reply for the unfinished frame,
and leaves other sessions and the listener working."

When a TCP session ends BETWEEN two frames, enip_srv_tcp hands the request processor an empty request
( the termination signal ), and the Connection Manager drops the Forward Opens of that peer.  When the
session ends INSIDE a frame, the framing exception leaves enip_srv_tcp through its outer handler, which
closes the socket but never signals the termination: the peer's Forward Opens stay in
Connection_Manager.forwards for good.

Observable: a client ( fixed source address, as a PLC or gateway with a fixed originator port would have )
opens a connection with a multicast O->T direction ( the originator chooses the O->T connection ID, 7 ),
and its session ends.  It connects again from the same address and opens connection ID 7 with another
RPI:

  first session ended between two frames:  the new Forward Open succeeds
  first session ended inside a frame:       the new Forward Open is refused ( status 0x08; "Already have an
                                            incompatible Forward Open ..." ); the stale entry lives until some
                                            later session from that address happens to end between two frames

Exit 1 and print observed-vs-expected while the contradiction is present; exit 0 otherwise.
"""
from __future__ import print_function

import logging
import socket
import struct
import sys
import threading
import time

import cpppo
from cpppo.server import enip
from cpppo.server.enip import client
from cpppo.server.enip.main import main as enip_main

logging.disable( logging.CRITICAL )

ADDR				= ('127.0.0.1', 44818)
SOURCE				= '127.0.0.1:40123'	# the client's fixed source address


def rst_close( cli ):
    """End the TCP connection at once ( RST; no TIME_WAIT, so the source port can be used again ), without the
    Forward Close that client.implicit.close would send."""
    cli.conn.setsockopt( socket.SOL_SOCKET, socket.SO_LINGER, struct.pack( 'ii', 1, 0 ))
    cli.conn.close()
    cli.conn			= None
    cli.established		= cpppo.dotdict()


class implicit( client.implicit ):
    """Remembers the latest instance, so its socket can be closed even if its Forward Open is refused."""
    latest			= None
    def __init__( self, *args, **kwds ):
        implicit.latest		= self
        super( implicit, self ).__init__( *args, **kwds )


def forward_open( RPI ):
    return implicit(
        ADDR[0], ADDR[1], timeout=5, source_address=SOURCE, connection_serial=RPI % 1000,
        O_T=cpppo.dotdict( type=1, connection_ID=7, RPI=RPI ),	# type 1: multicast; originator picks the ID
        T_O=cpppo.dotdict( RPI=RPI ))


def scenario( partial, RPI ):
    """One session that ends after 'partial' bytes of a further frame, then a new session from the same address"""
    first			= forward_open( RPI )
    if partial:
        header			= b'\x6f\x00\x28\x00' + struct.pack( '<I', first.session ) + b'\x00' * 16
        first.conn.sendall( header[:partial] )		# the beginning of a SendRRData frame
    time.sleep( .5 )					# the server has consumed what was sent
    rst_close( first )
    time.sleep( .5 )					# the server has seen the end of the session
    try:
        second			= forward_open( RPI + 1000 )
    except Exception as exc:
        rst_close( implicit.latest )
        time.sleep( .5 )
        return "REFUSED (%s)" % ( str( exc ).split( '\n' )[0][:90] )
    rst_close( second )
    time.sleep( .5 )
    return "accepted"


def main():
    control			= cpppo.apidict( 2.0, { 'done': False } )
    server			= threading.Thread( target=enip_main, kwargs=dict(
        argv=[ '--address', '%s:%d' % ADDR, 'A=INT[2]' ], server={ 'control': control } ))
    server.daemon		= True
    server.start()
    for _ in range( 100 ):
        try:
            socket.create_connection( ADDR, timeout=1 ).close()
            break
        except socket.error:
            time.sleep( .1 )

    between			= scenario( 0, 1001 )
    inside			= scenario( 10, 3001 )
    later			= scenario( 0, 5001 )
    control['done']		= True

    print( "Forward Open of a new session from the same peer address, after a session that ended ..." )
    print( "  between two frames:                     %s (expected: accepted)" % between )
    print( "  10 bytes into a frame:                  %s (expected: accepted)" % inside )
    print( "  between two frames, after that:         %s (expected: accepted)" % later )
    if ( between, inside, later ) != ( "accepted", ) * 3:
        print( "CONTRADICTION: the session that ended inside a frame still holds its Forward Open" )
        return 1
    return 0


if __name__ == "__main__":
    sys.exit( main() )
