#!/usr/bin/env python
"""
C02 defect 1 (unchanged code): requests that were delivered completely are not acted upon when the
peer stops listening.

"A request is acted upon if and only if its final byte has been delivered."

A client registers a session, writes FOUR complete Write Tag request frames (one sendall, one TCP
segment: all of them are delivered, in the same received chunk) and closes its socket without waiting
for the replies.  The server acts on the first request, its reply provokes a RST, the reply to the second
request fails to be sent -- and enip_srv_tcp sets stats.eof and leaves its loop with the third and
fourth request, complete, in its input buffer: they are never acted upon.

With a half-close (shutdown( SHUT_WR )) instead of close(), the very same byte stream is acted upon
completely (control).

Exit 1 and print observed-vs-expected while the contradiction is present; exit 0 otherwise.
"""
from __future__ import print_function

import logging
import socket
import struct
import sys
import threading
import time

import cpppo
from cpppo.server import enip
from cpppo.server.enip import client, device, logix
from cpppo.server.enip.main import main as enip_main

logging.disable( logging.CRITICAL )

ADDR				= ('127.0.0.1', 44818)
TAGS				= 'ABCD'


class capture( client.client ):
    """A client that only records the frames it would have sent."""
    def __init__( self, session=None ):
        self.session		= session
        self.profiler		= None
        self.dialect		= None
        self.udp		= False
        self.addr_connected	= True
        self.addr		= ADDR
        self.conn		= None
        self.sent		= []
        if device.dialect is None:
            device.dialect	= logix.Logix

    def send( self, request, timeout=None ):
        self.sent.append( bytes( request ))

    def __del__( self ):
        pass


def frame( session, op ):
    c				= capture( session )
    op( c )
    assert len( c.sent ) == 1
    return c.sent[0]


def recv_frames( s, count=None, timeout=3.0 ):
    buf,out,eof			= b'',[],False
    s.settimeout( timeout )
    while count is None or len( out ) < count:
        while len( buf ) >= 24:
            ln,			= struct.unpack( '<H', buf[2:4] )
            if len( buf ) < 24 + ln:
                break
            out.append( buf[:24+ln] )
            buf			= buf[24+ln:]
        if count is not None and len( out ) >= count:
            break
        try:
            d			= s.recv( 65536 )
        except socket.timeout:
            break
        except socket.error:
            eof			= True
            break
        if not d:
            eof			= True
            break
        buf		       += d
    return out,eof,buf


def session():
    s				= socket.create_connection( ADDR, timeout=5 )
    s.sendall( frame( None, lambda c: c.register() ))
    rpy,_,_			= recv_frames( s, 1 )
    assert rpy, "No reply to Register Session"
    return s,struct.unpack( '<I', rpy[0][4:8] )[0]


def read_all():
    s,sess			= session()
    vals			= []
    for t in TAGS:
        s.sendall( frame( sess, lambda c: c.read( t + '[0]', elements=1 )))
        rpy,_,_			= recv_frames( s, 1 )
        assert rpy, "No reply to Read Tag Fragmented"
        vals.append( struct.unpack( '<h', rpy[0][-2:] )[0] )
    s.close()
    return vals


def write_all( value, how ):
    s,sess			= session()
    stream			= b''.join(
        frame( sess, lambda c: c.write( t + '[0]', data=[value], elements=1, tag_type=enip.INT.tag_type ))
        for t in TAGS )
    s.sendall( stream )				# four complete request frames, delivered together
    if how == 'close':
        s.close()				# the client doesn't wait for the replies
    else:
        s.shutdown( socket.SHUT_WR )
        recv_frames( s, None )
        s.close()
    time.sleep( 1.0 )
    return read_all()


def main():
    control			= cpppo.apidict( 2.0, { 'done': False } )
    server			= threading.Thread( target=enip_main, kwargs=dict(
        argv=[ '--address', '%s:%d' % ADDR ] + [ t + '=INT[2]' for t in TAGS ],
        server={ 'control': control } ))
    server.daemon		= True
    server.start()
    for _ in range( 100 ):
        try:
            socket.create_connection( ADDR, timeout=1 ).close()
            break
        except socket.error:
            time.sleep( .1 )

    halfclose			= write_all( 11, 'shutdown' )
    fullclose			= write_all( 22, 'close' )
    control['done']		= True

    print( "four complete Write Tag frames, then shutdown( SHUT_WR ): tags A..D == %r (expected %r)" % (
        halfclose, [11] * 4 ))
    print( "four complete Write Tag frames, then close():             tags A..D == %r (expected %r)" % (
        fullclose, [22] * 4 ))
    if halfclose != [11] * 4 or fullclose != [22] * 4:
        print( "CONTRADICTION: requests whose final byte was delivered were not acted upon" )
        return 1
    return 0


if __name__ == "__main__":
    sys.exit( main() )
