"""A single name behind a leading '.' (or behind back-tracking that passes the root) resolves to name.name.
The docstring: "Any string valid as an attribute name should be valid as a key (leading '.' ignored)", and
"back-tracking past root is OK"."""
import sys
from cpppo.dotdict import dotdict

bad = []
d = dotdict()
d['a'] = 1
d['b.c'] = 2
for key,expect in (( '.a', 1 ), ( 'b...a', 1 ), ( '.b.c', 2 ), ( 'x...b.c', 2 )):
    try:
        got = d[key]
    except KeyError as exc:
        got = 'KeyError(%s)' % exc
    if got != expect:
        bad.append( "d[%r]: observed %s, expected %r (same as d[%r])" % ( key, got, expect, key.lstrip( '.' ).split( '...' )[-1] ))
    if ( key in d ) != True:
        bad.append( "%r in d: observed False, expected True" % key )

e = dotdict()
e['.c'] = 4					# should be the same as e['c'] = 4
if sorted( e.items() ) != [( 'c', 4 )]:
    bad.append( "after e['.c'] = 4: observed leaves %r, expected [('c', 4)]" % ( sorted( e.items() ), ))

if bad:
    print( "\n".join( bad ))
    sys.exit( 1 )
print( "OK" )
