"""A pickle round trip ( what multiprocessing does to pass a dotdict to another process ) is a copy; for a tree that holds a
list of levels it cannot be loaded: the state is pickled as the FLATTENED items ( 'l[0].a' ), and on loading the
assignment 'l[0].a' needs the list to exist already: NameError.  Without lists, empty levels aside, it works."""
import sys, pickle
from cpppo.dotdict import dotdict

bad = []
d = dotdict()
d['a.b'] = 1
d['l'] = [ dotdict( a=1 ), dotdict( a=2 ) ]
try:
    c = pickle.loads( pickle.dumps( d ))
    if sorted( c.items() ) != sorted( d.items() ):
        bad.append( "pickle round trip: observed %r, expected %r" % ( sorted( c.items() ), sorted( d.items() )))
    c['l[0].a'] = 9
    if d['l[0].a'] != 1:
        bad.append( "not independent" )
except Exception as exc:
    bad.append( "pickle.loads( pickle.dumps( d )) with d.l a list of levels: observed %s(%s), expected an equal, independent tree" % (
        type( exc ).__name__, exc ))
if bad:
    print( "\n".join( bad ))
    sys.exit( 1 )
print( "OK" )
