"""d.copy() ( 'copy' is a reserved name, so this is always the method ) is dict.copy: it returns a plain FLAT dict keyed by
the leaf paths - interior nodes cannot be looked up in it, '..' means nothing to it - and it shares the empty levels and
the lists of levels with the original, so it is not structurally independent either ( copy.copy( d ) is )."""
import sys
from cpppo.dotdict import dotdict

bad = []
d = dotdict()
d['a.b'] = 1
d['e'] = dotdict()
d['l'] = [ dotdict( x=1 ) ]
c = d.copy()
if not isinstance( c, dotdict ):
    bad.append( "type( d.copy() ): observed %s, expected dotdict" % type( c ).__name__ )
for key in ( 'a', 'a.x..b', 'l[0]' ):
    if ( key in c ) != ( key in d ):
        bad.append( "%r in d.copy(): observed %s, in the original %s" % ( key, key in c, key in d ))
try:
    c['e']['x'] = 2
    c['l[0].x'] = 2
except Exception as exc:
    bad.append( "assigning into the copy: %s(%s)" % ( type( exc ).__name__, exc ))
if 'e.x' in d or d['l[0].x'] != 1:
    bad.append( "after assigning e.x and l[0].x in the copy, the original lists %r: the copy shares levels" % ( sorted( d.items() ), ))
if bad:
    print( "\n".join( bad ))
    sys.exit( 1 )
print( "OK" )
