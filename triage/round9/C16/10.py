"""An indexed LAST segment ( 'l[0]' ) can be looked up, is a member and can be assigned, but cannot be deleted or
popped: pop looks 'l[0]' up in the raw mapping ( and returns the default for a path that exists ), del reports an
EMPTY level as a 'partial key' or raises the raw KeyError."""
import sys
from cpppo.dotdict import dotdict

bad = []
d = dotdict()
d.l = [ dotdict( a=1 ), 5, dotdict() ]
assert 'l[0]' in d and d['l[1]'] == 5
d['l[1]'] = 6					# assignment by the same path works
assert d.l[1] == 6
got = d.pop( 'l[1]', 'DEFAULT' )
if got == 'DEFAULT' and 'l[1]' in d:
    bad.append( "d.pop( 'l[1]', 'DEFAULT' ): observed 'DEFAULT' although 'l[1]' in d and d['l[1]'] == %r; expected 6" % d['l[1]'] )
try:
    d.pop( 'l[0]' )
except KeyError as exc:
    if 'l[0]' in d:
        bad.append( "d.pop( 'l[0]' ): observed KeyError(%s) although 'l[0]' in d; expected the level (pop takes non-empty levels)" % exc )
try:
    del d['l[2]']				# an empty level: deletion is allowed
except KeyError as exc:
    if 'l[2]' in d:
        bad.append( "del d['l[2]'] ( an empty level ): observed KeyError(%s) although 'l[2]' in d" % exc )
if bad:
    print( "\n".join( bad ))
    sys.exit( 1 )
print( "OK" )
