"""The in-place update operator ( d |= mapping, Python 3.9+ ) is dict's own: it by-passes __setitem__, so dotted keys are
stored raw at the top level ( listed, but not found by lookup ), plain dicts do not become levels and reserved
names are accepted.  d.update( mapping ) does all three correctly."""
import sys
from cpppo.dotdict import dotdict

if sys.version_info < ( 3, 9 ):
    print( "OK (no |= for dict)" )
    sys.exit( 0 )
bad = []
d = dotdict()
d['a.b'] = 1
try:
    d |= { 'x.y': 1, 'p': { 'q': 1 }, 'keys': 2 }
except KeyError:
    pass					# refusing the reserved name would be fine
for key,val in d.items():
    if key not in d:
        bad.append( "after d |= {'x.y': 1, ...}: listed key %r is not a member / does not look up" % key )
if 'p' in d and 'p.q' in d and 'p.q' not in list( d.keys() ):
    bad.append( "after d |= {'p': {'q': 1}}: 'p.q' in d but keys() lists %r: the plain dict did not become a level" % ( list( d.keys() ), ))
if dict.__contains__( d, 'keys' ):
    bad.append( "after d |= {'keys': 2}: reserved name stored; d['keys'] is %r, d.keys is the method" % ( d['keys'], ))
if bad:
    print( "\n".join( bad ))
    sys.exit( 1 )
print( "OK" )
