"""Deletion in attribute form: d.a = 1 assigns, d.a looks up, but 'del d.a' raises AttributeError although
the attribute is there (no __delattr__ beside __setattr__/__getattr__; __slots__ = () leaves nothing for
object.__delattr__ to find)."""
import sys
from cpppo.dotdict import dotdict

d = dotdict()
d.a = 1
d['b.c'] = 2
bad = []
for what,level,name in (( 'del d.a', d, 'a' ), ( 'del d.b.c', d.b, 'c' )):
    try:
        delattr( level, name )
    except AttributeError as exc:
        bad.append( "%s: observed AttributeError(%s) although hasattr is %s; expected the entry to be deleted like del d[%r]" % (
            what, exc, hasattr( level, name ), name ))
if not bad and ( 'a' in d or 'b.c' in d ):
    bad.append( "still present after deletion: %r" % ( list( d ), ))
if bad:
    print( "\n".join( bad ))
    sys.exit( 1 )
print( "OK" )
