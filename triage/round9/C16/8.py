"""The names of apidict's own slots ( _lck, _cnd, _tmo ) and its class attribute _sync_mod are found by ordinary
attribute lookup before __getattr__, but are accepted as keys: the attribute form and the index form of the same
name then disagree ( the case that made 'fromkeys' and '_resolve' reserved names )."""
import sys
from cpppo.dotdict import apidict_threading

bad = []
for name in ( '_tmo', '_lck', '_cnd', '_sync_mod' ):
    a = apidict_threading( 0.01 )
    try:
        a[name] = 5
    except KeyError:
        continue				# refused, like the other reserved names: fine
    by_index = a[name]
    by_attr = getattr( a, name )
    if by_attr != by_index:
        bad.append( "a[%r] = 5 accepted; a[%r] observed %r but a.%s observed %r; expected equal values, or the key refused" % (
            name, name, by_index, name, by_attr ))
if bad:
    print( "\n".join( bad ))
    sys.exit( 1 )
print( "OK" )
