"""A plain dict inside a list assigned into the tree is neither converted to a level nor opaque: its entries look
up and are members ( 'l[0].p' ), but iteration does not list them and assignment by the same path is refused.
( d['l[0]'] = {'p': 1} - the index form - does convert. )"""
import sys
from cpppo.dotdict import dotdict

bad = []
d = dotdict()
d.l = [ { 'p': 1 } ]
member = 'l[0].p' in d
listed = 'l[0].p' in list( d.keys() )
if member != listed:
    bad.append( "'l[0].p' in d is %s, but listed by keys() is %s ( keys: %r )" % ( member, listed, list( d.keys() )))
try:
    d['l[0].p'] = 2
except KeyError as exc:
    if member:
        bad.append( "d['l[0].p'] = 2: observed KeyError(%s) although 'l[0].p' in d" % exc )
if bad:
    print( "\n".join( bad ))
    sys.exit( 1 )
print( "OK" )
