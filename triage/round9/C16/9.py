"""'..' after an indexed segment whose index expression contains a '.': the back-tracking cuts at the last '.' of
the text in front of the '..', which is the one INSIDE the brackets: 'l[i.j]..b' becomes 'l[i.b' instead of 'b'."""
import sys
from cpppo.dotdict import dotdict

bad = []
d = dotdict()
d['i.j'] = 0
d.l = [ dotdict( a=1 ) ]
d.b = 7
for key,expect in (( 'l[i.j].a', 1 ), ( 'l[0]..b', 7 ), ( 'l[i.j]..b', 7 ), ( 'l[i.j].a...b', 7 )):
    try:
        got = d[key]
    except KeyError as exc:
        got = 'KeyError(%s)' % exc
    if got != expect:
        bad.append( "d[%r]: observed %s, expected %r" % ( key, got, expect ))
if bad:
    print( "\n".join( bad ))
    sys.exit( 1 )
print( "OK" )
