"""apidict is a dotdict, but ( a ) a plain dict assigned into it is converted with self.__class__( value ), and
apidict's constructor wants a timeout first: AssertionError instead of a new addressable level; ( b ) copy.copy
and copy.deepcopy build the copy with type( self )( items ): AssertionError for the same reason."""
import sys, copy
from cpppo.dotdict import apidict_threading, dotdict

bad = []
a = apidict_threading( 0.01 )
try:
    a['x'] = { 'y': 1 }
    if a['x.y'] != 1:
        bad.append( "a['x.y'] observed %r, expected 1" % a['x.y'] )
except AssertionError as exc:
    bad.append( "a['x'] = {'y': 1}: observed AssertionError(%s), expected level x with x.y == 1" % exc )
try:
    a.update( { 'u': { 'v': 1 }} )
except AssertionError as exc:
    bad.append( "a.update( {'u': {'v': 1}} ): observed AssertionError(%s)" % exc )
a['p.q'] = 1
for fun in ( copy.copy, copy.deepcopy ):
    try:
        c = fun( a )
        c['p.q'] = 2
        if a['p.q'] != 1:
            bad.append( "%s: not independent" % fun.__name__ )
    except AssertionError as exc:
        bad.append( "copy.%s( apidict ): observed AssertionError(%s), expected an independent copy" % ( fun.__name__, exc ))
if bad:
    print( "\n".join( bad ))
    sys.exit( 1 )
print( "OK" )
