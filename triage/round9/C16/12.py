"""iteritems( depth ): "To approximate the normal dict.items() (which returns only the current dict's key/value
pairs), call with depth=1" - but depth=1 yields keys two names long ( depth=0 is what yields the top level ), and
lists of levels ignore the depth altogether."""
import sys
from cpppo.dotdict import dotdict

bad = []
d = dotdict()
d['a.b.c'] = 1
d['x'] = 2
d['l'] = [ dotdict( p=dotdict( q=1 )) ]
keys = sorted( d.listkeys( depth=1 ))
top = sorted( dict.keys( d ))
if keys != top:
    bad.append( "listkeys( depth=1 ): observed %r, expected the top-level names %r" % ( keys, top ))
if bad:
    print( "\n".join( bad ))
    sys.exit( 1 )
print( "OK" )
