"""An empty level is a leaf of the tree and is listed by iteration ( d.e = dotdict() lists 'e' ) - but not when it is an
element of a list of levels: the element (or the whole list, when all its elements are empty) disappears from
keys()/items(), although it looks up and is a member."""
import sys
from cpppo.dotdict import dotdict

bad = []
d = dotdict()
d.e = dotdict()
d.l = [ dotdict() ]
keys = list( d.keys() )
if 'e' not in keys:
    bad.append( "empty level 'e' not listed: %r" % keys )
if not any( k.startswith( 'l' ) for k in keys ):
    bad.append( "d.l = [ dotdict() ]: keys observed %r; expected 'l[0]' (an empty level, as 'e' is listed) or at least 'l'; "
                "'l' in d is %s, 'l[0]' in d is %s, len( d ) is %d" % ( keys, 'l' in d, 'l[0]' in d, len( d )))
d.m = [ dotdict( a=1 ), dotdict(), dotdict( a=3 ) ]
keys = [ k for k in d.keys() if k.startswith( 'm' ) ]
if not any( k.startswith( 'm[1]' ) for k in keys ):
    bad.append( "d.m = [ {a:1}, {}, {a:3} ]: keys observed %r; expected the empty element m[1] to be listed, too" % keys )
if bad:
    print( "\n".join( bad ))
    sys.exit( 1 )
print( "OK" )
