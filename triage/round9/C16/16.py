"""A last segment that contains '[' but does not END in ']' ( 'x[', 'a[0]b', 'n[1] ' ) is stored raw by assignment, but lookup
evaluates any segment containing '[' as an index expression: the assignment succeeds, the key is listed by iteration,
and it is not a member, cannot be looked up, deleted or popped by path."""
import sys
from cpppo.dotdict import dotdict

bad = []
for name in ( 'x[', 'a[0]b', 'n[1] ' ):
    d = dotdict()
    try:
        d['lvl.' + name] = 1
    except Exception:
        continue				# refusing such a name would be consistent
    for key,val in d.items():
        if key not in d:
            bad.append( "d[%r] = 1 accepted and %r is listed, but %r in d is False" % ( 'lvl.' + name, key, key ))
        try:
            del d[key]
        except KeyError as exc:
            bad.append( "del d[%r] ( a listed key ): observed KeyError(%s)" % ( key, exc ))
if bad:
    print( "\n".join( bad ))
    sys.exit( 1 )
print( "OK" )
