"""Lookup / membership of a path that the tree does not contain succeeds: a segment containing '[' is evaluated
as a Python expression as a whole, so a list display (or a parenthesised literal that is indexed) is a "member" of
an EMPTY dotdict, at any level."""
import sys
from cpppo.dotdict import dotdict

bad = []
d = dotdict()
for key in ( '[5]', '[1,2][0]', '(7,)[0]' ):
    if key in d:
        bad.append( "%r in dotdict(): observed True (d[%r] == %r), expected False / KeyError; keys are %r" % (
            key, key, d[key], list( d )))
d['a.b'] = 1
if 'a.[5]' in d:
    bad.append( "'a.[5]' in d: observed True (%r), expected False; keys are %r" % ( d['a.[5]'], list( d )))
if d.get( '[5]', 'default' ) != 'default':
    bad.append( "d.get( '[5]', 'default' ): observed %r, expected 'default'" % ( d.get( '[5]', 'default' ), ))
if bad:
    print( "\n".join( bad ))
    sys.exit( 1 )
print( "OK" )
