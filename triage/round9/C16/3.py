"""A list of levels stored under a name that is not a Python identifier (a keyword such as 'class', 'from', 'in';
a name with '-'; a name starting with a digit) is listed by iteration as name[i].leaf, but none of the listed
keys looks up: the whole segment 'name[i]' is handed to eval()."""
import sys
from cpppo.dotdict import dotdict

bad = []
for name in ( 'class', 'from', 'in', 'None', 'my-list', '2nd' ):
    d = dotdict()
    d[name] = [ dotdict( a=1 ), dotdict( a=2 ) ]
    for key,val in d.items():
        try:
            got = d[key]
        except KeyError as exc:
            bad.append( "listed key %r: lookup observed KeyError(%s), expected %r" % ( key, exc, val ))
            continue
        if got != val:
            bad.append( "listed key %r: lookup observed %r, expected %r" % ( key, got, val ))
        if key not in d:
            bad.append( "listed key %r: membership observed False" % key )
if bad:
    print( "\n".join( bad ))
    sys.exit( 1 )
print( "OK" )
