#
# C18 defect 2: records logged one millisecond apart.  timestamp's docstring says the numeric
# comparison ( _epsilon = 0.001 ) is equivalent to comparing the millisecond strings; in binary
# floating point ( x.103 - 0.001 > x.102 ) is false for about two thirds of such pairs, so
# timestamp( '...47.103' ) > timestamp( '...47.102' ) is False.  With one-record files ( where the
# next file must be strictly newer ) the file that starts 1ms after the previous record is rejected
# and its records are never delivered.
#
from __future__ import print_function

import gzip
import io
import os
import shutil
import sys
import tempfile
import warnings

warnings.simplefilter( 'ignore' )

from cpppo.history import files as hf
from cpppo.history.files import logger, loader
from cpppo.history.times import timestamp


class Clock( object ):
    def __init__( self, t ):
        self.t			= t
    def __call__( self ):
        return self.t

WALL				= 1700000000.0
clock				= Clock( WALL )
hf.timer			= clock			# the wall clock the reader/loader advance against


def write( path, records ):
    with logger( path ) as l:
        for t,data in records:
            l.write( data, now=t )

def main():
    tmp				= tempfile.mkdtemp( prefix='c18_defect2_' )
    try:
        a			= timestamp( '2023-11-24 08:19:47.102' )
        b			= timestamp( '2023-11-24 08:19:47.103' )
        print( "str( a ) < str( b ): %s;  b > a: %s;  a < b: %s" % ( str( a ) < str( b ), b > a, a < b ))

        path			= os.path.join( tmp, 'plant.hst' )
        write( path + '.2', [ (a.value,{ 40001: 1 }) ] )
        write( path + '.1', [ (b.value,{ 40002: 2 }) ] )		# 1ms later
        write( path,        [ (b.value + 1,{ 40003: 3 }) ] )

        clock.t			= WALL
        ld			= loader( path, historical=a.value - 0.102, basis=clock.t )
        got			= []
        for dt in range( 0, 8 ):
            clock.t		= WALL + dt
            cur,events		= ld.load()
            got.extend( str( e['timestamp'] ) for e in events )
            if not ld:
                break
        values			= dict( (r,v) for r,(t,v) in ld.values.items() )
        expect			= [ str( a ), str( b ), str( timestamp( b.value + 1 )) ]
        print( "delivered: %r\nlogged:    %r\nfinal map: %r" % ( got, expect, values ))
        if got != expect or values != { 40001: 1, 40002: 2, 40003: 3 }:
            print( "CONTRADICTION: the record logged 1ms after its predecessor (in the next one-record file) was never delivered" )
            return 1
        return 0
    finally:
        shutil.rmtree( tmp, ignore_errors=True )

if __name__ == "__main__":
    sys.exit( main() )
