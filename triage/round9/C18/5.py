#
# C18 defect 5: equal timestamps at a file boundary.  A file whose records all carry one timestamp
# ( eg. a single record ) never releases the loader's "strict" flag, so the next file must START
# strictly later; a next file that starts in the same millisecond ( the logger was rotated between
# two writes of the same instant ) is rejected as a whole -- including all its later records -- and
# playback jumps to the file after it ( or ends ).
#
from __future__ import print_function

import gzip
import io
import os
import shutil
import sys
import tempfile
import warnings

warnings.simplefilter( 'ignore' )

from cpppo.history import files as hf
from cpppo.history.files import logger, loader
from cpppo.history.times import timestamp


class Clock( object ):
    def __init__( self, t ):
        self.t			= t
    def __call__( self ):
        return self.t

WALL				= 1700000000.0
clock				= Clock( WALL )
hf.timer			= clock			# the wall clock the reader/loader advance against


def write( path, records ):
    with logger( path ) as l:
        for t,data in records:
            l.write( data, now=t )

def main():
    tmp				= tempfile.mkdtemp( prefix='c18_defect5_' )
    try:
        path			= os.path.join( tmp, 'plant.hst' )
        T			= 1600000000.0
        files			= [
            ('.3', [ (T - 2,{ 40001: 0, 40002: 0 }), (T - 1,{ 40001: -1 }) ]),
            ('.2', [ (T + 0,{ 40001: 1 }) ]),						# one record
            ('.1', [ (T + 0,{ 40002: 2 }), (T + 1,{ 40003: 3 }), (T + 2,{ 40001: 4 }) ]),	# starts in the same ms
            ('',   [ (T + 5,{ 40004: 5 }) ]),
        ]
        logged			= []
        for ext,records in files:
            write( path + ext, records )
            logged.extend( (str( timestamp( t )),dict( (str( k ),v) for k,v in d.items() )) for t,d in records )

        clock.t			= WALL
        ld			= loader( path, historical=T - 2, basis=clock.t )
        got			= []
        for dt in range( 0, 12 ):
            clock.t		= WALL + dt
            cur,events		= ld.load()
            got.extend( (str( e['timestamp'] ),e['values']) for e in events )
            if not ld:
                break
        values			= dict( (r,v) for r,(t,v) in ld.values.items() )
        print( "delivered: %r\nlogged:    %r\nfinal map: %r" % ( got, logged, values ))
        if got != logged:
            print( "CONTRADICTION: %d of %d records were never delivered (file plant.hst.1 skipped as a whole)" % (
                len( logged ) - len( got ), len( logged )))
            return 1
        return 0
    finally:
        shutil.rmtree( tmp, ignore_errors=True )

if __name__ == "__main__":
    sys.exit( main() )
