#
# C18 defect 3: with look-ahead, a load() that finds the next unread record still beyond the
# look-ahead horizon goes AWAITING and returns WITHOUT applying the already queued ( self.future )
# records whose time has come: loader.values / loader.until stay stale until the next unread record
# comes within the horizon.  load()'s docstring: "Load values up to the current historical timestamp
# ... into self.values".
#
from __future__ import print_function

import gzip
import io
import os
import shutil
import sys
import tempfile
import warnings

warnings.simplefilter( 'ignore' )

from cpppo.history import files as hf
from cpppo.history.files import logger, loader
from cpppo.history.times import timestamp


class Clock( object ):
    def __init__( self, t ):
        self.t			= t
    def __call__( self ):
        return self.t

WALL				= 1700000000.0
clock				= Clock( WALL )
hf.timer			= clock			# the wall clock the reader/loader advance against


def write( path, records ):
    with logger( path ) as l:
        for t,data in records:
            l.write( data, now=t )

def main():
    tmp				= tempfile.mkdtemp( prefix='c18_defect3_' )
    try:
        path			= os.path.join( tmp, 'plant.hst' )
        T			= 1600000000.0
        # one record a second for 10s, then a gap to T+100
        write( path, [ (T + i,{ 40001: i }) for i in range( 0, 11 ) ] + [ (T + 100,{ 40001: 100 }) ] )

        clock.t			= WALL
        ld			= loader( path, historical=T, basis=clock.t, lookahead=10.0 )
        bad			= []
        for dt in ( 0, 1, 2, 5, 10, 50, 89 ):
            clock.t		= WALL + dt
            cur,events		= ld.load()
            value		= ld.values.get( 40001, (None,None) )[1]
            expect		= min( dt, 10 )
            print( "historical +%3ds: state %-9s 40001 == %r (until %s); the last record logged at or before +%ds set it to %d" % (
                dt, ld.statename[ld.state], value, ld.until, dt, expect ))
            if value != expect:
                bad.append( dt )
        if bad:
            print( "CONTRADICTION: at historical offsets %r the replayed register map lags the records whose time had come" % ( bad, ))
            return 1
        return 0
    finally:
        shutil.rmtree( tmp, ignore_errors=True )

if __name__ == "__main__":
    sys.exit( main() )
