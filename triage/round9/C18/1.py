#
# C18 defect 1: a history file and a compressed copy of it present together, the compressed copy
# still being written (compression in progress).  reader.open's docstring promises that of duplicate
# files "the earlier (uncompressed) is preferred, addressing potential issues with using a file
# currently being compressed"; when switching to the next file ( after=True ) the LAST of the
# candidates with the same first record wins, ie. the compressed one.  Its stream fails half way,
# the file is given up, and the rest of the records -- all present in the plain copy -- are lost.
#
from __future__ import print_function

import gzip
import io
import os
import shutil
import sys
import tempfile
import warnings

warnings.simplefilter( 'ignore' )

from cpppo.history import files as hf
from cpppo.history.files import logger, loader
from cpppo.history.times import timestamp


class Clock( object ):
    def __init__( self, t ):
        self.t			= t
    def __call__( self ):
        return self.t

WALL				= 1700000000.0
clock				= Clock( WALL )
hf.timer			= clock			# the wall clock the reader/loader advance against


def write( path, records ):
    with logger( path ) as l:
        for t,data in records:
            l.write( data, now=t )

def main():
    tmp				= tempfile.mkdtemp( prefix='c18_defect1_' )
    try:
        path			= os.path.join( tmp, 'plant.hst' )
        T			= 1600000000.0
        N			= 3000
        write( path + '.2', [ (T - 10,{ 40001: 0 }), (T - 9,{ 40001: 1 }) ] )
        write( path + '.1', [ (T + i * 0.01,{ 40001: i, 40002: i * 7 % 1000 }) for i in range( N ) ] )
        write( path,        [ (T + 100,{ 40001: 5 }) ] )
        # plant.hst.1.gz: the first half of the compressed stream of plant.hst.1
        with open( path + '.1', 'rb' ) as f:
            raw			= f.read()
        buf			= io.BytesIO()
        with gzip.GzipFile( fileobj=buf, mode='wb' ) as g:
            g.write( raw )
        with open( path + '.1.gz', 'wb' ) as f:
            f.write( buf.getvalue()[:len( buf.getvalue() ) // 2] )

        clock.t			= WALL
        ld			= loader( path, historical=T - 10, basis=clock.t )
        got			= 0
        for dt in ( 0, 5, 10, 20, 50, 109, 111, 112, 113 ):
            clock.t		= WALL + dt
            cur,events		= ld.load()
            got		       += len( events )
            if not ld:
                break
        expected		= 2 + N + 1
        values			= dict( (r,v) for r,(t,v) in ld.values.items() )
        print( "records delivered: %d, records logged: %d; final state %s, map %r" % (
            got, expected, ld.statename[ld.state], values ))
        if got != expected:
            print( "CONTRADICTION: %d records of plant.hst.1 were lost although the complete plain copy is present (the partial plant.hst.1.gz was preferred)" % (
                expected - got ))
            return 1
        return 0
    finally:
        shutil.rmtree( tmp, ignore_errors=True )

if __name__ == "__main__":
    sys.exit( main() )
